package replication

import (
	"context"
	"errors"

	"github.com/WuKongIM/WuKongIM/internal/zzsym"
	ch "github.com/WuKongIM/WuKongIM/pkg/channel"
)

// ---------------------------------------------------------------------------------------------
// Fakes of the quorumLog ports (ReplicaStore + commandStore, recoveryDispatcher,
// durabilityDispatcher). ONE fact table - the local durable log - backs all of them, every
// completion callback is invoked synchronously, every call is counted.
// ---------------------------------------------------------------------------------------------

const (
	c04Key   = ch.ChannelKey("1:c")
	c04Local = ch.NodeID(1)
)

var c04ChanID = ch.ChannelID{ID: "c", Type: 1}

type c04PortErr struct{}

func (*c04PortErr) Error() string { return "c04: port failure" }

// local durability behaviours
const (
	c04LocalHonest        = iota // the store contract without faults: Durable / AlreadyDurable / Conflict
	c04LocalLostWritten          // Unknown + error, the write happened (response lost)
	c04LocalLostUnwritten        // Unknown + error, nothing written
	c04LocalRefused              // DefinitelyNotWritten + error
	c04LocalSubmitError          // submit returns an error, no completion is transferred
	c04LocalModes
)

// follower durability behaviours
const (
	c04FolDurable = iota
	c04FolUnknown
	c04FolConflict
	c04FolRefused
	c04FolSubmitError
	c04FolModes
)

type c04Env struct {
	// behaviour scripts: consumed one element per call, afterwards the behaviour is a fresh
	// zzsym.Choice per call.
	localPlan []int
	folPlan   []int
	// the behaviours an unscripted call chooses from (nil = all)
	localChoices []int
	folChoices   []int
	// recovery behaviour, decided when recovery first reaches the port: 0 = decide by zzsym.Choice,
	// 1 = works, 2 = fails (every probe submission refused / ReplicaStore.Load fails)
	probeMode int
	loadMode  int

	// the cluster log: `log` holds every proposal that is durable on the local store, in order.
	// Followers and the committed frontier are reported identical to the local store.
	log []durableProposal

	probes, fetches                      int
	loads, syncs, replaces, storeFetches int
	lookups                              int
	localSubmits, replicaSubmits         int
	folDurableAcks                       int
	lastLocal                            durableProposal
}

func (e *c04Env) dispatches() int  { return e.localSubmits + e.replicaSubmits }
func (e *c04Env) storeWrites() int { return e.syncs + e.replaces }
func (e *c04Env) portCalls() int {
	return e.probes + e.fetches + e.loads + e.syncs + e.replaces + e.storeFetches + e.lookups + e.localSubmits + e.replicaSubmits
}

func (e *c04Env) next(plan *[]int, choices []int, name string, n int) int {
	if len(*plan) > 0 {
		v := (*plan)[0]
		*plan = (*plan)[1:]
		return v
	}
	if len(choices) > 0 {
		return choices[zzsym.Choice(name, len(choices))]
	}
	return zzsym.Choice(name, n)
}

// localState is the exact durable frontier of the fake store.
func (e *c04Env) localState() ReplicaState {
	if len(e.log) == 0 {
		return ReplicaState{}
	}
	last := e.log[len(e.log)-1]
	_, entries, ok := ch.SealProposalManifest(last.manifest, last.records)
	if !ok {
		panic("c04: stored proposal does not seal")
	}
	return ReplicaState{LEO: last.last, Committed: last.last, Manifest: last.manifest, TailIdentity: entries[len(entries)-1]}
}

func (e *c04Env) identityAt(index uint64) (ch.EntryIdentity, bool) {
	for _, p := range e.log {
		if index < p.first || index > p.last {
			continue
		}
		_, entries, ok := ch.SealProposalManifest(p.manifest, p.records)
		if !ok {
			panic("c04: stored proposal does not seal")
		}
		return entries[index-p.first], true
	}
	return ch.EntryIdentity{}, false
}

func (e *c04Env) probeEntries(indexes []uint64) []EntryProbe {
	var out []EntryProbe
	for _, index := range indexes {
		identity, present := e.identityAt(index)
		out = append(out, EntryProbe{Index: index, Present: present, Identity: identity})
	}
	return out
}

// --- recoveryDispatcher
func (e *c04Env) submitRecoveryProbe(_ context.Context, query recoveryProbeQuery, complete func(ProbeResult, error)) error {
	e.probes++
	if e.probeMode == 0 {
		e.probeMode = 1 + zzsym.Choice("probe.fails", 2)
	}
	if e.probeMode == 2 {
		return &c04PortErr{}
	}
	request := ProbeRequest{ChannelKey: query.ChannelKey, ChannelID: query.ChannelID, Leader: query.Leader, Follower: query.Voter, Indexes: query.Indexes}
	complete(ProbeResult{Proof: probeProofFor(request), State: e.localState(), Entries: e.probeEntries(query.Indexes)}, nil)
	return nil
}

func (e *c04Env) submitRecoveryFetch(_ context.Context, _ recoveryFetchQuery, _ func(FetchResult, error)) error {
	e.fetches++
	return &c04PortErr{} // no donor page is ever needed: every voter already holds the proved prefix
}

// --- ReplicaStore + commandStore
func (e *c04Env) Load(_ context.Context, batch LoadBatch) (LoadBatchResult, error) {
	e.loads++
	if e.loadMode == 0 {
		e.loadMode = 1 + zzsym.Choice("load.fails", 2)
	}
	if e.loadMode == 2 {
		return LoadBatchResult{}, &c04PortErr{}
	}
	var out LoadBatchResult
	for _, item := range batch.Items {
		out.Items = append(out.Items, LoadResult{State: e.localState(), Entries: e.probeEntries(item.ProbeIndexes)})
	}
	return out, nil
}

func (e *c04Env) Sync(_ context.Context, mutations []Mutation) []MutationResult {
	e.syncs++
	out := make([]MutationResult, len(mutations))
	for i := range out {
		out[i] = MutationResult{Outcome: ch.AppendOutcomeDefinitelyNotWritten, Err: &c04PortErr{}}
	}
	return out
}

func (e *c04Env) Replace(_ context.Context, items []RecoveryReplacement) []RecoveryReplacementResult {
	e.replaces++
	out := make([]RecoveryReplacementResult, len(items))
	for i := range out {
		out[i] = RecoveryReplacementResult{Outcome: ch.AppendOutcomeDefinitelyNotWritten, Err: &c04PortErr{}}
	}
	return out
}

func (e *c04Env) Fetch(_ context.Context, items []FetchRange) []FetchRangeResult {
	e.storeFetches++
	out := make([]FetchRangeResult, len(items))
	for i := range out {
		out[i] = FetchRangeResult{Err: &c04PortErr{}}
	}
	return out
}

func (e *c04Env) LookupCommands(_ context.Context, lookups []CommandLookup) []CommandLookupResult {
	e.lookups++
	out := make([]CommandLookupResult, len(lookups))
	for i, lookup := range lookups {
		for _, p := range e.log {
			if p.manifest.CommandID == lookup.CommandID {
				out[i] = CommandLookupResult{Manifest: p.manifest, Records: cloneRecords(p.records), Found: true}
			}
		}
	}
	return out
}

// --- durabilityDispatcher
func (e *c04Env) submitLocal(_ context.Context, proposal durableProposal, complete func(durabilityCompletion)) error {
	e.localSubmits++
	e.lastLocal = proposal
	mode := e.next(&e.localPlan, e.localChoices, "local.mode", c04LocalModes)
	if mode == c04LocalSubmitError {
		return &c04PortErr{}
	}
	// what the exact-base store contract says about this proposal
	known, identical := false, false
	for _, p := range e.log {
		if p.manifest.CommandID == proposal.manifest.CommandID {
			known = true
			identical = p.manifest == proposal.manifest
		}
	}
	honest := ch.AppendOutcomeConflict
	switch {
	case known && identical:
		honest = ch.AppendOutcomeAlreadyDurable
	case !known && proposal.manifest.BaseOffset == e.localState().LEO:
		honest = ch.AppendOutcomeDurable
	}
	written := honest == ch.AppendOutcomeDurable && (mode == c04LocalHonest || mode == c04LocalLostWritten)
	if written {
		e.log = append(e.log, proposal.freeze())
	}
	switch mode {
	case c04LocalHonest:
		if honest.Durable() {
			complete(durabilityCompletion{outcome: honest})
		} else {
			complete(durabilityCompletion{outcome: honest, err: ch.ErrLogConflict})
		}
	case c04LocalLostWritten, c04LocalLostUnwritten:
		complete(durabilityCompletion{outcome: ch.AppendOutcomeUnknown, err: &c04PortErr{}})
	default:
		complete(durabilityCompletion{outcome: ch.AppendOutcomeDefinitelyNotWritten, err: ch.ErrBackpressured})
	}
	return nil
}

func (e *c04Env) submitReplica(_ context.Context, _ ch.NodeID, _ durableProposal, complete func(durabilityCompletion)) error {
	e.replicaSubmits++
	switch e.next(&e.folPlan, e.folChoices, "follower.mode", c04FolModes) {
	case c04FolDurable:
		e.folDurableAcks++
		complete(durabilityCompletion{outcome: ch.AppendOutcomeDurable})
	case c04FolUnknown:
		complete(durabilityCompletion{outcome: ch.AppendOutcomeUnknown, err: &c04PortErr{}})
	case c04FolConflict:
		complete(durabilityCompletion{outcome: ch.AppendOutcomeConflict, err: ch.ErrLogConflict})
	case c04FolRefused:
		complete(durabilityCompletion{outcome: ch.AppendOutcomeDefinitelyNotWritten, err: ch.ErrBackpressured})
	default:
		return &c04PortErr{}
	}
	return nil
}

// ---------------------------------------------------------------------------------------------
// builders
// ---------------------------------------------------------------------------------------------

func c04NewLog(env *c04Env, maxRetained int) *quorumLog {
	l, err := newQuorumLog(quorumLogConfig{
		Local: c04Local, Store: env, Recovery: env, Durability: env,
		RecoveryTimeout: 1000000000, RecoveryPageBytes: 1 << 16,
		MaxChannels: 2, MaxVoters: 3, MaxProposalRecords: 2, MaxProposalBytes: 1 << 12, MaxRetainedCommands: maxRetained,
	})
	if err != nil || l == nil {
		panic("c04: newQuorumLog refused a valid configuration")
	}
	return l
}

func c04SymID(name string) AuthorityID {
	return AuthorityID{ChannelEpoch: zzsym.U64(name + ".epoch"), LeaderTerm: zzsym.U64(name + ".term"), FenceVersion: zzsym.U64(name + ".fence")}
}

// c04Lex is the reference order: lexicographic on (channel epoch, leader term, fence version).
func c04Lex(a, b AuthorityID) int {
	if a.ChannelEpoch != b.ChannelEpoch {
		if a.ChannelEpoch < b.ChannelEpoch {
			return -1
		}
		return 1
	}
	if a.LeaderTerm != b.LeaderTerm {
		if a.LeaderTerm < b.LeaderTerm {
			return -1
		}
		return 1
	}
	if a.FenceVersion != b.FenceVersion {
		if a.FenceVersion < b.FenceVersion {
			return -1
		}
		return 1
	}
	return 0
}

// c04Topology: a few valid voter configurations that all contain the local node.
func c04Topology(name string, n int) ([]ch.NodeID, int) {
	switch zzsym.Choice(name+".topology", n) {
	case 0:
		return []ch.NodeID{1, 2, 3}, 2
	case 1:
		return []ch.NodeID{1}, 1
	case 2:
		return []ch.NodeID{1, 2, 3}, 3
	default:
		return []ch.NodeID{1, 3, 2}, 2
	}
}

// c04Fence: no fence, an active fence, or a token with version 0 (which is not an active fence).
func c04Fence(name string, kinds int) ch.WriteFence {
	switch zzsym.Choice(name+".fence.kind", kinds) {
	case 0:
		return ch.WriteFence{}
	case 1:
		f := ch.WriteFence{Token: "t", Version: zzsym.U64(name + ".fence.version"), Reason: ch.WriteFenceReason(zzsym.U8(name + ".fence.reason"))}
		zzsym.Assume(f.Version != 0)
		return f
	default:
		return ch.WriteFence{Token: "t", Reason: ch.WriteFenceReason(zzsym.U8(name + ".fence.reason"))}
	}
}

func c04Authority(name string, topologies int) Authority {
	return c04AuthorityF(name, topologies, 3)
}

func c04AuthorityF(name string, topologies, fenceKinds int) Authority {
	voters, quorum := c04Topology(name, topologies)
	a := Authority{Key: c04Key, ChannelID: c04ChanID, ID: c04SymID(name), Leader: c04Local, Voters: voters, WriteQuorum: quorum, WriteFence: c04Fence(name, fenceKinds)}
	zzsym.Assume(a.ID.ChannelEpoch != 0 && a.ID.LeaderTerm != 0 && a.ID.FenceVersion != 0)
	return a
}

func c04Record(name string, epoch uint64) ch.Record {
	r := ch.Record{ID: zzsym.U64(name + ".id"), Epoch: epoch, ServerTimestampMS: zzsym.I64(name + ".ts"), Payload: zzsym.Bytes(name+".payload", 1), SizeBytes: 1}
	zzsym.Assume(r.ID != 0 && r.ServerTimestampMS > 0)
	return r
}

func c04Command(tag byte) ch.CommandID {
	var id ch.CommandID
	id[31] = tag
	return id
}

// c04AssumeBarrierCommandFresh: the command id of the recovery barrier is a SHA-256 digest; under
// the abstract hash it could coincide with one of the constant command ids 00..01 - 00..03 used by
// the harness, which the real hash does not produce.
func c04AssumeBarrierCommandFresh(b Authority) {
	barrier, _ := recoveryBarrierContent(b)
	zzsym.Assume(barrier != c04Command(1) && barrier != c04Command(2) && barrier != c04Command(3))
}

func c04SameVoters(a, b []ch.NodeID) bool {
	if len(a) != len(b) {
		return false
	}
	for i := range a {
		if a[i] != b[i] {
			return false
		}
	}
	return true
}

// c04Snap is every field of a quorumChannel that admission depends on.
type c04Snap struct {
	authority Authority
	frontier  ReplicaState
	hw        uint64
	ready     bool
	pending   *retainedProposal
	retained  int
	order     int
	hasCmd1   bool
	cmd1      Receipt
}

func c04Snapshot(s *quorumChannel) c04Snap {
	snap := c04Snap{authority: cloneAuthority(s.authority), frontier: s.frontier, hw: s.hw, ready: s.ready, pending: s.pending,
		retained: len(s.retained), order: len(s.order)}
	if r, ok := s.retained[c04Command(1)]; ok {
		snap.hasCmd1, snap.cmd1 = true, r.receipt
	}
	return snap
}

func c04Unchanged(pre c04Snap, s *quorumChannel) bool {
	post := c04Snapshot(s)
	return post.authority.Key == pre.authority.Key && post.authority.ChannelID == pre.authority.ChannelID &&
		post.authority.ID == pre.authority.ID && post.authority.Leader == pre.authority.Leader &&
		post.authority.WriteQuorum == pre.authority.WriteQuorum && post.authority.WriteFence == pre.authority.WriteFence &&
		c04SameVoters(post.authority.Voters, pre.authority.Voters) &&
		post.frontier == pre.frontier && post.hw == pre.hw && post.ready == pre.ready && post.pending == pre.pending &&
		post.retained == pre.retained && post.order == pre.order && post.hasCmd1 == pre.hasCmd1 && post.cmd1 == pre.cmd1
}

// c04Closed: the admission state of a fenced channel (what fenceQuorumChannel documents).
func c04Closed(s *quorumChannel) bool {
	return !s.ready && s.pending == nil && len(s.retained) == 0 && len(s.order) == 0 && s.frontier == (ReplicaState{}) && s.hw == 0
}

// c04InstalledChannel puts a quorumChannel with installed authority A into the owner: readiness,
// frontier numbers, one retained durable command (command 1) and a pending command (command 2)
// are enumerated / symbolic.
func c04InstalledChannel(l *quorumLog, a Authority) *quorumChannel {
	s := &quorumChannel{id: a.ChannelID, authority: cloneAuthority(a), retained: make(map[ch.CommandID]retainedProposal, l.cfg.MaxRetainedCommands)}
	kinds := 3
	if zzsym.Thorough() {
		kinds = 5
	}
	kind := zzsym.Choice("pre.kind", kinds) // 0 not ready, 1 ready+empty, 2 ready+retained+pending, 3 ready+retained, 4 ready+pending
	s.ready = kind != 0
	if s.ready {
		s.frontier.LEO = zzsym.U64("pre.leo")
		s.frontier.Committed = zzsym.U64("pre.committed")
		s.hw = s.frontier.LEO
		if kind == 2 || kind == 3 {
			cmd := c04Command(1)
			first := zzsym.U64("pre.retained.first")
			receipt := Receipt{Authority: a.ID, CommandID: cmd, First: first, Last: first, HW: first}
			s.retained[cmd] = retainedProposal{proposal: durableProposal{first: first, last: first}, receipt: receipt, durable: true}
			s.order = append(s.order, cmd)
		}
		if kind == 2 || kind == 4 {
			p := retainedProposal{proposal: durableProposal{first: s.frontier.LEO + 1, last: s.frontier.LEO + 1}}
			p.proposal.manifest.CommandID = c04Command(2)
			s.pending = &p
		}
	}
	l.channels[a.Key] = s
	return s
}

// ---------------------------------------------------------------------------------------------
// (a) compareAuthorityID is the strict lexicographic total order on the triple
// ---------------------------------------------------------------------------------------------

func Harness_C04_CompareOrder() {
	a, b, c := c04SymID("a"), c04SymID("b"), c04SymID("c")
	ab, ba, bc, ac := compareAuthorityID(a, b), compareAuthorityID(b, a), compareAuthorityID(b, c), compareAuthorityID(a, c)
	zzsym.Reach("compared")
	zzsym.Assert(ab == -1 || ab == 0 || ab == 1, "compareAuthorityID result outside {-1,0,1}")
	zzsym.Assert(ab == c04Lex(a, b), "compareAuthorityID differs from the lexicographic order on (channel epoch, leader term, fence version)")
	zzsym.Assert((ab == 0) == (a == b), "compareAuthorityID is 0 for different triples or non-zero for equal ones")
	zzsym.Assert(ab == -ba, "compareAuthorityID is not antisymmetric")
	zzsym.Assert(!(ab <= 0 && bc <= 0) || ac <= 0, "compareAuthorityID is not transitive")
	zzsym.Assert(!(ab <= 0 && bc <= 0 && (ab < 0 || bc < 0)) || ac < 0, "compareAuthorityID is not strictly transitive")
	zzsym.Assert(compareAuthorityID(a, a) == 0, "compareAuthorityID is not reflexive")
	if a.ChannelEpoch > b.ChannelEpoch && a.LeaderTerm < b.LeaderTerm {
		zzsym.Reach("higher channel epoch with smaller leader term")
		zzsym.Assert(ab == 1, "a higher channel epoch with a smaller leader term must be the newer authority")
	}
	zzsym.Observe("cmp", uint64(ab+1), uint64(ba+1), uint64(ac+1))
}

// ---------------------------------------------------------------------------------------------
// (b) Install against a channel that already has an installed authority
// ---------------------------------------------------------------------------------------------

func Harness_C04_InstallOrdering() {
	env := &c04Env{}
	l := c04NewLog(env, 2)
	fenceKinds := 2
	if zzsym.Thorough() {
		fenceKinds = 3
	}
	a := c04AuthorityF("A", 2, fenceKinds)
	s := c04InstalledChannel(l, a)
	pre := c04Snapshot(s)

	b := c04Authority("B", 1)
	switch zzsym.Choice("B.topology.vs.A", 3) {
	case 0: // the same voters and quorum
		b.Voters, b.WriteQuorum = append([]ch.NodeID(nil), a.Voters...), a.WriteQuorum
	case 1: // other voter set (and quorum)
		if len(a.Voters) == 1 {
			b.Voters, b.WriteQuorum = []ch.NodeID{1, 2, 3}, 2
		} else {
			b.Voters, b.WriteQuorum = []ch.NodeID{1}, 1
		}
	default: // same voter set, other quorum / other order
		if len(a.Voters) == 1 {
			b.Voters, b.WriteQuorum = []ch.NodeID{1, 2}, 2
		} else if zzsym.Choice("B.topology.variant", 2) == 0 {
			b.Voters, b.WriteQuorum = []ch.NodeID{1, 2, 3}, 3
		} else {
			b.Voters, b.WriteQuorum = []ch.NodeID{1, 3, 2}, 2
		}
	}
	// the recovery of an admitted Install meets refused probes, a failing local load, or a quorum
	// proof of the empty log (decided by the fakes when recovery reaches them)
	order := c04Lex(b.ID, a.ID)
	same := b.WriteQuorum == a.WriteQuorum && b.WriteFence == a.WriteFence && c04SameVoters(b.Voters, a.Voters)

	installed, err := l.Install(context.Background(), b)

	zzsym.Observe("install", uint64(order+1), zzsym.B2U(err != nil), zzsym.B2U(same), zzsym.B2U(s.ready), installed.LEO)
	zzsym.Assert(env.dispatches() == 0 && env.storeWrites() == 0, "Install over an empty or unreachable log dispatched a durability round or wrote the store")
	zzsym.Assert(err == nil || installed == (Installed{}), "failed Install returned a non-zero Installed")
	switch {
	case order < 0:
		zzsym.Reach("install: older authority")
		zzsym.Assert(err != nil && errors.Is(err, ch.ErrStaleMeta), "Install of an older authority was not rejected with ErrStaleMeta")
		zzsym.Assert(c04Unchanged(pre, s), "Install of an older authority changed the channel state")
		zzsym.Assert(env.portCalls() == 0, "Install of an older authority called a port")
	case order == 0 && !same:
		zzsym.Reach("install: same id, different configuration")
		zzsym.Assert(err != nil && errors.Is(err, ch.ErrLogConflict), "Install with an equal authority id but different voters/quorum/fence was not rejected with ErrLogConflict")
		zzsym.Assert(c04Unchanged(pre, s), "conflicting Install changed the channel state")
		zzsym.Assert(env.portCalls() == 0, "conflicting Install called a port")
	case order == 0 && b.WriteFence.Set():
		zzsym.Reach("install: same authority, fenced")
		zzsym.Assert(err != nil && errors.Is(err, ch.ErrWriteFenced), "re-Install of a fenced authority was not rejected with ErrWriteFenced")
		zzsym.Assert(c04Unchanged(pre, s), "re-Install of a fenced authority changed the channel state")
		zzsym.Assert(env.portCalls() == 0, "re-Install of a fenced authority called a port")
	case order == 0 && pre.ready:
		zzsym.Reach("install: same authority, already ready")
		zzsym.Assert(err == nil && installed == Installed{Authority: a.ID, LEO: pre.frontier.LEO, HW: pre.hw}, "idempotent re-Install did not return the current frontier")
		zzsym.Assert(c04Unchanged(pre, s), "idempotent re-Install changed the channel state")
		zzsym.Assert(env.portCalls() == 0, "idempotent re-Install called a port")
	case order == 0:
		zzsym.Reach("install: same authority, retry of an unfinished install")
		zzsym.Assert(s.authority.ID == a.ID, "retry of an unfinished install changed the authority")
		if err != nil {
			zzsym.Assert(!s.ready, "failed install retry left the channel ready")
		} else {
			zzsym.Reach("install: retry succeeded")
			zzsym.Assert(s.ready && installed.Authority == a.ID, "successful install retry is not ready under its authority")
		}
	default:
		zzsym.Reach("install: newer authority")
		// the old admission is closed whatever happens afterwards
		zzsym.Assert(s.authority.ID == b.ID && s.authority.WriteFence == b.WriteFence && s.authority.WriteQuorum == b.WriteQuorum &&
			c04SameVoters(s.authority.Voters, b.Voters), "newer authority was not recorded by Install")
		zzsym.Assert(s.pending == nil && len(s.retained) == 0 && len(s.order) == 0, "Install of a newer authority kept pending or retained commands of the old one")
		if b.WriteFence.Set() {
			zzsym.Reach("install: newer authority, fenced")
			zzsym.Assert(err != nil && errors.Is(err, ch.ErrWriteFenced), "Install of a fenced newer authority was not rejected with ErrWriteFenced")
			zzsym.Assert(env.portCalls() == 0, "Install of a fenced authority started recovery or durability work")
		}
		if err != nil {
			zzsym.Reach("install: newer authority, failed")
			zzsym.Assert(c04Closed(s), "failed Install of a newer authority did not leave the admission closed")
			// the deposed authority cannot commit any more
			before := env.portCalls()
			receipt, cerr := l.Commit(context.Background(), Proposal{Key: c04Key, Expected: a.ID, CommandID: c04Command(1), Records: []ch.Record{c04Record("r", a.ID.ChannelEpoch)}})
			zzsym.Assert(cerr != nil && (errors.Is(cerr, ch.ErrNotReady) || errors.Is(cerr, ch.ErrStaleMeta)), "Commit of the deposed authority after a failed Install was not rejected")
			zzsym.Assert(receipt == (Receipt{}), "Commit of the deposed authority returned a receipt")
			zzsym.Assert(env.portCalls() == before, "Commit of the deposed authority reached a port")
		} else {
			zzsym.Reach("install: newer authority, ready")
			zzsym.Assert(!b.WriteFence.Set(), "a fenced authority became ready")
			zzsym.Assert(s.ready && installed == Installed{Authority: b.ID}, "successful Install over the empty log is not ready at LEO 0")
			zzsym.Assert(env.probeMode == 1 && env.loadMode == 1, "Install succeeded although recovery failed")
		}
	}
}

// Harness_C04_InstallFirst: the first Install on a channel (no authority yet) with a fenced
// authority is refused before any recovery or durability work, and stays refused.
func Harness_C04_InstallFirst() {
	env := &c04Env{}
	l := c04NewLog(env, 2)
	env.probeMode, env.loadMode = 1, 1
	b := c04Authority("B", 2)
	installed, err := l.Install(context.Background(), b)
	s := l.channels[c04Key]
	zzsym.Assert(s != nil, "Install did not create the channel")
	if s == nil {
		return
	}
	zzsym.Observe("first", zzsym.B2U(err != nil), zzsym.B2U(s.ready))
	if b.WriteFence.Set() {
		zzsym.Reach("first install: fenced")
		zzsym.Assert(err != nil && errors.Is(err, ch.ErrWriteFenced) && installed == (Installed{}), "first Install of a fenced authority was not rejected with ErrWriteFenced")
		zzsym.Assert(env.portCalls() == 0, "first Install of a fenced authority started recovery or durability work")
		zzsym.Assert(c04Closed(s) && s.authority.ID == b.ID, "fenced first Install did not leave a closed channel under the fenced authority")
		receipt, cerr := l.Commit(context.Background(), Proposal{Key: c04Key, Expected: b.ID, CommandID: c04Command(1), Records: []ch.Record{c04Record("r", b.ID.ChannelEpoch)}})
		zzsym.Assert(cerr != nil && receipt == (Receipt{}) && env.portCalls() == 0, "Commit under a fenced, never ready authority was admitted")
		return
	}
	zzsym.Reach("first install: not fenced")
	zzsym.Assert(err == nil && s.ready && installed == Installed{Authority: b.ID}, "first Install over a quorum-proved empty log failed")
	zzsym.Assert(env.dispatches() == 0 && env.storeWrites() == 0, "Install over the empty log wrote a barrier")
}

// Harness_C04_InstallBarrier: Install of a newer authority over a NON-empty recovered log has to
// write the current-term barrier through the durability dispatcher - unless the authority is
// fenced, in which case nothing may be dispatched.
func Harness_C04_InstallBarrier() {
	env := &c04Env{}
	l := c04NewLog(env, 2)
	// history: authority A wrote one proposal that is durable and committed on every voter
	a := c04AuthorityF("A", 2, 1)
	env.localPlan = []int{c04LocalHonest}
	env.folPlan = []int{c04FolDurable, c04FolDurable}
	env.probeMode, env.loadMode = 1, 1
	if !zzsym.Thorough() {
		// the barrier round: the local write is durable or lost, a follower is durable or unreachable
		env.localChoices = []int{c04LocalHonest, c04LocalLostUnwritten}
		env.folChoices = []int{c04FolDurable, c04FolUnknown}
	}
	_, err := l.Install(context.Background(), a)
	zzsym.Assert(err == nil, "Install(A) over the empty log failed")
	first, err := l.Commit(context.Background(), Proposal{Key: c04Key, Expected: a.ID, CommandID: c04Command(1), Records: []ch.Record{c04Record("r1", a.ID.ChannelEpoch)}})
	zzsym.Assert(err == nil && first.First == 1 && first.Last == 1 && first.Authority == a.ID, "first Commit under A did not return range 1..1")
	if err != nil {
		return
	}
	dispatched := env.dispatches()
	b := c04Authority("B", 1)
	b.Voters, b.WriteQuorum = a.Voters, a.WriteQuorum
	zzsym.Assume(c04Lex(b.ID, a.ID) > 0)
	c04AssumeBarrierCommandFresh(b)
	env.probeMode = 0 // probes of the second recovery are refused or answered

	installed, err := l.Install(context.Background(), b)

	s := l.channels[c04Key]
	zzsym.Observe("barrier", zzsym.B2U(err != nil), installed.LEO, uint64(env.dispatches()-dispatched))
	if b.WriteFence.Set() {
		zzsym.Reach("barrier: fenced authority")
		zzsym.Assert(err != nil && errors.Is(err, ch.ErrWriteFenced), "Install of a fenced newer authority over a non-empty log was not rejected with ErrWriteFenced")
		zzsym.Assert(env.dispatches() == dispatched && env.storeWrites() == 0, "Install of a fenced authority dispatched a barrier write")
		zzsym.Assert(c04Closed(s), "fenced Install left admission open")
		return
	}
	if err != nil {
		zzsym.Reach("barrier: failed")
		zzsym.Assert(c04Closed(s) && s.authority.ID == b.ID, "failed Install of a newer authority did not leave the admission closed under the new authority")
	} else {
		zzsym.Reach("barrier: written")
		zzsym.Assert(env.dispatches() > dispatched, "Install over a foreign non-empty frontier became ready without a durable barrier")
		zzsym.Assert(installed == Installed{Authority: b.ID, LEO: 2, HW: 2} && s.ready && len(s.retained) == 0 && s.pending == nil, "Install with barrier is not ready at LEO 2 with an empty command cache")
	}
	// the deposed authority never gets a receipt, not even for its retained command
	before := env.dispatches()
	receipt, cerr := l.Commit(context.Background(), Proposal{Key: c04Key, Expected: a.ID, CommandID: c04Command(1), Records: []ch.Record{c04Record("r1again", a.ID.ChannelEpoch)}})
	zzsym.Assert(cerr != nil && receipt == (Receipt{}), "Commit carrying the deposed authority was acknowledged")
	zzsym.Assert(errors.Is(cerr, ch.ErrStaleMeta) || errors.Is(cerr, ch.ErrNotReady), "Commit carrying the deposed authority failed with an unexpected error class")
	zzsym.Assert(env.dispatches() == before, "Commit carrying the deposed authority was dispatched")
}

// ---------------------------------------------------------------------------------------------
// (c) Commit gates
// ---------------------------------------------------------------------------------------------

func Harness_C04_CommitGates() {
	env := &c04Env{}
	l := c04NewLog(env, 2)
	a := c04Authority("A", 2)
	s := c04InstalledChannel(l, a)
	pre := c04Snapshot(s)

	p := Proposal{Key: c04Key, Expected: c04SymID("expected"), Records: []ch.Record{c04Record("r", a.ID.ChannelEpoch)}}
	p.CommandID = c04Command(byte(1 + zzsym.Choice("command", 3))) // retained (1), pending (2) or new (3)
	zzsym.Assume(p.Expected != (AuthorityID{}))
	// an admitted round: the local store accepts or refuses, followers are durable
	env.localPlan = []int{[]int{c04LocalHonest, c04LocalRefused}[zzsym.Choice("local", 2)]}
	env.folPlan = []int{c04FolDurable, c04FolDurable}

	receipt, err := l.Commit(context.Background(), p)

	zzsym.Observe("commit", zzsym.B2U(err != nil), zzsym.B2U(pre.ready), zzsym.B2U(p.Expected == a.ID), receipt.First)
	zzsym.Assert(err == nil || receipt == (Receipt{}), "failed Commit returned a non-zero receipt")
	// the summary of the property: an acknowledgement needs a ready, matching, unfenced authority
	zzsym.Assert(err != nil || (pre.ready && p.Expected == a.ID && !a.WriteFence.Set() && receipt.Authority == a.ID), "Commit acknowledged an append without a ready, matching, unfenced authority")
	switch {
	case !pre.ready:
		zzsym.Reach("commit: not ready")
		zzsym.Assert(err != nil && errors.Is(err, ch.ErrNotReady), "Commit before ready was not rejected with ErrNotReady")
		zzsym.Assert(env.portCalls() == 0 && c04Unchanged(pre, s), "Commit before ready reached a port or changed the state")
	case p.Expected != a.ID:
		zzsym.Reach("commit: stale expected authority")
		zzsym.Assert(err != nil && errors.Is(err, ch.ErrStaleMeta), "Commit with Expected != installed authority was not rejected with ErrStaleMeta")
		zzsym.Assert(env.dispatches() == 0 && env.storeWrites() == 0 && env.portCalls() == 0, "Commit with a stale authority reached the durability dispatcher or the store")
		zzsym.Assert(c04Unchanged(pre, s), "Commit with a stale authority changed the state")
		if c04Lex(p.Expected, a.ID) > 0 {
			zzsym.Reach("commit: expected authority newer than installed")
		}
	case a.WriteFence.Set():
		zzsym.Reach("commit: write fenced")
		zzsym.Assert(err != nil && errors.Is(err, ch.ErrWriteFenced), "Commit under an active write fence was not rejected with ErrWriteFenced")
		zzsym.Assert(env.portCalls() == 0 && c04Unchanged(pre, s), "Commit under an active write fence reached a port or changed the state")
	default:
		zzsym.Reach("commit: admitted")
		if err == nil {
			zzsym.Reach("commit: acknowledged")
		}
		if pre.pending == nil && !(pre.hasCmd1 && p.CommandID == c04Command(1)) && pre.frontier.LEO == 0 {
			// (the directly built frontier has no tail identity, so only LEO 0 can be sealed)
			zzsym.Assert(env.localSubmits == 1, "an admitted new command on the empty frontier was not submitted to the local store exactly once")
		}
	}
	// an unknown channel is never ready
	other := p
	other.Key = "1:other"
	before := env.portCalls()
	r2, err2 := l.Commit(context.Background(), other)
	zzsym.Assert(err2 != nil && errors.Is(err2, ch.ErrNotReady) && r2 == (Receipt{}) && env.portCalls() == before, "Commit on a channel that was never installed was not rejected with ErrNotReady")
}

// ---------------------------------------------------------------------------------------------
// (d) two steps through the real entry points: Install(A); Commit under A (completed or left
// pending); Install(B > A); Commit carrying Expected = A
// ---------------------------------------------------------------------------------------------

func Harness_C04_TwoStep() {
	env := &c04Env{}
	l := c04NewLog(env, 2)
	a := c04Authority("A", 2)
	zzsym.Assume(!a.WriteFence.Set())
	env.probeMode, env.loadMode = 1, 1
	_, err := l.Install(context.Background(), a)
	zzsym.Assert(err == nil, "Install(A) over the empty log failed")
	if err != nil {
		return
	}
	// first Commit under A: durable everywhere, or every response lost (written or not)
	switch zzsym.Choice("first.commit", 3) {
	case 0:
		env.localPlan, env.folPlan = []int{c04LocalHonest}, []int{c04FolDurable, c04FolDurable}
	case 1:
		env.localPlan, env.folPlan = []int{c04LocalLostWritten}, []int{c04FolUnknown, c04FolUnknown}
	default:
		env.localPlan, env.folPlan = []int{c04LocalLostUnwritten}, []int{c04FolUnknown, c04FolUnknown}
	}
	p1 := Proposal{Key: c04Key, Expected: a.ID, CommandID: c04Command(1), Records: []ch.Record{c04Record("r1", a.ID.ChannelEpoch)}}
	r1, err1 := l.Commit(context.Background(), p1)
	s := l.channels[c04Key]
	if err1 == nil {
		zzsym.Reach("two-step: first commit acknowledged")
		zzsym.Assert(r1.Authority == a.ID && r1.First == 1 && r1.Last == 1, "first Commit under A did not return range 1..1 under A")
	} else {
		zzsym.Reach("two-step: first commit left pending")
		zzsym.Assert(s.pending != nil, "ambiguous Commit is not pending")
	}
	env.localPlan, env.folPlan = nil, nil

	b := c04Authority("B", 1)
	b.Voters, b.WriteQuorum = a.Voters, a.WriteQuorum
	zzsym.Assume(c04Lex(b.ID, a.ID) > 0)
	c04AssumeBarrierCommandFresh(b)
	env.probeMode = 0                                                                       // the second recovery either has its probes refused or succeeds
	env.localPlan, env.folPlan = []int{c04LocalHonest}, []int{c04FolDurable, c04FolDurable} // a barrier round, if any, is durable
	_, errB := l.Install(context.Background(), b)
	env.localPlan, env.folPlan = nil, nil
	zzsym.Assert(s.authority.ID == b.ID && len(s.retained) == 0, "Install(B) did not replace the authority and drop A's retained commands")
	zzsym.Assert(s.pending == nil, "Install(B) kept A's pending proposal")
	if errB == nil {
		zzsym.Reach("two-step: B ready")
	} else {
		zzsym.Reach("two-step: B not ready")
		zzsym.Assert(!s.ready, "failed Install(B) left the channel ready")
	}

	// every Commit that still carries A is rejected: exact retry of p1 and a new command
	before := env.dispatches()
	lookups := env.lookups
	again, errAgain := l.Commit(context.Background(), p1)
	zzsym.Assert(errAgain != nil && again == (Receipt{}), "retry of A's command after Install(B) was acknowledged")
	zzsym.Assert(errors.Is(errAgain, ch.ErrStaleMeta) || errors.Is(errAgain, ch.ErrNotReady), "retry of A's command after Install(B) failed with an unexpected error class")
	zzsym.Assert(errB != nil || errors.Is(errAgain, ch.ErrStaleMeta), "Commit carrying A on a channel ready under B was not rejected with ErrStaleMeta")
	p2 := Proposal{Key: c04Key, Expected: a.ID, CommandID: c04Command(2), Records: []ch.Record{c04Record("r2", a.ID.ChannelEpoch)}}
	fresh, errFresh := l.Commit(context.Background(), p2)
	zzsym.Assert(errFresh != nil && fresh == (Receipt{}), "new command carrying A after Install(B) was acknowledged")
	zzsym.Assert(env.dispatches() == before && env.lookups == lookups && env.storeWrites() == 0, "Commit carrying the deposed authority reached the dispatcher or the store")
	zzsym.Observe("two-step", zzsym.B2U(err1 != nil), zzsym.B2U(errB != nil), uint64(env.dispatches()))

	// and B itself is usable exactly when it is ready and unfenced
	if errB == nil {
		p3 := Proposal{Key: c04Key, Expected: b.ID, CommandID: c04Command(3), Records: []ch.Record{c04Record("r3", b.ID.ChannelEpoch)}}
		env.localPlan, env.folPlan = []int{c04LocalHonest}, []int{c04FolDurable, c04FolDurable}
		r3, err3 := l.Commit(context.Background(), p3)
		zzsym.Assert(err3 == nil && r3.Authority == b.ID, "Commit under the ready authority B failed or was acknowledged under another authority")
		if err3 == nil {
			zzsym.Reach("two-step: commit under B acknowledged")
		}
	}
}
