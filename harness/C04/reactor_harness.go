package reactor

import (
	"context"
	"errors"

	"github.com/WuKongIM/WuKongIM/internal/zzsym"
	ch "github.com/WuKongIM/WuKongIM/pkg/channel"
	"github.com/WuKongIM/WuKongIM/pkg/channel/machine"
)

// Harness_C04_ReactorAppendAdmission: the reactor's append admission (validateAppendEvent, and
// handleAppend around it) on a loaded channel in an arbitrary state: an active write fence is
// answered with ErrWriteFenced after the deleted / leader / ready checks and before the epoch
// checks, a stale expected epoch with ErrStaleMeta, and a refused append leaves nothing queued.
func Harness_C04_ReactorAppendAdmission() {
	const key = ch.ChannelKey("1:c")
	st := machine.NewChannelState(key, 1, 1)
	st.ID = ch.ChannelID{ID: "c", Type: 1}
	st.Epoch = zzsym.U64("state.epoch")
	st.LeaderEpoch = zzsym.U64("state.leaderepoch")
	st.Leader = ch.NodeID(zzsym.U64("state.leader"))
	st.Role = ch.Role(zzsym.U8("state.role"))
	st.Status = ch.Status(zzsym.U8("state.status"))
	st.CommitReady = zzsym.Bool("state.commitready")
	if zzsym.Choice("state.fence.token", 2) == 1 {
		st.WriteFence.Token = "t"
	}
	st.WriteFence.Version = zzsym.U64("state.fence.version")
	st.WriteFence.Reason = ch.WriteFenceReason(zzsym.U8("state.fence.reason"))
	fenced := st.WriteFence.Token != "" && st.WriteFence.Version != 0

	rc := &runtimeChannel{state: st, waiters: make(map[ch.OpID]*Future)}
	r := &Reactor{channels: map[ch.ChannelKey]*runtimeChannel{key: rc}}
	future := NewFuture()
	event := Event{Kind: EventAppend, Key: key, Context: context.Background(), Future: future, OpID: 7}
	event.Append.ChannelID = st.ID
	event.Append.ExpectedChannelEpoch = zzsym.U64("expected.epoch")
	event.Append.ExpectedLeaderEpoch = zzsym.U64("expected.leaderepoch")

	err := r.validateAppendEvent(event.Context, rc, event)

	live := st.Status != ch.StatusDeleted && st.Status != ch.StatusDeleting
	serving := live && st.Role == ch.RoleLeader && st.CommitReady
	staleEpoch := (event.Append.ExpectedChannelEpoch != 0 && event.Append.ExpectedChannelEpoch != st.Epoch) ||
		(event.Append.ExpectedLeaderEpoch != 0 && event.Append.ExpectedLeaderEpoch != st.LeaderEpoch)
	zzsym.Observe("admission", zzsym.B2U(err != nil), zzsym.B2U(fenced), zzsym.B2U(serving), zzsym.B2U(staleEpoch))
	zzsym.Assert(!fenced || err != nil, "an append was admitted while the write fence is active")
	zzsym.Assert(!staleEpoch || err != nil, "an append carrying a stale expected epoch was admitted")
	zzsym.Assert(err != nil || serving, "an append was admitted on a channel that is not a ready leader")
	if serving && fenced {
		zzsym.Reach("reactor: fenced")
		zzsym.Assert(errors.Is(err, ch.ErrWriteFenced), "a ready leader with an active write fence did not answer ErrWriteFenced")
		if staleEpoch {
			zzsym.Reach("reactor: fenced and stale epoch")
		}
	}
	if serving && !fenced && staleEpoch {
		zzsym.Reach("reactor: stale epoch")
		zzsym.Assert(errors.Is(err, ch.ErrStaleMeta), "a stale expected epoch was not answered with ErrStaleMeta")
	}
	if !serving {
		zzsym.Assert(err != nil && !errors.Is(err, ch.ErrWriteFenced) && !errors.Is(err, ch.ErrStaleMeta), "the leader / ready checks do not come before the fence and epoch checks")
	}
	if err == nil {
		zzsym.Reach("reactor: admitted")
		return
	}
	// the whole handler: a refused append completes its future with the error and queues nothing
	r.handleAppend(event)
	zzsym.Reach("reactor: refused")
	zzsym.Assert(future.res.Err != nil, "refused append did not complete its future with an error")
	zzsym.Assert(!fenced || !serving || errors.Is(future.res.Err, ch.ErrWriteFenced), "handleAppend did not answer a fenced append with ErrWriteFenced")
	zzsym.Assert(len(rc.appendQ.pending) == 0 && rc.appendQ.records == 0 && len(rc.waiters) == 0 && len(rc.appendTimings) == 0 &&
		len(rc.appendCancelContexts) == 0 && rc.appendInflight == nil && len(st.PendingAppends) == 0 && st.InflightAppend == nil,
		"a refused append left something queued")
}
