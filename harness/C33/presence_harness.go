package presence

import (
	"errors"
	"time"

	"github.com/WuKongIM/WuKongIM/internal/zzsym"
)

// ---------------------------------------------------------------------------------------
// C33 — presence routing is fenced by slot authority.
//
// Bounded histories of Directory operations on the real directory (2 shards, hash slots 1 and
// 3 in the same shard). The harness keeps only what the property talks about: the authority
// target installed per hash slot, the highest unregister sequence per route identity within
// the current authority incarnation, and the pending tokens handed out. Everything else is
// observed on the real directory before and after each step: the lookups with the installed
// target, Snapshot(), and a white-box image of both slots (c33Image).
// ---------------------------------------------------------------------------------------

var c33HashSlots = [2]uint16{1, 3}

// connection identities (owner node, owner boot, session). lessIdentityKey orders by uid, then
// session, node, boot: conn 1 < conn 0 < conn 2 for the same uid.
type c33Conn struct{ node, boot, sess uint64 }

var c33Conns = [3]c33Conn{{2, 9, 5}, {1, 9, 5}, {1, 8, 6}}

const c33IDs = 6 // identity index = uid*3 + conn, uid 0 = "a", 1 = "b"

func c33UID(id int) string {
	if id >= 3 {
		return "b"
	}
	return "a"
}

func c33Identity(id int) RouteIdentity {
	c := c33Conns[id%3]
	return RouteIdentity{UID: c33UID(id), OwnerNodeID: c.node, OwnerBootID: c.boot, SessionID: c.sess}
}

func c33IDOf(r Route) int {
	u := 0
	switch r.UID {
	case "a":
	case "b":
		u = 3
	default:
		return -1
	}
	for i, c := range c33Conns {
		if r.OwnerNodeID == c.node && r.OwnerBootID == c.boot && r.SessionID == c.sess {
			return u + i
		}
	}
	return -1
}

// device profiles: (flag, level, device id). Master conflicts with every route of the same
// uid and flag, slave only with the same device, level 2 with nothing.
type c33Profile struct {
	flag, level uint8
	device      string
}

var c33Profiles = [5]c33Profile{{1, 1, "d1"}, {1, 0, "d2"}, {1, 0, "d1"}, {2, 1, "d1"}, {1, 2, "d1"}}

// c33Reach records a reachability witness; the labels an entry must reach are listed per entry
// in check.json ("witnesses") because the helpers are shared between entries.
func c33Reach(label string) { zzsym.Reach(label) }

// c33Second: a Unix second in [1, 2^30] built without an assumption.
func c33Second(name string) int64 { return int64(zzsym.U32(name)>>2) + 1 }

// activity second of a generated route: symbolic LastSeenUnix, no LastSeenUnix but a symbolic
// ConnectedUnix (the directory falls back to it), or a concrete LastSeenUnix (>= 0).
const (
	c33SymSeen      = int64(-1)
	c33SymConnected = int64(-2)
)

func c33Route(id, profile int, seen int64) Route {
	ident := c33Identity(id)
	p := c33Profiles[profile]
	r := Route{
		UID: ident.UID, OwnerNodeID: ident.OwnerNodeID, OwnerBootID: ident.OwnerBootID, SessionID: ident.SessionID,
		OwnerSeq: zzsym.U64("oseq"), DeviceID: p.device, DeviceFlag: p.flag, DeviceLevel: p.level, Listener: "l",
	}
	switch seen {
	case c33SymSeen:
		r.LastSeenUnix = c33Second("seen")
	case c33SymConnected:
		r.ConnectedUnix = c33Second("connected")
	default:
		r.LastSeenUnix = seen
	}
	return r
}

type c33Tok struct {
	slot  int
	token PendingRouteToken
	id    int
	seq   uint64
}

type c33State struct {
	d         *Directory
	nslots    int
	ids       []int // identity domain of this run
	nprof     int   // device profiles used by register/touch
	full      bool  // full alphabet (SingleOp)
	noStale   bool  // do not explore foreign-target variants of the operations
	zeroSeq   bool  // allow unregister sequence 0 (known finding C33-F1)
	local     uint64
	ops       []int // operations explored by step (nil: all)
	installed [2]bool
	target    [2]RouteTarget
	hasTomb   [2][c33IDs]bool
	tomb      [2][c33IDs]uint64
	tokens    []c33Tok
	ended     bool // a fenced operation was checked: the state is unchanged, the path ends
}

// ---------------------------------------------------------------- observation

type c33IDImage struct {
	active       bool
	route        Route
	hasOwnerSeq  bool
	ownerSeq     uint64
	hasTombstone bool
	tombstone    uint64
	scheduled    bool
	bucketSeen   int64
}

type c33SlotImage struct {
	exists                                      bool
	target                                      RouteTarget
	nextID                                      uint64
	nActive, nByUID, nPending, nOwnerSeq, nTomb int
	nHeap, nBySeen, nByKey                      int
	ids                                         [c33IDs]c33IDImage
	pendingKnown                                [4]bool
	pendingRoute                                [4]Route
}

type c33Image struct {
	slots          [2]c33SlotImage
	touchTotal     uint64
	expiredTotal   uint64
	snapActive     int
	snapSlot       [2]int
	snapIdxRoutes  int
	snapIdxBuckets int
}

func c33Key(id int) identityKey { return makeIdentityKey(c33Identity(id)) }

// image reads the complete state of both hash slots (white box) plus Snapshot().
func (s *c33State) image() c33Image {
	var im c33Image
	for i := 0; i < 2; i++ {
		hs := c33HashSlots[i]
		sl := s.d.shard(hs).slots[hs]
		if sl == nil {
			continue
		}
		si := &im.slots[i]
		si.exists, si.target, si.nextID = true, sl.target, sl.nextID
		si.nActive, si.nByUID, si.nPending = len(sl.active), len(sl.byUID), len(sl.pending)
		si.nOwnerSeq, si.nTomb = len(sl.ownerSeq), len(sl.tombstoneSeq)
		si.nHeap, si.nBySeen, si.nByKey = len(sl.expiryHeap), len(sl.expiryBySeen), len(sl.expiryByKey)
		for id := 0; id < c33IDs; id++ {
			k := c33Key(id)
			ii := &si.ids[id]
			ii.route, ii.active = sl.active[k]
			ii.ownerSeq, ii.hasOwnerSeq = sl.ownerSeq[k]
			ii.tombstone, ii.hasTombstone = sl.tombstoneSeq[k]
			if b := sl.expiryByKey[k]; b != nil {
				ii.scheduled, ii.bucketSeen = true, b.seenUnix
			}
		}
		n := 0
		for _, t := range s.tokens {
			if t.slot == i && n < len(si.pendingKnown) {
				p, ok := sl.pending[t.token]
				si.pendingKnown[n], si.pendingRoute[n] = ok, p.route
				n++
			}
		}
	}
	im.touchTotal, im.expiredTotal = s.d.touchRoutesTotal.Load(), s.d.expiredRoutesTotal.Load()
	snap := s.d.Snapshot()
	im.snapActive, im.snapIdxRoutes, im.snapIdxBuckets = snap.Active, snap.ExpiryIndexRoutes, snap.ExpiryIndexBuckets
	im.snapSlot[0], im.snapSlot[1] = snap.ByHashSlot[c33HashSlots[0]], snap.ByHashSlot[c33HashSlots[1]]
	zzsym.Assert(snap.TouchRoutesTotal == im.touchTotal && snap.ExpiredRoutesTotal == im.expiredTotal, "Snapshot counters differ from the directory counters")
	return im
}

// c33View is what the lookups with the installed target show for one hash slot.
type c33View struct {
	visible [c33IDs]bool
	route   [c33IDs]Route
}

var c33UIDs = []string{"a", "b"}

// view looks both uids up with the installed target and checks the lookup contract: no fencing
// error for the installed target, per uid the routes strictly ascending by lessIdentityKey, uids
// in input order, EndpointsByUID/EndpointsByUIDs/EndpointsByTargets agree, the result is exactly
// the slot's active set, and no visible route is at or below its unregister sequence.
func (s *c33State) view(i int) c33View {
	var v c33View
	hs := c33HashSlots[i]
	if !s.installed[i] {
		probe := RouteTarget{HashSlot: hs}
		_, err := s.d.EndpointsByUIDs(probe, c33UIDs)
		zzsym.Assert(errors.Is(err, ErrNotLeader), "lookup on a hash slot without authority did not return the fencing error")
		zzsym.Assert(s.d.shard(hs).slots[hs] == nil, "authority state kept for a hash slot without authority")
		return v
	}
	t := s.target[i]
	all, err := s.d.EndpointsByUIDs(t, c33UIDs)
	zzsym.Assert(err == nil, "lookup with the installed target was fenced")
	if err != nil {
		return v
	}
	grouped := s.d.EndpointsByTargets([]EndpointLookupGroup{{Target: t, UIDs: c33UIDs}})
	zzsym.Assert(len(grouped) == 1 && grouped[0].Err == nil && len(grouped[0].Routes) == len(all), "EndpointsByTargets disagrees with EndpointsByUIDs")
	pos := 0
	for _, uid := range c33UIDs {
		one, err := s.d.EndpointsByUID(t, uid)
		zzsym.Assert(err == nil, "EndpointsByUID with the installed target was fenced")
		for j := range one {
			zzsym.Assert(one[j].UID == uid, "lookup returned a route of another uid")
			if j > 0 {
				zzsym.Assert(lessIdentityKey(makeRouteIdentityKey(one[j-1]), makeRouteIdentityKey(one[j])), "lookup result not strictly ascending by lessIdentityKey")
			}
			ok := pos < len(all) && all[pos] == one[j]
			zzsym.Assert(ok, "EndpointsByUIDs is not the concatenation of the per-uid lookups in input order")
			if len(grouped) == 1 && pos < len(grouped[0].Routes) {
				zzsym.Assert(grouped[0].Routes[pos] == one[j], "EndpointsByTargets returned a different route or order")
			}
			pos++
			id := c33IDOf(one[j])
			zzsym.Assert(id >= 0 && !v.visible[id], "lookup returned an unknown or duplicate identity")
			if id < 0 {
				continue
			}
			v.visible[id], v.route[id] = true, one[j]
			if s.hasTomb[i][id] {
				// C33-F1: UnregisterRoute with owner sequence 0 installs no fence (see check.json)
				zzsym.AssertKnown(one[j].OwnerSeq > s.tomb[i][id], "a route at or below its unregister sequence is visible", "C33-F1", s.tomb[i][id] == 0)
			}
		}
	}
	zzsym.Assert(pos == len(all), "EndpointsByUIDs returned extra routes")
	// the lookups show exactly the slot's active set
	sl := s.d.shard(hs).slots[hs]
	n := 0
	for id := 0; id < c33IDs; id++ {
		r, ok := sl.active[c33Key(id)]
		zzsym.Assert(ok == v.visible[id], "lookup result differs from the slot's active set")
		if ok && v.visible[id] {
			zzsym.Assert(r == v.route[id], "lookup returned a route that differs from the active one")
			n++
		}
	}
	zzsym.Assert(n == len(sl.active), "active route outside the identity domain")
	return v
}

func (s *c33State) views() [2]c33View {
	return [2]c33View{s.view(0), s.view(1)}
}

// ---------------------------------------------------------------- targets

func c33FreshTarget(i int) RouteTarget {
	return RouteTarget{
		HashSlot: c33HashSlots[i], SlotID: zzsym.U32("t.slotid"), LeaderNodeID: zzsym.U64("t.leader"),
		LeaderTerm: zzsym.U64("t.term"), ConfigEpoch: zzsym.U64("t.epoch"),
		RouteRevision: zzsym.U64("t.rev"), AuthorityEpoch: zzsym.U64("t.aepoch"),
	}
}

func c33SameAuthority(a, b RouteTarget) bool {
	return a.HashSlot == b.HashSlot && a.SlotID == b.SlotID && a.LeaderNodeID == b.LeaderNodeID &&
		a.LeaderTerm == b.LeaderTerm && a.ConfigEpoch == b.ConfigEpoch
}

// current: the installed authority as another caller may have observed it: same authority
// identity, arbitrary routing-table revision and local observation epoch.
func (s *c33State) current(i int) RouteTarget {
	t := s.target[i]
	t.RouteRevision, t.AuthorityEpoch = zzsym.U64("t.rev"), zzsym.U64("t.aepoch")
	return t
}

// stale: any target for hash slot i whose authority identity differs from the installed one
// (any target at all if nothing is installed), or a target for a hash slot never installed.
func (s *c33State) stale(i int) RouteTarget {
	t := c33FreshTarget(i)
	if s.full && zzsym.Choice("stale.slot", 2) == 1 {
		t.HashSlot = 5
		return t
	}
	if s.installed[i] {
		zzsym.Assume(!c33SameAuthority(t, s.target[i]))
	}
	return t
}

// pickTarget: (target, fenced).
func (s *c33State) pickTarget(i int) (RouteTarget, bool) {
	if !s.installed[i] || (!s.noStale && zzsym.Choice("stale", 2) == 1) {
		return s.stale(i), true
	}
	return s.current(i), false
}

// fenced checks the first clause: the fencing error and no change at all.
func (s *c33State) fenced(err error, before c33Image) {
	c33Reach("fenced")
	zzsym.Assert(errors.Is(err, ErrNotLeader), "operation with a foreign authority target did not return the fencing error")
	zzsym.Assert(s.image() == before, "operation with a foreign authority target changed the directory")
	s.ended = true
}

func (s *c33State) pickSlot() int {
	if s.nslots == 1 {
		return 0
	}
	return zzsym.Choice("slot", s.nslots)
}

func (s *c33State) pickID() int { return s.ids[zzsym.Choice("id", len(s.ids))] }

// ---------------------------------------------------------------- operations

func (s *c33State) opBecome() { s.become(s.pickSlot()) }

func (s *c33State) become(i int) {
	t := c33FreshTarget(i)
	if s.local != 0 {
		// with LocalNodeID set only an authority naming the local node is usable at all
		t.LeaderNodeID = s.local
	}
	before := s.image()
	s.d.BecomeAuthority(t)
	after := s.image()
	if s.installed[i] && c33SameAuthority(t, s.target[i]) {
		c33Reach("become-same-authority")
		// same authority identity: only the observed revision may move, and only forward
		want := before
		if t.RouteRevision >= s.target[i].RouteRevision {
			s.target[i] = t
			want.slots[i].target = t
		}
		zzsym.Assert(after == want, "re-announcing the installed authority changed routes")
		return
	}
	c33Reach("become-new-authority")
	s.installed[i], s.target[i] = true, t
	s.dropSlot(i)
	fresh := c33SlotImage{exists: true, target: t}
	zzsym.Assert(after.slots[i] == fresh, "a new authority identity did not start from an empty slot")
	zzsym.Assert(after.slots[1-i] == before.slots[1-i], "BecomeAuthority touched another hash slot")
}

func (s *c33State) dropSlot(i int) {
	s.hasTomb[i], s.tomb[i] = [c33IDs]bool{}, [c33IDs]uint64{}
	var keep []c33Tok
	for _, t := range s.tokens {
		if t.slot != i {
			keep = append(keep, t)
		}
	}
	s.tokens = keep
}

func (s *c33State) opLose() {
	i := s.pickSlot()
	before := s.image()
	s.d.LoseAuthority(c33HashSlots[i])
	s.installed[i] = false
	s.dropSlot(i)
	after := s.image()
	c33Reach("lose")
	zzsym.Assert(!after.slots[i].exists, "LoseAuthority left authority state behind")
	zzsym.Assert(after.slots[1-i] == before.slots[1-i], "LoseAuthority touched another hash slot")
}

func (s *c33State) opRegister() {
	i := s.pickSlot()
	t, fenced := s.pickTarget(i)
	id, prof := s.ids[0], 0
	if !fenced {
		id, prof = s.pickID(), zzsym.Choice("profile", s.nprof)
	}
	s.register(i, t, fenced, id, prof, s.stepSeen())
}

// stepSeen: generated routes carry a symbolic activity second; with the full alphabet also
// only a connect second.
func (s *c33State) stepSeen() int64 {
	if s.full && zzsym.Choice("zeroseen", 2) == 1 {
		return c33SymConnected
	}
	return c33SymSeen
}

// imageIf takes the white-box image only where it is compared (fenced operations).
func (s *c33State) imageIf(need bool) c33Image {
	if need {
		return s.image()
	}
	return c33Image{}
}

func (s *c33State) register(i int, t RouteTarget, fenced bool, id, prof int, seen int64) {
	route := c33Route(id, prof, seen)
	before, vb := s.imageIf(fenced), s.view(i)
	res, err := s.d.RegisterRoute(t, route)
	if fenced {
		zzsym.Assert(res.PendingToken == "" && len(res.Actions) == 0, "fenced RegisterRoute returned work")
		s.fenced(err, before)
		return
	}
	zzsym.Assert(!errors.Is(err, ErrNotLeader), "RegisterRoute with the installed target was fenced")
	va := s.view(i)
	switch {
	case err != nil:
		c33Reach("register-stale")
		zzsym.Assert(errors.Is(err, ErrStaleRoute), "RegisterRoute failed with an unexpected error")
		zzsym.Assert(va == vb, "a rejected register changed the visible routes")
	case res.PendingToken != "":
		c33Reach("register-pending")
		zzsym.Assert(len(res.Actions) > 0, "pending register without owner actions")
		zzsym.Assert(va == vb, "a pending register changed the visible routes")
		for _, k := range s.tokens {
			zzsym.Assert(k.slot != i || k.token != res.PendingToken, "pending token reused")
		}
		s.tokens = append(s.tokens, c33Tok{slot: i, token: res.PendingToken, id: id, seq: route.OwnerSeq})
	default:
		c33Reach("register-active")
		zzsym.Assert(va.visible[id] && va.route[id].OwnerSeq == route.OwnerSeq, "an accepted register is not visible")
	}
	zzsym.Observe("register", zzsym.B2U(err != nil), zzsym.B2U(res.PendingToken != ""), uint64(len(res.Actions)))
}

// pickToken: a pending token handed out for slot i, or one that never was.
func (s *c33State) pickToken(i int) c33Tok {
	var mine []c33Tok
	for _, t := range s.tokens {
		if t.slot == i {
			mine = append(mine, t)
		}
	}
	c := zzsym.Choice("token", len(mine)+1)
	if c == len(mine) {
		return c33Tok{slot: i, token: PendingRouteToken("nope"), id: -1}
	}
	return mine[c]
}

func (s *c33State) opCommit() {
	i := s.pickSlot()
	t, fenced := s.pickTarget(i)
	tok := s.pickToken(i)
	before, vb := s.imageIf(fenced), s.view(i)
	err := s.d.CommitRoute(t, tok.token)
	if fenced {
		s.fenced(err, before)
		return
	}
	zzsym.Assert(!errors.Is(err, ErrNotLeader), "CommitRoute with the installed target was fenced")
	va := s.view(i)
	if err != nil {
		c33Reach("commit-rejected")
		zzsym.Assert(errors.Is(err, ErrStaleRoute) || errors.Is(err, ErrRouteNotReady), "CommitRoute failed with an unexpected error")
		zzsym.Assert(va == vb, "a rejected commit changed the visible routes")
		return
	}
	c33Reach("commit")
	zzsym.Assert(tok.id >= 0, "a token that was never handed out was committed")
	if tok.id >= 0 {
		zzsym.Assert(va.visible[tok.id] && va.route[tok.id].OwnerSeq == tok.seq, "the committed route is not visible")
	}
}

func (s *c33State) opAbort() {
	i := s.pickSlot()
	t, fenced := s.pickTarget(i)
	tok := s.pickToken(i)
	before, vb := s.imageIf(fenced), s.view(i)
	err := s.d.AbortRoute(t, tok.token)
	if fenced {
		s.fenced(err, before)
		return
	}
	c33Reach("abort")
	zzsym.Assert(err == nil || errors.Is(err, ErrRouteNotReady), "AbortRoute failed with an unexpected error")
	zzsym.Assert(s.view(i) == vb, "AbortRoute changed the visible routes")
}

func (s *c33State) opUnregister() {
	i := s.pickSlot()
	t, fenced := s.pickTarget(i)
	id := s.ids[0]
	if !fenced {
		id = s.pickID()
	}
	s.unregister(i, t, fenced, id)
}

func (s *c33State) unregister(i int, t RouteTarget, fenced bool, id int) {
	seq := zzsym.U64("unreg.seq")
	if !s.zeroSeq {
		// sequence 0 is the known finding C33-F1, examined by Harness_C33_UnregisterZero
		zzsym.Assume(seq >= 1)
	}
	before, vb := s.imageIf(fenced), s.view(i)
	err := s.d.UnregisterRoute(t, c33Identity(id), seq)
	if fenced {
		s.fenced(err, before)
		return
	}
	zzsym.Assert(err == nil, "UnregisterRoute with the installed target failed")
	if !s.hasTomb[i][id] || seq > s.tomb[i][id] {
		s.hasTomb[i][id], s.tomb[i][id] = true, seq
	}
	va := s.view(i) // checks: not visible at or below the unregister sequence
	for o := 0; o < c33IDs; o++ {
		if o != id {
			zzsym.Assert(va.visible[o] == vb.visible[o] && va.route[o] == vb.route[o], "UnregisterRoute changed another identity")
		}
	}
	if vb.visible[id] && !va.visible[id] {
		c33Reach("unregister-removed")
	}
	if vb.visible[id] && va.visible[id] {
		c33Reach("unregister-older-than-route")
		zzsym.Assert(va.route[id] == vb.route[id], "an older unregister altered the newer route")
	}
}

func (s *c33State) opTouch() {
	i := s.pickSlot()
	t, fenced := s.pickTarget(i)
	var routes []Route
	switch {
	case fenced:
		routes = []Route{c33Route(s.ids[0], 0, c33SymSeen)}
	case !s.full:
		routes = []Route{c33Route(s.pickID(), zzsym.Choice("profile", s.nprof), c33SymSeen)}
	default:
		// 0, 1 or 2 routes; a pair touches the same identity twice or two identities of one uid
		n := zzsym.Choice("touch.n", 3)
		if n > 0 {
			id := s.pickID()
			routes = append(routes, c33Route(id, zzsym.Choice("profile", 2), s.stepSeen()))
			if n > 1 {
				second := id
				if zzsym.Choice("touch.second", 2) == 1 {
					second = id/3*3 + (id+1)%3
				}
				routes = append(routes, c33Route(second, 1, c33SymSeen))
			}
		}
	}
	s.touch(i, t, fenced, routes)
}

// opTouchCurrent touches one route with the installed target.
func (s *c33State) opTouchCurrent(i, id, prof int) {
	s.touch(i, s.current(i), false, []Route{c33Route(id, prof, c33SymSeen)})
}

func (s *c33State) touch(i int, t RouteTarget, fenced bool, routes []Route) {
	n := len(routes)
	before, vb := s.imageIf(fenced), s.view(i)
	touched := s.d.touchRoutesTotal.Load()
	err := s.d.TouchRoutes(t, routes)
	if fenced {
		s.fenced(err, before)
		return
	}
	c33Reach("touch")
	zzsym.Assert(err == nil, "TouchRoutes with the installed target failed")
	va := s.view(i) // checks: nothing at or below its unregister sequence became visible
	zzsym.Assert(s.d.Snapshot().TouchRoutesTotal == touched+uint64(n), "TouchRoutesTotal not advanced by the number of touched entries")
	for id := 0; id < c33IDs; id++ {
		if vb.visible[id] {
			zzsym.Assert(va.visible[id], "TouchRoutes removed a visible route")
			if va.visible[id] {
				zzsym.Assert(va.route[id].LastSeenUnix >= vb.route[id].LastSeenUnix, "TouchRoutes moved a route's last activity backwards")
			}
		} else if va.visible[id] {
			c33Reach("touch-recreated")
		}
	}
}

// expiry passes: (ttl, clock). The clock is time.Unix(symbolic second, nsec) or the zero Time.
type c33Pass struct {
	ttl      time.Duration
	nsec     int64
	zeroTime bool
}

var c33Passes = [...]c33Pass{
	{ttl: 2 * time.Second}, {ttl: 2 * time.Second, nsec: 500000000},
	{ttl: 1500 * time.Millisecond}, {ttl: 1500 * time.Millisecond, nsec: 500000000},
	{ttl: 0}, {ttl: -time.Second}, {ttl: 2 * time.Second, zeroTime: true},
}

func (s *c33State) opExpire() {
	p := c33Passes[0]
	if s.full {
		p = c33Passes[zzsym.Choice("pass", len(c33Passes))]
	}
	s.expire(p)
}

func (s *c33State) expire(p c33Pass) {
	ttl := p.ttl
	var now time.Time
	if !p.zeroTime {
		now = time.Unix(c33Second("now"), p.nsec)
	}
	expiredBefore := s.d.expiredRoutesTotal.Load()
	vb := s.views()
	res := s.d.ExpireRoutesDetailed(now, ttl)
	va := s.views()
	removed := 0
	for i := 0; i < 2; i++ {
		for id := 0; id < c33IDs; id++ {
			if !vb[i].visible[id] {
				zzsym.Assert(!va[i].visible[id], "expiry made a route visible")
				continue
			}
			seen := vb[i].route[id].LastSeenUnix
			due := ttl > 0 && !now.IsZero() && seen != 0 && time.Unix(seen, 0).Add(ttl).Before(now)
			if due {
				c33Reach("expire-removed")
				removed++
				zzsym.Assert(!va[i].visible[id], "a route idle for longer than the ttl survived expiry")
			} else {
				c33Reach("expire-kept")
				zzsym.Assert(va[i].visible[id] && va[i].route[id] == vb[i].route[id], "expiry removed or altered a route that is not idle for longer than the ttl")
			}
		}
	}
	zzsym.Assert(res.Expired == removed, "ExpireResult.Expired differs from the number of routes removed")
	zzsym.Assert(s.d.Snapshot().ExpiredRoutesTotal == expiredBefore+uint64(removed), "ExpiredRoutesTotal not advanced by the number of routes removed")
	zzsym.Observe("expire", uint64(res.Expired), uint64(res.DueBuckets), uint64(res.Examined))
}

func (s *c33State) opLookupFenced() {
	i := s.pickSlot()
	t := s.stale(i)
	before := s.image()
	var err error
	var got []Route
	switch zzsym.Choice("lookup", 3) {
	case 0:
		got, err = s.d.EndpointsByUID(t, "a")
	case 1:
		got, err = s.d.EndpointsByUIDs(t, c33UIDs)
	default:
		r := s.d.EndpointsByTargets([]EndpointLookupGroup{{Target: t, UIDs: c33UIDs}})
		zzsym.Assert(len(r) == 1, "EndpointsByTargets result not aligned")
		got, err = r[0].Routes, r[0].Err
	}
	zzsym.Assert(len(got) == 0, "fenced lookup returned routes")
	s.fenced(err, before)
}

// checkAll: the lookup contract and the unregister fence hold on both slots.
func (s *c33State) checkAll() {
	s.views()
}

// operation codes
const (
	c33OpRegister = iota
	c33OpUnregister
	c33OpTouch
	c33OpCommit
	c33OpAbort
	c33OpExpire
	c33OpBecome
	c33OpLose
	c33OpLookupFenced
	c33NumOps
)

// step runs one operation chosen among s.ops (all operations if nil).
func (s *c33State) step() {
	if s.ended {
		return
	}
	op := 0
	if s.ops == nil {
		op = zzsym.Choice("op", c33NumOps)
	} else {
		op = s.ops[zzsym.Choice("op", len(s.ops))]
	}
	switch op {
	case c33OpRegister:
		s.opRegister()
	case c33OpUnregister:
		s.opUnregister()
	case c33OpTouch:
		s.opTouch()
	case c33OpCommit:
		s.opCommit()
	case c33OpAbort:
		s.opAbort()
	case c33OpExpire:
		s.opExpire()
	case c33OpBecome:
		s.opBecome()
	case c33OpLose:
		s.opLose()
	default:
		s.opLookupFenced()
	}
	if !s.ended {
		s.checkAll()
	}
}

func c33New(nslots int, ids []int, nprof int, localNode uint64) *c33State {
	return &c33State{d: NewDirectory(DirectoryOptions{ShardCount: 2, LocalNodeID: localNode}), nslots: nslots, ids: ids, nprof: nprof, local: localNode}
}

func c33Depth(quick, thorough int) int {
	if zzsym.Thorough() {
		return thorough
	}
	return quick
}

var (
	c33Trio = []int{0, 1, 3}          // (a,conn0) (a,conn1) (b,conn0)
	c33Six  = []int{0, 1, 2, 3, 4, 5} // both uids, three connections each
)

// Harness_C33_History: authority on hash slot 1, then every history of k operations.
func Harness_C33_History() {
	s := c33New(1, c33Trio, 2, 0)
	s.become(0)
	for i, k := 0, c33Depth(2, 3); i < k; i++ {
		s.step()
	}
	s.checkAll()
}

// seedConflict builds with the real operations: authority on slot i, (a,conn0) active as master
// device, (a,conn1) registered as master of the same device class and therefore pending behind
// it, (b,conn0) active. Activity seconds are concrete here (expiry is examined elsewhere).
func (s *c33State) seedConflict(i int) {
	s.become(i)
	s.register(i, s.current(i), false, 0, 0, 100)
	s.register(i, s.current(i), false, 1, 0, 200)
	s.register(i, s.current(i), false, 3, 1, 100)
	zzsym.Assume(len(s.tokens) > 0)
	s.checkAll()
}

// Harness_C33_Conflict: histories of k operations from the state with a pending conflict
// candidate (commit / abort / unregister of pending and acknowledged routes).
func Harness_C33_Conflict() {
	s := c33New(1, c33Trio, 2, 0)
	s.seedConflict(0)
	s.noStale = true
	s.ids = []int{0, 1}
	s.ops = []int{c33OpRegister, c33OpUnregister, c33OpTouch, c33OpCommit, c33OpAbort}
	if zzsym.Thorough() {
		s.ids = c33Trio
	}
	for i, k := 0, c33Depth(2, 3); i < k; i++ {
		s.step()
	}
	s.checkAll()
}

// Harness_C33_Unregistered: (a,conn0) registered and then explicitly unregistered at a symbolic
// sequence (above, at or below the route's), then k operations: whatever register / touch /
// commit does afterwards, the identity is never visible at or below the unregister sequence.
func Harness_C33_Unregistered() {
	s := c33New(1, []int{0, 1}, 2, 0)
	s.noStale = true
	s.become(0)
	s.register(0, s.current(0), false, 0, 0, 100)
	s.unregister(0, s.current(0), false, 0)
	s.ops = []int{c33OpRegister, c33OpUnregister, c33OpTouch, c33OpCommit}
	for i, k := 0, c33Depth(2, 3); i < k; i++ {
		s.step()
	}
	s.checkAll()
}

// Harness_C33_UnregisterZero: the same fence for unregister sequences including 0. Sequence 0
// installs no tombstone (known finding C33-F1): the obligation is an AssertKnown whose pattern
// is "unregister sequence == 0"; any other sequence is a hard failure.
func Harness_C33_UnregisterZero() {
	s := c33New(1, []int{0}, 1, 0)
	s.noStale, s.zeroSeq = true, true
	s.become(0)
	s.unregister(0, s.current(0), false, 0)
	if zzsym.Choice("how", 2) == 0 {
		s.register(0, s.current(0), false, 0, 0, 100)
	} else {
		s.touch(0, s.current(0), false, []Route{c33Route(0, 0, 100)})
	}
	s.checkAll()
}

// Harness_C33_TwoSlots: both hash slots (same shard) with their own authorities: operations on
// one slot, including authority changes and fenced calls, never affect the other.
func Harness_C33_TwoSlots() {
	s := c33New(2, []int{0}, 1, 0)
	s.become(0)
	s.become(1)
	s.register(0, s.current(0), false, 0, 0, 100)
	s.register(1, s.current(1), false, 0, 0, 100)
	s.ids = []int{0} // the seed put identity 0 on both slots; uid b is left to the other entries
	for i, k := 0, c33Depth(2, 3); i < k; i++ {
		s.step()
	}
	s.checkAll()
}

// Harness_C33_SingleOp: one operation of the full alphabet (targets for a hash slot that never
// had authority, 0..2 touched routes, routes without an activity second, fractional and
// non-positive TTLs, sub-second and zero clock values, all five device profiles, all six
// identities) on the conflict state of slot 1 plus a second authority on slot 3; LocalNodeID is
// set, so a target naming another leader node is fenced as well.
func Harness_C33_SingleOp() {
	s := c33New(2, c33Six, 5, 7)
	s.seedConflict(0)
	s.become(1)
	s.register(1, s.current(1), false, 2, 1, 300)
	s.full = true
	s.step()
	s.checkAll()
}

// Harness_C33_Expire: routes with symbolic activity seconds (equal seconds share a bucket; one
// route has only a connect second), on two hash slots, optionally refreshed by a touch, then one
// expiry pass (ttl 2 s / 1.5 s / 0 / negative, clock at a symbolic second + 0 or 0.5 s, or the
// zero Time): exactly the routes idle for longer than the ttl disappear.
func Harness_C33_Expire() {
	s := c33New(2, c33Six, 5, 0)
	s.noStale = true
	s.become(0)
	s.become(1)
	// profile 4 (unknown level) never conflicts: every connection of uid a becomes active
	s.register(0, s.current(0), false, 0, 4, c33SymSeen)
	s.register(0, s.current(0), false, 1, 4, c33SymConnected)
	s.register(1, s.current(1), false, 3, 0, c33SymSeen)
	switch zzsym.Choice("variant", 3) {
	case 0:
		s.full = true // any pass
	case 1:
		// a touch moves the route to another bucket (or not, if it carries an older second)
		s.opTouchCurrent(0, 0, 4)
		s.full = zzsym.Thorough()
	default:
		// three buckets (or fewer, when seconds coincide) in one heap
		s.register(0, s.current(0), false, 2, 4, c33SymSeen)
	}
	s.opExpire()
	s.checkAll()
}

// Harness_C33_ExpireTwice: two expiry passes with a registration (or a touch) in between whose
// activity second is symbolic - in particular EQUAL to a second whose bucket the first pass already
// expired (an idle connection replayed with its unchanged last-activity second): after the second
// pass, again, exactly the routes idle for longer than the ttl have disappeared.
func Harness_C33_ExpireTwice() {
	s := c33New(1, c33Six, 5, 0)
	s.noStale = true
	s.become(0)
	s.register(0, s.current(0), false, 0, 4, c33SymSeen)
	s.register(0, s.current(0), false, 1, 4, c33SymSeen)
	s.opExpire()
	c33Reach("expire-first-pass")
	switch zzsym.Choice("between", 3) {
	case 0:
		s.register(0, s.current(0), false, 2, 4, c33SymSeen)
	case 1:
		// the same connection again (replayed), possibly after it was expired
		s.register(0, s.current(0), false, 0, 4, c33SymSeen)
	default:
		s.opTouchCurrent(0, 1, 4)
	}
	s.full = zzsym.Thorough()
	s.opExpire()
	c33Reach("expire-second-pass")
	s.checkAll()
}

// Harness_C33_LookupOrder: the three connections of uid a and two of uid b are registered in
// every order (insertion order is what map iteration follows in the executor); the lookups return
// the same, lessIdentityKey-ascending sequence each time: conn1, conn0, conn2.
func Harness_C33_LookupOrder() {
	s := c33New(1, c33Six, 5, 0)
	s.become(0)
	perms := [6][3]int{{0, 1, 2}, {0, 2, 1}, {1, 0, 2}, {1, 2, 0}, {2, 0, 1}, {2, 1, 0}}
	p := perms[zzsym.Choice("perm", 6)]
	bFirst := zzsym.Choice("b.order", 2)
	s.register(0, s.current(0), false, 3+bFirst, 4, 100)
	for _, c := range p {
		s.register(0, s.current(0), false, c, 4, 100+int64(c))
	}
	s.register(0, s.current(0), false, 4-bFirst, 4, 100)
	v := s.view(0) // sortedness, agreement of the three lookups, exactly the active set
	for id := 0; id < 5; id++ {
		zzsym.Assert(v.visible[id], "a registered non-conflicting route is not visible")
	}
	got, err := s.d.EndpointsByUIDs(s.target[0], []string{"b", "a"})
	c33Reach("lookup-order")
	zzsym.Assert(err == nil && len(got) == 5, "EndpointsByUIDs(b,a) failed")
	want := [5]int{4, 3, 1, 0, 2} // uid input order, then session, node, boot
	for j := 0; j < 5 && j < len(got); j++ {
		zzsym.Assert(c33IDOf(got[j]) == want[j], "lookup order depends on something other than the route identities")
	}
}
