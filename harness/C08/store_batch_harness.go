package message

import (
	"context"
	"errors"

	"github.com/WuKongIM/WuKongIM/internal/zzsym"
	"github.com/WuKongIM/WuKongIM/pkg/db/internal/dberrors"
)

// Multi-record append batches whose records have (sender, client number) keys of DIFFERENT lengths:
// validateAppendRow reuses one scratch key buffer across the records of a batch, so a record after a
// longer key exercises the re-slicing of that buffer for the filter probe and the durable point read.

var (
	c08BatchSenders   = [3]string{"a", "b", "ccc"}
	c08BatchClientNos = [2]string{"x", "yy"}
)

func c08StoreBatchConflicts() {
	s, m := c07FreshStore()
	c07Seed(s, m) // rows 1..3 = (a,x) (b,x) (a,y), HW = 2
	n := c07Ops(2, 3)
	mode := AppendStrict
	if zzsym.Choice("mode", 2) == 1 {
		mode = AppendServerAllocatedMessageID
	}
	recs := make([]c07Rec, n)
	records := make([]Record, n)
	conflict := false
	for i := 0; i < n; i++ {
		p := "r" + string(rune('0'+i))
		m.nextID++
		m.nextTS++
		recs[i] = c07Rec{id: m.nextID, uid: c08BatchSenders[zzsym.Choice(p+".uid", 3)], cno: c08BatchClientNos[zzsym.Choice(p+".cno", 2)], payload: byte(m.nextID), ts: m.nextTS}
		records[i] = c07ToRecord(recs[i])
		m.ids = append(m.ids, recs[i].id)
		if _, held := m.pairHolder(recs[i].uid, recs[i].cno); held {
			conflict = true
		}
		for j := 0; j < i; j++ {
			if recs[j].uid == recs[i].uid && recs[j].cno == recs[i].cno {
				conflict = true
			}
		}
	}
	res, err := s.log.Append(context.Background(), records, AppendOptions{Mode: mode})
	if conflict {
		zzsym.Reach("store-batch-conflict")
		zzsym.Assert(err != nil && errors.Is(err, dberrors.ErrConflict), "store: a batch holding a stored or repeated (sender, client number) is not refused with ErrConflict")
	} else {
		zzsym.Reach("store-batch-accept")
		zzsym.Assert(err == nil && res.BaseSeq == m.leo+1 && res.Count == n, "store: a batch of fresh (sender, client number) pairs is refused or gets the wrong sequences")
		for i := range recs {
			m.leo++
			recs[i].seq = m.leo
			m.rows = append(m.rows, recs[i])
		}
	}
	c07CheckAgainst(s, m)
	// every accepted pair is held afterwards: offering it again alone is refused, before and after reopen
	for round := 0; round < 2; round++ {
		for i := range recs {
			if _, held := m.pairHolder(recs[i].uid, recs[i].cno); !held {
				continue
			}
			m.nextID++
			m.ids = append(m.ids, m.nextID)
			_, err := s.log.Append(context.Background(), []Record{{ID: m.nextID, FromUID: recs[i].uid, ClientMsgNo: recs[i].cno, Payload: []byte{'d'}, ServerTimestampMS: 1}}, AppendOptions{Mode: mode})
			zzsym.Assert(err != nil && errors.Is(err, dberrors.ErrConflict), "store: a (sender, client number) stored by a batch is accepted again")
		}
		if round == 0 {
			s.reopen()
		}
	}
	c07CheckAgainst(s, m)
	zzsym.Reach("store-batch-final")
	zzsym.Assert(s.log.Close() == nil && s.db.Close() == nil, "store: final close failed")
}

// Harness_C08_StoreBatchConflicts: ordinary hash behind the membership filter.
func Harness_C08_StoreBatchConflicts() { c08StoreBatchConflicts() }

// Harness_C08_StoreBatchConflictsCollide: constant hash (every validation takes the point read).
func Harness_C08_StoreBatchConflictsCollide() { c08StoreBatchConflicts() }

// c08StoreReclaimPartial: the registry's warm state of a reclaimed entry carries TWO flags (log end
// loaded, idempotency membership loaded). A lease generation that only loaded the log end (LEO()) or
// only did trusted follower appends is closed, the channel is re-acquired, and a stored (sender,
// client number) is offered again: refused with ErrConflict in both modes, store unchanged.
func c08StoreReclaimPartial() {
	s, m := c07FreshStore()
	c07Seed(s, m) // rows 1..3 = (a,x) (b,x) (a,y), HW = 2
	s.reopen()    // fresh registry: nothing loaded
	switch zzsym.Choice("partial", 3) {
	case 0:
		// a lease that only asks for the log end
		leo, err := s.log.LEO(context.Background())
		zzsym.Assert(err == nil && leo == m.leo, "store: LEO after reopen differs")
	case 1:
		// a follower lease: one trusted-contiguous apply with a fresh pair
		c07ApplyFetch(s, m, "f")
	default:
		// no access at all before the lease is released
	}
	c08Reclaim(s)
	zzsym.Reach("store-reclaimed-partial")
	mode := AppendStrict
	if zzsym.Choice("mode", 2) == 1 {
		mode = AppendServerAllocatedMessageID
	}
	holder := m.rows[zzsym.Choice("dup.row", len(m.rows))]
	m.nextID++
	m.ids = append(m.ids, m.nextID)
	_, err := s.log.Append(context.Background(), []Record{{ID: m.nextID, FromUID: holder.uid, ClientMsgNo: holder.cno, Payload: []byte{'d'}, ServerTimestampMS: 1}}, AppendOptions{Mode: mode})
	zzsym.Assert(err != nil && errors.Is(err, dberrors.ErrConflict), "store: after a lease that loaded only part of the entry state was reclaimed, a stored (sender, client number) is accepted again")
	c07CheckAgainst(s, m)
	zzsym.Assert(s.log.Close() == nil && s.db.Close() == nil, "store: final close failed")
}

// Harness_C08_StoreReclaimPartial: ordinary hash behind the membership filter.
func Harness_C08_StoreReclaimPartial() { c08StoreReclaimPartial() }

// Harness_C08_StoreReclaimPartialCollide: constant hash.
func Harness_C08_StoreReclaimPartialCollide() { c08StoreReclaimPartial() }
