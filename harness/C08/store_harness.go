package message

import (
	"context"
	"errors"

	"github.com/WuKongIM/WuKongIM/internal/zzsym"
	"github.com/WuKongIM/WuKongIM/pkg/db/internal/dberrors"
)

// Store-level obligation of C08 on the in-memory engine overlay (harness/_memengine), reusing the
// reference log and the full store/reference comparison of harness/C07/store_harness.go (overlaid into
// this check as well): a (sender, client message number) pair or a message id that is durably stored at
// another sequence makes a later append fail with ErrConflict — in another batch, after close + reopen
// (membership filter rebuilt from the index scan), after lease reclamation (filter carried by or dropped
// from the registry's warm cache), in strict and in server-allocated-id mode, whatever the negative
// membership filter answers — and a pair / id whose row was removed by trim or truncation is accepted
// again. Message ids are unique across the channels of the node (strict mode).
//
// The hash behind the membership filter is instantiated twice (engine/intr_C08.go): an ordinary hash
// (Harness_C08_StoreConflicts: fresh keys are answered "absent", the point read is skipped) and a
// constant hash (Harness_C08_StoreConflictsCollide: after the first add every key is answered
// "possibly present", every validation takes the durable point read).

// c08Reclaim closes the only lease of the channel (the registry reclaims the canonical entry and
// keeps or evicts its warm state) and acquires a new one.
func c08Reclaim(s *c07Store) {
	zzsym.Assert(s.log.Close() == nil, "store: lease close failed")
	_, err := s.log.LEO(context.Background())
	zzsym.Assert(err != nil, "store: a released lease still answers")
	log, err := s.db.Channel(c07ChanKey, c07ChanID)
	zzsym.Assert(err == nil && log != nil, "store: re-acquiring the channel failed")
	s.log = log
	zzsym.Reach("store-reclaim")
}

// c08Append offers one record whose (sender, client number) is any of the four pairs and whose id is
// fresh, the id of a retained row of this channel, or the id stored in ANOTHER channel of the node;
// strict or server-allocated-id mode (the latter only with fresh ids: that is its contract).
func c08Append(s *c07Store, m *c07Ref, step string) {
	mode := AppendStrict
	if zzsym.Choice(step+".mode", 2) == 1 {
		mode = AppendServerAllocatedMessageID
	}
	rec := c07Rec{
		uid: c07Senders[zzsym.Choice(step+".uid", 2)],
		cno: c07ClientNos[zzsym.Choice(step+".cno", 2)],
	}
	m.nextTS++
	rec.ts = m.nextTS
	dupID := false
	switch zzsym.Choice(step+".idkind", 3) {
	case 0:
		m.nextID++
		rec.id = m.nextID
	case 1:
		zzsym.Assume(mode == AppendStrict && len(m.rows) > 0)
		rec.id = m.rows[zzsym.Choice(step+".idrow", len(m.rows))].id
		dupID = true
	default:
		zzsym.Assume(mode == AppendStrict)
		rec.id = c07OtherFirst
		dupID = true
	}
	rec.payload = byte(rec.id) + 1
	_, pairHeld := m.pairHolder(rec.uid, rec.cno)
	res, err := s.log.Append(context.Background(), []Record{c07ToRecord(rec)}, AppendOptions{Mode: mode})
	switch {
	case dupID:
		zzsym.Reach("store-conflict-message-id")
		zzsym.Assert(err != nil && errors.Is(err, dberrors.ErrConflict), "store: a message id stored at another sequence or in another channel is accepted again")
	case pairHeld:
		zzsym.Reach("store-conflict-pair")
		zzsym.Assert(err != nil && errors.Is(err, dberrors.ErrConflict), "store: a (sender, client number) stored at another sequence is accepted again")
		m.ids = append(m.ids, rec.id) // offered and refused: must never become visible
	default:
		zzsym.Reach("store-accept")
		zzsym.Assert(err == nil && res.BaseSeq == m.leo+1 && res.Count == 1, "store: a record with a fresh id and a free (sender, client number) is refused")
		m.leo++
		rec.seq = m.leo
		m.rows = append(m.rows, rec)
		m.ids = append(m.ids, rec.id)
	}
}

func c08StoreStep(s *c07Store, m *c07Ref, step string) {
	switch zzsym.Choice(step+".op", 7) {
	case 0:
		c08Append(s, m, step)
	case 1:
		c07ApplyFetch(s, m, step)
	case 2:
		c07Truncate(s, m, step)
	case 3:
		c07Trim(s, m, step)
	case 4:
		c07StoreCheckpoint(s, m, step)
	case 5:
		s.reopen()
		zzsym.Reach("store-reopen")
	default:
		c08Reclaim(s)
	}
	c07CheckAgainst(s, m)
}

func c08StoreConflicts() {
	s, m := c07FreshStore()
	c07Seed(s, m) // rows 1..3 = (a,x) (b,x) (a,y), HW = 2; the bystander channel holds id 900 with (a,x)
	k := c07Ops(2, 3)
	for i := 0; i < k; i++ {
		c08StoreStep(s, m, "s"+string(rune('0'+i)))
	}
	// whatever happened: every pair still held is still refused, in both modes, also after a final reopen
	s.reopen()
	c07CheckAgainst(s, m)
	for _, uid := range c07Senders {
		for _, cno := range c07ClientNos {
			if _, held := m.pairHolder(uid, cno); !held {
				continue
			}
			for _, mode := range [2]AppendMode{AppendStrict, AppendServerAllocatedMessageID} {
				m.nextID++
				_, err := s.log.Append(context.Background(), []Record{{ID: m.nextID, FromUID: uid, ClientMsgNo: cno, Payload: []byte{'d'}, ServerTimestampMS: 1}}, AppendOptions{Mode: mode})
				zzsym.Assert(err != nil && errors.Is(err, dberrors.ErrConflict), "store: after reopen a stored (sender, client number) is accepted again")
				m.ids = append(m.ids, m.nextID)
			}
		}
	}
	c07CheckAgainst(s, m)
	zzsym.Reach("store-conflicts-final")
	zzsym.Observe("c08store", m.leo, uint64(len(m.rows)), m.physical)
	zzsym.Assert(s.log.Close() == nil && s.db.Close() == nil, "store: final close failed")
}

// Harness_C08_StoreConflicts: ordinary hash behind the membership filter.
func Harness_C08_StoreConflicts() { c08StoreConflicts() }

// Harness_C08_StoreConflictsCollide: constant hash — the filter answers "possibly present" for every
// key once anything was added, so every validation goes through the durable point read.
func Harness_C08_StoreConflictsCollide() { c08StoreConflicts() }
