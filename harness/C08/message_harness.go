package message

import (
	"context"
	"errors"

	"github.com/WuKongIM/WuKongIM/internal/zzsym"
	"github.com/WuKongIM/WuKongIM/pkg/db/internal/dberrors"
)

func c08Len(name string, quick, thorough int) int {
	max := quick
	if zzsym.Thorough() {
		max = thorough
	}
	return zzsym.Choice(name, max+1)
}

// c08Words: n fully symbolic 64-bit words.
func c08Words(name string, n int) []uint64 {
	w := make([]uint64, n)
	for i := range w {
		w[i] = zzsym.U64(name)
	}
	return w
}

// c08FilterInv is the representation invariant of idempotencyMembershipFilter: what every state
// reachable from the zero value through add() satisfies (established by the zero value — see
// Harness_C08_FilterFromEmpty — and preserved by add — asserted in every step entry).
//
//	primary layer absent  => nothing was ever added: no overflow layer, primaryAdds == 0
//	overflow layer present => the primary layer is saturated: primaryAdds == capacity
//	primaryAdds <= capacity; layer sizes: a power of two of words (the code derives its bit mask from
//	len(bits)*64-1; the constructor's sizes are 64 and 128)
func c08FilterInv(f *idempotencyMembershipFilter) bool {
	pw, ow := len(f.primaryBits), len(f.overflowBits)
	if pw&(pw-1) != 0 || ow&(ow-1) != 0 || f.primaryAdds > idempotencyMembershipPrimaryCapacity {
		return false
	}
	if pw == 0 && (ow != 0 || f.primaryAdds != 0) {
		return false
	}
	if ow != 0 && f.primaryAdds != idempotencyMembershipPrimaryCapacity {
		return false
	}
	return true
}

// c08LayerSizes: the layer sizes (words) of the step entries. The executor turns bits[i] |= m with a
// symbolic i into a per-element multiplexer over the whole layer; with the constructor's 64/128-word
// layers one "is this probe bit set" query takes the solver minutes (measured: 3.5 min for one add into
// an empty 64-word layer). The layer code is generic in the size (mask = len(bits)*64-1), so the
// inductive step is decided for pre-allocated layers of 1 and 2 words (quick tier: 1 or 2 words for the
// primary-only states of the add-then-contains entry, 1+1 for the two-layer states and for the
// monotonicity entry; thorough tier: 1, 2 and 4 words, monotonicity 1 and 2);
// the constructor-size allocation itself is covered by Harness_C08_FilterFromEmpty.
func c08LayerSizes(twoKeys bool) (pw, ow int) {
	if zzsym.Thorough() {
		n := 3
		if twoKeys {
			n = 2 // monotonicity entry: 1 or 2 words (4-word layers with two keys exceed the hour)
		}
		w := 1 << uint(zzsym.Choice("words", n))
		return w, w
	}
	if twoKeys {
		return 1, 1
	}
	w := 1 << uint(zzsym.Choice("words", 2))
	return w, w
}

// c08ArbitraryFilter: an arbitrary filter state satisfying the invariant, every word symbolic.
// saturated=false: primary layer only, any add count that leaves room for `room` more adds;
// saturated=true: both layers, primary layer at capacity.
func c08ArbitraryFilter(saturated bool, room uint32, pw, ow int) *idempotencyMembershipFilter {
	f := &idempotencyMembershipFilter{}
	f.primaryBits = c08Words("primary", pw)
	if saturated {
		f.overflowBits = c08Words("overflow", ow)
		f.primaryAdds = idempotencyMembershipPrimaryCapacity
	} else {
		f.primaryAdds = zzsym.U32("adds")
		zzsym.Assume(f.primaryAdds <= idempotencyMembershipPrimaryCapacity-room)
	}
	return f
}

// c08Key: the filter never looks at the key bytes, only at their (uninterpreted) hashes.
func c08Key(name string) []byte {
	return zzsym.Bytes(name, 1)
}

// Harness_C08_FilterAddThenContains_EnvHash: first half of the inductive step of filter soundness on
// the real bit-vector code, from an ARBITRARY state (every word of the layers symbolic, add counter
// symbolic) with the hash uninterpreted: after add(k), mayContain(k); the representation invariant
// is preserved; the counter moves exactly when the key went to the unsaturated primary layer.
// Includes the saturation branch (primaryAdds at capacity: the key goes to the overflow layer).
func Harness_C08_FilterAddThenContains_EnvHash() {
	saturatedState := zzsym.Choice("saturated", 2) == 1
	pw, ow := 1, 1 // two-layer states, quick tier: every mayContain walks both layers; one word each keeps it in budget
	if !saturatedState || zzsym.Thorough() {
		pw, ow = c08LayerSizes(false)
	}
	f := c08ArbitraryFilter(saturatedState, 1, pw, ow)
	zzsym.Assert(c08FilterInv(f), "harness: generated state violates the invariant")
	k := c08Key("k")
	hadK := f.mayContain(k)
	addsBefore := f.primaryAdds
	f.add(k)
	zzsym.Reach("filter-add")
	zzsym.Assert(f.mayContain(k), "a key is reported absent right after it was added (false negative)")
	zzsym.Assert(c08FilterInv(f) && len(f.primaryBits) == pw && (!saturatedState || len(f.overflowBits) == ow), "add breaks the filter's representation invariant")
	if hadK {
		zzsym.Reach("filter-add-already-present")
		zzsym.Assert(f.primaryAdds == addsBefore, "re-adding a present key changes the add counter")
	} else if saturatedState {
		zzsym.Reach("filter-add-saturated")
		zzsym.Assert(f.primaryAdds == addsBefore, "a saturated primary layer must not count further adds")
	} else {
		zzsym.Reach("filter-add-primary")
		zzsym.Assert(f.primaryAdds == addsBefore+1 && f.overflowBits == nil, "an unsaturated primary layer must take the key and count it")
	}
}

// Harness_C08_FilterMonotone_EnvHash: second half of the inductive step: from an arbitrary state, a key
// k2 that mayContain before add(k) still does after it (add only ever sets bits). With the first half,
// by induction over any sequence of adds: a key that was added is never reported absent — no false
// negatives for any history — until the filter is rebuilt.
func Harness_C08_FilterMonotone_EnvHash() {
	saturatedState := zzsym.Choice("saturated", 2) == 1
	pw, ow := c08LayerSizes(true)
	f := c08ArbitraryFilter(saturatedState, 1, pw, ow)
	k := c08Key("k")
	k2 := c08Key("k2")
	if !f.mayContain(k2) {
		return
	}
	f.add(k)
	zzsym.Reach("filter-monotone")
	zzsym.Assert(f.mayContain(k2), "a key present before an add is reported absent after it (false negative)")
}

// Harness_C08_FilterFromEmpty: the zero filter (and the nil filter) satisfies the invariant and
// reports every key absent; the first add allocates the constructor-size primary layer (64 words) and
// counts 1; an add with the counter at capacity allocates the 128-word overflow layer and leaves the
// counter alone; no probe index leaves the layer (an out-of-range index would be an uncaught panic).
// The "present afterwards" claims are NOT asserted at this size (see c08LayerSizes). Control flow up
// to the Reach/Observe calls does not depend on hash values, so the entry is natively replayable with
// the real maphash and part of the translator self-test.
func Harness_C08_FilterFromEmpty() {
	var f idempotencyMembershipFilter
	k := c08Key("k")
	k2 := c08Key("k2")
	zzsym.Assert(c08FilterInv(&f), "the zero filter violates the invariant")
	zzsym.Assert(!f.mayContain(k) && !f.mayContain(k2), "the zero filter reports a key present")
	var nilFilter *idempotencyMembershipFilter
	nilFilter.add(k)
	zzsym.Assert(!nilFilter.mayContain(k), "a nil filter reports a key present")
	f.add(k)
	zzsym.Reach("empty-first-add")
	zzsym.Assert(f.primaryAdds == 1 && len(f.primaryBits) == idempotencyMembershipPrimaryWords && f.overflowBits == nil, "first add must allocate and count the primary layer")
	zzsym.Assert(c08FilterInv(&f), "first add breaks the invariant")
	nonZero := false
	for _, w := range f.primaryBits {
		if w != 0 {
			nonZero = true
		}
	}
	zzsym.Assert(nonZero, "first add set no bit")
	// saturated primary layer, overflow layer not allocated yet (the state right at saturation)
	g := idempotencyMembershipFilter{primaryBits: make([]uint64, idempotencyMembershipPrimaryWords), primaryAdds: idempotencyMembershipPrimaryCapacity}
	zzsym.Assert(c08FilterInv(&g), "harness: saturation state violates the invariant")
	g.add(k2)
	zzsym.Reach("empty-overflow-allocated")
	zzsym.Assert(len(g.overflowBits) == idempotencyMembershipOverflowWords && g.primaryAdds == idempotencyMembershipPrimaryCapacity, "an add at capacity must allocate the overflow layer and not count")
	zzsym.Assert(c08FilterInv(&g), "add at capacity breaks the invariant")
	primaryUntouched := true
	for _, w := range g.primaryBits {
		if w != 0 {
			primaryUntouched = false
		}
	}
	zzsym.Assert(primaryUntouched, "an add at capacity wrote to the saturated primary layer")
	zzsym.Observe("empty", uint64(len(f.primaryBits)), uint64(f.primaryAdds), uint64(len(g.overflowBits)), uint64(g.primaryAdds))
}

// ---------------------------------------------------------------- in-batch duplicate detection

type c08Row struct {
	id       uint64
	uid, cno string
}

func c08BatchRow(i int) c08Row {
	p := string(rune('a' + i))
	return c08Row{
		id:  zzsym.U64(p + ".id"),
		uid: zzsym.String(p+".uid", c08Len(p+".uidlen", 1, 2)),
		cno: zzsym.String(p+".cno", c08Len(p+".cnolen", 1, 2)),
	}
}

// Harness_C08_BatchSeen: appendValidationSeen reports exactly the repeats inside one batch of up
// to 3 rows: rememberMessageID(id) is true iff the id was remembered before; rememberIdempotencyKey
// (sender, client number) is true iff that pair was remembered before (first-key fast slot and the
// lazily created map both covered).
func Harness_C08_BatchSeen() {
	n := 1 + zzsym.Choice("n", 3)
	rows := make([]c08Row, n)
	for i := range rows {
		rows[i] = c08BatchRow(i)
	}
	seen := newAppendValidationSeen(n)
	for i := 0; i < n; i++ {
		wantID, wantKey := false, false
		for j := 0; j < i; j++ {
			if rows[j].id == rows[i].id {
				wantID = true
			}
			if rows[j].uid == rows[i].uid && rows[j].cno == rows[i].cno {
				wantKey = true
			}
		}
		gotID := seen.rememberMessageID(rows[i].id)
		gotKey := seen.rememberIdempotencyKey(IdempotencyKey{FromUID: rows[i].uid, ClientMsgNo: rows[i].cno})
		if i == n-1 {
			zzsym.Reach("batch-seen-last-row")
		}
		zzsym.Assert(gotID == wantID, "rememberMessageID: repeated message id not reported exactly")
		zzsym.Assert(gotKey == wantKey, "rememberIdempotencyKey: repeated (sender, client number) not reported exactly")
	}
	zzsym.Observe("seen", uint64(n), uint64(len(seen.messageIDs)))
}

// ---------------------------------------------------------------- validateAppendRow, the part before any durable read

type c08Outcome struct {
	err     error
	durable bool // the call went to the storage engine
}

// c08Validate runs the real validateAppendRow on a log whose MessageDB has NO engine: every durable
// access (global message-id read, idempotency point read, filter rebuild scan) reaches the real
// (*engine.DB).Get / NewIter with a nil receiver, which return dberrors.ErrClosed; validateAppendRow
// hands that error up unchanged and produces ErrClosed nowhere else, so "went to storage" is
// observable without faking anything.
func c08Validate(l *ChannelLog, row messageRow, seen *appendValidationSeen, mode AppendMode, scratch *appendValidationScratch) c08Outcome {
	err := l.validateAppendRow(context.Background(), row, seen, mode, l.appendKeyCache, scratch)
	if err != nil && errors.Is(err, dberrors.ErrClosed) {
		return c08Outcome{durable: true}
	}
	return c08Outcome{err: err}
}

func c08Log(loaded bool) *ChannelLog {
	ck := ChannelKey(zzsym.String("ck", 1))
	id := ChannelID{ID: "c", Type: zzsym.U8("ctype")}
	entry := &channelEntry{db: &MessageDB{}, key: ck, id: id, appendKeyCache: newAppendKeyCache(ck, id)}
	entry.idempotencyMembershipLoaded = loaded
	return &ChannelLog{channelEntry: entry}
}

// c08LoadedLog: a log whose membership filter is loaded and in an arbitrary unsaturated state with room
// for the whole batch (one-word primary layer, see c08LayerSizes: the entry is about the wiring).
func c08LoadedLog() *ChannelLog {
	l := c08Log(true)
	l.idempotencyMembership = *c08ArbitraryFilter(false, 3, 1, 0)
	return l
}

// c08KindRow: a row that is keyed (sender and client number of one byte each), or lacks the sender, or
// lacks the client number.
func c08KindRow(i int) c08Row {
	p := string(rune('a' + i))
	r := c08Row{id: zzsym.U64(p + ".id")}
	switch zzsym.Choice(p+".kind", 3) {
	case 0:
		r.uid, r.cno = zzsym.String(p+".uid", 1), zzsym.String(p+".cno", 1)
	case 1:
		r.cno = zzsym.String(p+".cno", 1)
	default:
		r.uid = zzsym.String(p+".uid", 1)
	}
	return r
}

// Harness_C08_ValidateBatch_EnvHash: the decisions validateAppendRow takes BEFORE any durable read,
// for a batch of up to 2 rows (3 thorough; in-batch repeats among 3 rows: Harness_C08_BatchSeen) walked like walkAppendRowsLocked does (one shared appendValidationSeen,
// stop at the first error), in server-allocated-id and trusted-contiguous mode, starting from a
// loaded membership filter in an arbitrary state:
//   - message id 0 => ErrInvalidArgument;
//   - a message id repeated in the batch => ErrConflict, before anything else;
//   - a (sender, client number) repeated in the batch => ErrConflict, in both modes;
//   - a row accepted WITHOUT a durable read (server-allocated mode) is one whose key the filter
//     reported absent — the point read is skipped only then — and the key is in the filter afterwards;
//   - trusted-contiguous mode never reads and keeps a loaded filter current;
//   - whenever the filter reports the key possibly present the code goes to storage (never accepts).
func Harness_C08_ValidateBatch_EnvHash() {
	mode := AppendServerAllocatedMessageID
	if zzsym.Choice("mode", 2) == 1 {
		mode = AppendTrustedContiguous
	}
	l := c08LoadedLog()
	n := 1 + zzsym.Choice("n", c08Len("maxrows", 2, 3))
	rows := make([]c08Row, n)
	for i := range rows {
		rows[i] = c08KindRow(i)
	}
	seen := newAppendValidationSeen(n)
	scratch := appendValidationScratch{}
	baseSeq := zzsym.U64("base")
	zzsym.Assume(baseSeq >= 1 && baseSeq < 1<<62)
	for i := 0; i < n; i++ {
		r := rows[i]
		row := messageRow{MessageSeq: baseSeq + uint64(i), MessageID: r.id, FromUID: r.uid, ClientMsgNo: r.cno}
		keyed := r.uid != "" && r.cno != ""
		dupID, dupKey := false, false
		for j := 0; j < i; j++ {
			if rows[j].id == r.id {
				dupID = true
			}
			if keyed && rows[j].uid == r.uid && rows[j].cno == r.cno {
				dupKey = true
			}
		}
		indexKey := l.appendKeyCache.idempotencyIndexKey(r.uid, r.cno)
		before := l.idempotencyMembership.mayContain(indexKey)
		out := c08Validate(l, row, &seen, mode, &scratch)
		switch {
		case r.id == 0:
			zzsym.Reach("validate-zero-id")
			zzsym.Assert(!out.durable && errors.Is(out.err, dberrors.ErrInvalidArgument), "message id 0 is not rejected as invalid")
			return
		case dupID:
			zzsym.Reach("validate-dup-id")
			zzsym.Assert(!out.durable && errors.Is(out.err, dberrors.ErrConflict), "a message id repeated in the batch is not rejected with ErrConflict")
			return
		case !keyed:
			zzsym.Reach("validate-unkeyed")
			zzsym.Assert(!out.durable && out.err == nil, "a row without (sender, client number) is not accepted")
		case dupKey:
			zzsym.Reach("validate-dup-key")
			zzsym.Assert(!out.durable && errors.Is(out.err, dberrors.ErrConflict), "a (sender, client number) repeated in the batch is not rejected with ErrConflict")
			return
		case mode == AppendTrustedContiguous:
			zzsym.Reach("validate-trusted")
			zzsym.Assert(!out.durable && out.err == nil, "trusted-contiguous mode must accept a fresh key without reading")
			zzsym.Assert(l.idempotencyMembership.mayContain(indexKey), "trusted-contiguous mode leaves a loaded filter without the accepted key")
		case out.durable:
			zzsym.Reach("validate-point-read")
			zzsym.Assert(before, "the filter reported the key absent but the code still read storage")
			return // the outcome of the read is Pebble-backed: not covered
		default:
			zzsym.Reach("validate-filter-skip")
			zzsym.Assert(out.err == nil, "a fresh key is rejected without a durable read")
			zzsym.Assert(!before, "the durable point read was skipped although the filter reported the key possibly present")
			zzsym.Assert(l.idempotencyMembership.mayContain(indexKey), "an accepted key is missing from the membership filter")
		}
	}
}

// Harness_C08_ValidateNeverSkipsUnloaded: strict mode always consults the durable global message-id
// index (the server-allocated fast path is the ONLY mode that skips that read), and a non-trusted
// mode never accepts a keyed row while the membership filter is not loaded (it rebuilds it from
// storage first); trusted-contiguous mode with an unloaded filter accepts without touching it.
// No hash is involved before the storage access, so the entry is natively replayable.
func Harness_C08_ValidateNeverSkipsUnloaded() {
	which := zzsym.Choice("which", 3)
	r := c08BatchRow(0)
	zzsym.Assume(r.id != 0)
	row := messageRow{MessageSeq: zzsym.U64("seq"), MessageID: r.id, FromUID: r.uid, ClientMsgNo: r.cno}
	keyed := r.uid != "" && r.cno != ""
	seen := newAppendValidationSeen(1)
	scratch := appendValidationScratch{}
	switch which {
	case 0:
		l := c08Log(zzsym.Choice("loaded", 2) == 1)
		out := c08Validate(l, row, &seen, AppendStrict, &scratch)
		zzsym.Reach("strict-reads-global-index")
		zzsym.Assert(out.durable, "strict mode decided without reading the global message-id index")
	case 1:
		l := c08Log(false)
		out := c08Validate(l, row, &seen, AppendServerAllocatedMessageID, &scratch)
		if keyed {
			zzsym.Reach("unloaded-filter-rebuilds")
			zzsym.Assert(out.durable, "server-allocated mode accepted a keyed row without loading the membership filter")
		} else {
			zzsym.Reach("unloaded-filter-unkeyed")
			zzsym.Assert(!out.durable && out.err == nil, "an unkeyed row is not accepted in server-allocated mode")
		}
	default:
		l := c08Log(false)
		out := c08Validate(l, row, &seen, AppendTrustedContiguous, &scratch)
		zzsym.Reach("trusted-unloaded")
		zzsym.Assert(!out.durable && out.err == nil, "trusted-contiguous mode must accept without reading")
		zzsym.Assert(l.idempotencyMembership.primaryBits == nil && l.idempotencyMembership.primaryAdds == 0, "trusted-contiguous mode touched an unloaded filter")
	}
	zzsym.Observe("val", uint64(which), zzsym.B2U(keyed))
}
