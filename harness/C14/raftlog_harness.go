package raftlog

// C14 harness: the durable Raft log (pebbleStore on *DB) against the package's in-memory
// multiraft.Storage (memoryStore, memory.go) as the reference Raft storage.
//
// The Pebble module is replaced by the in-memory shim of /verif/harness/C14/pebble (check.json
// "replace"): atomic batches, durable-in-order commits, stores registered by path, commit fault
// injection. Everything between the multiraft.Storage methods and that API is the real code.
//
// What the harness bypasses (and only this):
//   - raftlog.Open: zzC14Open builds the DB struct the way Open does, without normalizeOptions'
//     filepath.Abs, without the snapshot-GC context and without `go db.runWriteWorker()`.
//   - the write queue (submitWrite -> channel -> runWriteWorker -> collectWriteRequests): the
//     harness builds the writeRequest exactly as Save / MarkApplied / MarkConfigApplied do and hands
//     the request list to (*DB).flushWriteRequests, the synchronous core the worker calls.
//   - snapshot payload files: Save's prepareAndWriteSnapshot + publishFinal (chunk directories on
//     the file system) are replaced by zzC14StageManifest, which computes the manifest those two
//     produce for a single-chunk payload (SnapshotID is a fixed well-formed placeholder,
//     CreatedAtUnixNano is 0). Consequently Snapshot() is observed through the Pebble manifest
//     (loadConsistentSnapshotManifest), not through the chunk files.

import (
	"context"
	"errors"
	"sync"

	"github.com/WuKongIM/WuKongIM/internal/zzsym"
	"github.com/WuKongIM/WuKongIM/pkg/slot/multiraft"
	"github.com/cockroachdb/pebble/v2"
	raft "go.etcd.io/raft/v3"
	"go.etcd.io/raft/v3/raftpb"
)

const (
	zzC14Path     = "/zz/c14/raft"
	zzC14SnapRoot = "/zz/c14/raft-snapshots"
	zzC14SnapID   = "snap-00000000000000c1-00000000000000c4-00000000000000aa"
)

// zzC14Open mirrors Open (pebble_db.go) without the goroutine, the GC context and filepath.Abs.
func zzC14Open() *DB {
	pdb, err := pebble.Open(zzC14Path, &pebble.Options{})
	if err != nil {
		panic("zzC14Open: pebble.Open failed")
	}
	db := &DB{
		db: pdb,
		options: Options{
			SnapshotPath:       zzC14SnapRoot,
			SnapshotChunkSize:  defaultSnapshotChunkSize,
			WriteBatchMaxWait:  defaultWriteBatchMaxWait,
			WriteBatchMaxItems: defaultWriteBatchMaxItems,
		},
		snapshotStore:       newSnapshotStore(zzC14SnapRoot, defaultSnapshotChunkSize),
		writeCh:             make(chan *writeRequest, defaultWriteChSize),
		stateCache:          make(map[Scope]scopeWriteState),
		scopeMutationLocks:  make(map[Scope]*sync.Mutex),
		activeSnapshotPaths: make(map[string]int),
	}
	if err := db.ensureManifest(); err != nil {
		panic("zzC14Open: ensureManifest failed")
	}
	return db
}

// zzC14StageManifest stands in for prepareAndWriteSnapshot + publishFinal: the manifest that
// snapshotStore.prepare and snapshotStore.write compute for a payload that fits one chunk.
func zzC14StageManifest(db *DB, scope Scope, snap raftpb.Snapshot) SnapshotManifest {
	m := SnapshotManifest{
		Version:      snapshotManifestVersion,
		ScopeKind:    uint8(scope.Kind),
		ScopeID:      scope.ID,
		Index:        snap.Metadata.Index,
		Term:         snap.Metadata.Term,
		ConfState:    cloneConfState(snap.Metadata.ConfState),
		SnapshotID:   zzC14SnapID,
		ChunkSize:    db.snapshotStore.chunkSize,
		ChecksumType: snapshotChecksumCRC32C,
	}
	m.TotalSize = uint64(len(snap.Data))
	m.WholeChecksum = snapshotChecksum(snap.Data)
	m.ChunkChecksums = make([][]byte, 0, 1)
	if len(snap.Data) > 0 {
		m.ChunkCount = 1
		m.ChunkChecksums = append(m.ChunkChecksums, snapshotChecksum(snap.Data))
	}
	return m
}

// zzC14SaveRequest builds the write request pebbleStore.Save enqueues (pebble_store.go), with the
// external snapshot staging replaced as described at the top of this file. A non-nil error is the
// error Save returns before anything is enqueued.
func zzC14SaveRequest(db *DB, scope Scope, st multiraft.PersistentState) (*writeRequest, error) {
	ctx := context.Background()
	writeState := withoutSnapshotData(st)
	if st.Snapshot != nil {
		plan, err := db.planSnapshotSave(ctx, scope, *st.Snapshot)
		if err != nil {
			return nil, err
		}
		writeState.Snapshot = &plan.Metadata
		if len(writeState.Entries) > 0 {
			writeState.Entries = filterEntriesAfterSnapshot(writeState.Entries, plan.Metadata.Index)
		}
		if !plan.NeedsExternalWrite {
			writeState.SnapshotManifest = cloneSnapshotManifestPtr(plan.ExistingManifest)
		} else {
			m := zzC14StageManifest(db, scope, *st.Snapshot)
			writeState.SnapshotManifest = cloneSnapshotManifestPtr(&m)
		}
	}
	return &writeRequest{scope: scope, op: saveOp{state: writeState}, done: make(chan error, 1)}, nil
}

const (
	zzC14KindSave = iota
	zzC14KindSnapshot
	zzC14KindApplied
	zzC14KindConfigApplied
)

type zzC14Op struct {
	kind  int
	shape int
	// ccCommitted: the operation writes a conf-change entry together with a commit index covering it
	ccCommitted bool
	st          multiraft.PersistentState
	index       uint64
	// expectPlanErr is the oracle for "Save is refused before anything is written": a snapshot at
	// the index of the current snapshot with a different term.
	expectPlanErr bool
}

// zzC14Small returns a symbolic value in [lo, 127]: one varint byte in the protobuf encodings.
func zzC14Small(name string, lo uint64) uint64 {
	v := zzsym.U64(name)
	zzsym.Assume(v >= lo && v <= 127)
	return v
}

// zzC14HardState: symbolic term and vote; the commit index is concrete (deriveConfState walks the
// log comparing every entry index with it, which would fork once per entry on a symbolic commit):
// the given Raft-plausible value, or 0 / the value + 1 under the corresponding widening.
func zzC14HardState(commit uint64, widen int) *raftpb.HardState {
	switch widen {
	case zzC14WidenCommitZero:
		commit = 0
	case zzC14WidenCommitNext:
		commit++
	}
	return &raftpb.HardState{
		Term:   zzC14Small("c14.hs.term", 0),
		Vote:   zzC14Small("c14.hs.vote", 0),
		Commit: commit,
	}
}

// zzC14Entries: n contiguous entries from start with symbolic one-byte-varint terms; the first one
// carries one symbolic payload byte (variant 0), is an EntryConfChange adding node 3 (variant 1) or
// has a two-byte-varint term in [128, 16383] (variant 2).
func zzC14Entries(start uint64, n int, variant int) []raftpb.Entry {
	entries := make([]raftpb.Entry, 0, n)
	for j := 0; j < n; j++ {
		e := raftpb.Entry{Index: start + uint64(j), Type: raftpb.EntryNormal}
		if j == 0 && variant == 2 {
			t := zzsym.U64("c14.term.wide")
			zzsym.Assume(t >= 128 && t <= 16383)
			e.Term = t
		} else {
			e.Term = zzC14Small("c14.term", 1)
		}
		if j == 0 {
			if variant == 1 {
				cc := raftpb.ConfChange{Type: raftpb.ConfChangeAddNode, NodeID: 3}
				data, err := cc.Marshal()
				if err != nil {
					panic("zzC14Entries: ConfChange.Marshal failed")
				}
				e.Type = raftpb.EntryConfChange
				e.Data = data
			} else {
				e.Data = zzsym.Bytes("c14.data", 1)
			}
		}
		entries = append(entries, e)
	}
	return entries
}

func zzC14RefBounds(ref *memoryStore) (first, last, snapIdx uint64) {
	first, _ = ref.FirstIndex(context.Background())
	last, _ = ref.LastIndex(context.Background())
	return first, last, ref.snapshot.Metadata.Index
}

// Operation shapes (for reachability witnesses in the entries).
const (
	zzC14ShapeAppend = iota
	zzC14ShapeOverwrite
	zzC14ShapeHardStateOnly
	zzC14ShapeSnapSameIndex
	zzC14ShapeSnapCompaction
	zzC14ShapeSnapInstall
	zzC14ShapeApplied
	zzC14ShapeConfigApplied
)

// Generator modes: the size of the choice sets of one operation.
const (
	zzC14Lite      = iota // hard state always present on Save, never on a snapshot; 1..2 entries
	zzC14Normal           // optional hard state; 0..2 entries
	zzC14Wide             // normal plus ONE widening per operation (thorough-only entries), see below
	zzC14ProbeMode        // history(): draw the operation with zzC14Probe (4 fixed shapes)
)

// Widenings of the wide mode (exactly one per operation).
const (
	zzC14WidenNone       = iota
	zzC14WidenWindow                            // Save start / snapshot index anywhere in the held log, not only its last two indexes
	zzC14WidenCommitZero                        // hard state with commit index 0
	zzC14WidenCommitNext                        // hard state with the commit index one above the plausible one
	zzC14WidenThree                             // Save: 3 entries
	zzC14WidenConfChange                        // Save: the first entry is an EntryConfChange adding node 3
	zzC14WidenTerm                              // Save: the first entry has a two-byte varint term
	zzC14WidenSnapEntry  = zzC14WidenThree      // Snapshot: followed by one entry in the same Save
	zzC14WidenSnapAhead  = zzC14WidenConfChange // Snapshot: two past the end of the log
)

// zzC14GenOp draws one Raft-valid operation for the scope whose reference state is ref.
//   - Save: optional hard state, contiguous entries starting in [first, last+1] (an append, or the
//     overwrite of a conflicting suffix); start within the last two held indexes or the append
//     position unless widened.
//   - Snapshot: optional hard state, snapshot at the current snapshot index (re-save), at an index
//     in the log (compaction) or just past it (install).
//   - MarkApplied / MarkConfigApplied with an arbitrary 64-bit index.
func zzC14GenOp(ref *memoryStore, mode int) zzC14Op {
	first, last, snapIdx := zzC14RefBounds(ref)
	op := zzC14Op{kind: zzsym.Choice("c14.kind", 4)}
	switch op.kind {
	case zzC14KindSave:
		widen := zzC14WidenNone
		if mode == zzC14Wide {
			widen = zzsym.Choice("c14.widen.save", 7)
		}
		hs := 1
		if mode != zzC14Lite && widen != zzC14WidenCommitZero && widen != zzC14WidenCommitNext && widen != zzC14WidenConfChange {
			hs = zzsym.Choice("c14.hs", 2)
		}
		lo := first
		if widen != zzC14WidenWindow && last >= 1 && last-1 > lo {
			lo = last - 1
		}
		start := lo + uint64(zzsym.Choice("c14.start", int(last+1-lo)+1))
		minN, maxN := 1, 2
		if hs == 1 && mode != zzC14Lite {
			minN = 0
		}
		if widen == zzC14WidenThree {
			minN, maxN = 3, 3
		}
		if widen == zzC14WidenConfChange || widen == zzC14WidenTerm {
			minN = 1
		}
		n := minN + zzsym.Choice("c14.n", maxN-minN+1)
		variant := 0
		switch widen {
		case zzC14WidenConfChange:
			variant = 1
		case zzC14WidenTerm:
			variant = 2
		}
		if hs == 1 {
			// everything below the written suffix is committed, the suffix itself is not; a conf-change
			// entry is written either uncommitted or committed (then it changes the derived ConfState)
			commit := start - 1
			if widen == zzC14WidenConfChange && zzsym.Choice("c14.cc.committed", 2) == 1 {
				commit = start
				op.ccCommitted = true
			}
			op.st.HardState = zzC14HardState(commit, widen)
		}
		switch {
		case n == 0:
			op.shape = zzC14ShapeHardStateOnly
		case start <= last:
			op.st.Entries = zzC14Entries(start, n, variant)
			op.shape = zzC14ShapeOverwrite
		default:
			op.st.Entries = zzC14Entries(start, n, variant)
			op.shape = zzC14ShapeAppend
		}
	case zzC14KindSnapshot:
		widen := zzC14WidenNone
		if mode == zzC14Wide {
			widen = zzsym.Choice("c14.widen.snapshot", 6)
		}
		hs := 0
		if widen == zzC14WidenCommitZero || widen == zzC14WidenCommitNext {
			hs = 1
		} else if mode != zzC14Lite {
			hs = zzsym.Choice("c14.hs", 2)
		}
		// candidate indexes: the current snapshot index (same-index re-save), then the window
		var cands []uint64
		if snapIdx > 0 {
			cands = append(cands, snapIdx)
		}
		lo := snapIdx + 1
		if widen != zzC14WidenWindow && last >= 1 && last-1 > lo {
			lo = last - 1
		}
		hi := last + 1
		if widen == zzC14WidenSnapAhead {
			lo, hi = last+2, last+2
		}
		for i := lo; i <= hi; i++ {
			cands = append(cands, i)
		}
		idx := cands[zzsym.Choice("c14.snap.idx", len(cands))]
		term := zzC14Small("c14.snap.term", 1)
		snap := raftpb.Snapshot{
			Data: []byte{0x7a},
			Metadata: raftpb.SnapshotMetadata{
				Index:     idx,
				Term:      term,
				ConfState: raftpb.ConfState{Voters: []uint64{1, 2}},
			},
		}
		op.st.Snapshot = &snap
		if hs == 1 {
			// a hard state that still carries the old commit index (raised to the snapshot index by Save)
			op.st.HardState = zzC14HardState(last, widen)
		}
		if widen == zzC14WidenSnapEntry {
			next := idx + 1
			if last+1 > next {
				next = last + 1
			}
			op.st.Entries = zzC14Entries(next, 1, 0)
		}
		switch {
		case snapIdx > 0 && idx == snapIdx:
			op.expectPlanErr = term != ref.snapshot.Metadata.Term
			op.shape = zzC14ShapeSnapSameIndex
		case idx <= last:
			op.shape = zzC14ShapeSnapCompaction
		default:
			op.shape = zzC14ShapeSnapInstall
		}
	case zzC14KindApplied:
		op.index = zzsym.U64("c14.applied")
		op.shape = zzC14ShapeApplied
	case zzC14KindConfigApplied:
		op.index = zzsym.U64("c14.config-applied")
		op.shape = zzC14ShapeConfigApplied
	}
	return op
}

// zzC14World is one durable database with, per scope, the reference storage.
type zzC14World struct {
	db     *DB
	scopes []Scope
	refs   []*memoryStore
}

func zzC14NewWorld(scopes ...Scope) *zzC14World {
	pebble.ZZReset()
	w := &zzC14World{db: zzC14Open(), scopes: scopes}
	for range scopes {
		w.refs = append(w.refs, &memoryStore{})
	}
	return w
}

// request builds the write request the public method would enqueue for op on scope si.
func (w *zzC14World) request(si int, op zzC14Op) (*writeRequest, error) {
	scope := w.scopes[si]
	switch op.kind {
	case zzC14KindSave, zzC14KindSnapshot:
		return zzC14SaveRequest(w.db, scope, op.st)
	case zzC14KindApplied:
		return &writeRequest{scope: scope, op: markAppliedOp{index: op.index}, done: make(chan error, 1)}, nil
	default:
		return &writeRequest{scope: scope, op: markConfigAppliedOp{index: op.index}, done: make(chan error, 1)}, nil
	}
}

// applyRef applies op to the reference storage of scope si.
func (w *zzC14World) applyRef(si int, op zzC14Op) {
	ctx := context.Background()
	ref := w.refs[si]
	switch op.kind {
	case zzC14KindSave, zzC14KindSnapshot:
		_ = ref.Save(ctx, op.st)
	case zzC14KindApplied:
		_ = ref.MarkApplied(ctx, op.index)
	default:
		_ = ref.MarkConfigApplied(ctx, op.index)
	}
}

// step performs op on scope si of the durable store (one flush of one request) and, if the store
// accepted it, on the reference. It returns false when Save refused the operation up front.
func (w *zzC14World) step(si int, op zzC14Op) bool {
	req, perr := w.request(si, op)
	zzsym.Assert((perr != nil) == op.expectPlanErr, "Save is refused up front exactly for a same-index snapshot with a different term")
	if perr != nil {
		return false
	}
	pebble.ZZFailCommit(zzC14Path, 0)
	err := w.db.flushWriteRequests([]*writeRequest{req})
	_, attempts := pebble.ZZDisarm(zzC14Path)
	zzsym.Assert(err == nil, "a Raft-valid operation is accepted by the durable log")
	zzsym.Assert(attempts == 1, "a flush is exactly one Pebble commit (so its only crash points are before and after it)")
	if err != nil {
		return false
	}
	w.applyRef(si, op)
	return true
}

// kill abandons the DB handle without closing it (process kill) and opens the path again.
func (w *zzC14World) kill() {
	w.db = zzC14Open()
}

// reopen closes the DB (the real Close) and opens the path again.
func (w *zzC14World) reopen() {
	if err := w.db.Close(); err != nil {
		panic("zzC14World.reopen: Close failed")
	}
	w.db = zzC14Open()
}

// Observation families (bits of the mask returned by compare): a bit is set when the durable store
// agreed with the reference on every call of that family and returned no error.
const (
	zzC14Initial  = 1 << iota // InitialState: hard state, conf state, applied and config-applied index
	zzC14First                // FirstIndex
	zzC14Last                 // LastIndex
	zzC14EntriesF             // Entries(lo, hi, maxSize)
	zzC14TermF                // Term(i)
	zzC14Snapshot             // Snapshot (through the Pebble manifest)
	zzC14Bounds               // nothing at or below the compaction point, no term for an index not held
	zzC14Equal    = zzC14Initial | zzC14First | zzC14Last | zzC14EntriesF | zzC14TermF | zzC14Snapshot
)

func zzC14U64sEq(a, b []uint64) uint64 {
	if len(a) != len(b) {
		return 0
	}
	ok := uint64(1)
	for i := range a {
		ok &= zzsym.B2U(a[i] == b[i])
	}
	return ok
}

func zzC14ConfEq(a, b raftpb.ConfState) uint64 {
	return zzC14U64sEq(a.Voters, b.Voters) & zzC14U64sEq(a.Learners, b.Learners) &
		zzC14U64sEq(a.VotersOutgoing, b.VotersOutgoing) & zzC14U64sEq(a.LearnersNext, b.LearnersNext) &
		zzsym.B2U(a.AutoLeave == b.AutoLeave)
}

func zzC14BytesEq(a, b []byte) uint64 {
	if len(a) != len(b) {
		return 0
	}
	ok := uint64(1)
	for i := range a {
		ok &= zzsym.B2U(a[i] == b[i])
	}
	return ok
}

func zzC14EntriesEq(a, b []raftpb.Entry) uint64 {
	if len(a) != len(b) {
		return 0
	}
	ok := uint64(1)
	for i := range a {
		ok &= zzsym.B2U(a[i].Index == b[i].Index) & zzsym.B2U(a[i].Term == b[i].Term) & zzsym.B2U(a[i].Type == b[i].Type)
		ok &= zzC14BytesEq(a[i].Data, b[i].Data)
	}
	return ok
}

// zzC14EntriesWithin: every returned entry lies in [lo,hi), above the compaction point, at or
// above the reported first index, and the indexes are consecutive.
func zzC14EntriesWithin(es []raftpb.Entry, lo, hi, snapIdx, first uint64) uint64 {
	ok := uint64(1)
	for i := range es {
		ok &= zzsym.B2U(es[i].Index >= lo) & zzsym.B2U(es[i].Index < hi) &
			zzsym.B2U(es[i].Index > snapIdx) & zzsym.B2U(es[i].Index >= first)
		if i > 0 {
			ok &= zzsym.B2U(es[i].Index == es[i-1].Index+1)
		}
	}
	return ok
}

// compare observes scope si of the durable store through the multiraft.Storage methods and
// compares every answer with the reference. The result is the mask of agreeing families.
func (w *zzC14World) compare(si int) uint64 {
	ctx := context.Background()
	ref := w.refs[si]
	d := &pebbleStore{db: w.db, scope: w.scopes[si]}
	rFirst, rLast, snapIdx := zzC14RefBounds(ref)

	ds, derr := d.InitialState(ctx)
	rs, _ := ref.InitialState(ctx)
	initial := zzsym.B2U(derr == nil) &
		zzsym.B2U(ds.HardState.Term == rs.HardState.Term) &
		zzsym.B2U(ds.HardState.Vote == rs.HardState.Vote) &
		zzsym.B2U(ds.HardState.Commit == rs.HardState.Commit) &
		zzsym.B2U(ds.AppliedIndex == rs.AppliedIndex) &
		zzsym.B2U(ds.ConfigAppliedIndex == rs.ConfigAppliedIndex) &
		zzC14ConfEq(ds.ConfState, rs.ConfState)

	dFirst, ferr := d.FirstIndex(ctx)
	first := zzsym.B2U(ferr == nil) & zzsym.B2U(dFirst == rFirst)
	dLast, lerr := d.LastIndex(ctx)
	last := zzsym.B2U(lerr == nil) & zzsym.B2U(dLast == rLast)

	// Entries, window [0, top) with top two past the last index (quick: top = last+2 or the window
	// start + 6, whichever is smaller): every suffix range [lo, top) and every prefix range [0, hi);
	// thorough: every range. Plus one size-limited read (maxSize 1: exactly the first entry).
	entries, bounds := uint64(1), uint64(1)
	top := rLast + 2
	base := uint64(0)
	if rFirst > 2 {
		base = rFirst - 2 // skip the long empty stretch below a high compaction point
	}
	for lo := base; lo < top; lo++ {
		for hi := lo + 1; hi <= top; hi++ {
			if !zzsym.Thorough() && lo != base && hi != top {
				continue
			}
			de, eerr := d.Entries(ctx, lo, hi, 0)
			re, _ := ref.Entries(ctx, lo, hi, 0)
			entries &= zzsym.B2U(eerr == nil) & zzC14EntriesEq(de, re)
			bounds &= zzC14EntriesWithin(de, lo, hi, snapIdx, dFirst)
		}
	}
	de, eerr := d.Entries(ctx, base, top, 1)
	re, _ := ref.Entries(ctx, base, top, 1)
	entries &= zzsym.B2U(eerr == nil) & zzC14EntriesEq(de, re)

	// Term over the same window.
	term := uint64(1)
	for i := base; i <= top; i++ {
		dt, terr := d.Term(ctx, i)
		rt, _ := ref.Term(ctx, i)
		term &= zzsym.B2U(terr == nil) & zzsym.B2U(dt == rt)
		if i < snapIdx || i > rLast {
			bounds &= zzsym.B2U(dt == 0)
		}
	}

	// Snapshot, through the Pebble manifest (chunk files are not modelled).
	snapshot := uint64(0)
	m, has, merr := d.loadConsistentSnapshotManifest(ctx)
	rsnap, _ := ref.Snapshot(ctx)
	if raft.IsEmptySnap(rsnap) {
		snapshot = zzsym.B2U(merr == nil) & zzsym.B2U(!has)
	} else {
		snapshot = zzsym.B2U(merr == nil) & zzsym.B2U(has) &
			zzsym.B2U(m.Index == rsnap.Metadata.Index) & zzsym.B2U(m.Term == rsnap.Metadata.Term) &
			zzC14ConfEq(m.ConfState, rsnap.Metadata.ConfState) &
			zzsym.B2U(m.TotalSize == uint64(len(rsnap.Data))) &
			zzC14BytesEq(m.WholeChecksum, snapshotChecksum(rsnap.Data))
	}
	zzsym.Observe("c14.bounds", rFirst, rLast, snapIdx, dFirst, dLast)
	return initial*zzC14Initial | first*zzC14First | last*zzC14Last | entries*zzC14EntriesF |
		term*zzC14TermF | snapshot*zzC14Snapshot | bounds*zzC14Bounds
}

// The assert* helpers differ only in their messages (one pair per phase). The mask is observed, so
// a replay shows which family disagreed (bit values: see the zzC14Initial... constants).
func (w *zzC14World) assertOpen(si int) {
	m := w.compare(si)
	zzsym.Observe("c14.mask.open", m)
	zzsym.Assert(m&zzC14Equal == zzC14Equal, "open: InitialState, FirstIndex, LastIndex, Entries, Term and Snapshot equal the reference")
	zzsym.Assert(m&zzC14Bounds != 0, "open: no entry at or below the compaction point and no term for an index not held")
}

func (w *zzC14World) assertAfterKill(si int) {
	m := w.compare(si)
	zzsym.Observe("c14.mask.after-kill", m)
	zzsym.Assert(m&zzC14Equal == zzC14Equal, "after kill+reopen: InitialState, FirstIndex, LastIndex, Entries, Term and Snapshot equal the reference")
	zzsym.Assert(m&zzC14Bounds != 0, "after kill+reopen: no entry at or below the compaction point and no term for an index not held")
}

func (w *zzC14World) assertAfterClose(si int) {
	m := w.compare(si)
	zzsym.Observe("c14.mask.after-close", m)
	zzsym.Assert(m&zzC14Equal == zzC14Equal, "after Close+Open: InitialState, FirstIndex, LastIndex, Entries, Term and Snapshot equal the reference")
	zzsym.Assert(m&zzC14Bounds != 0, "after Close+Open: no entry at or below the compaction point and no term for an index not held")
}

func (w *zzC14World) assertAfterFailure(si int) {
	m := w.compare(si)
	zzsym.Observe("c14.mask.after-failure", m)
	zzsym.Assert(m&zzC14Equal == zzC14Equal, "after a failed commit: every observation is the state before the operation (nothing of it applied)")
	zzsym.Assert(m&zzC14Bounds != 0, "after a failed commit: no entry at or below the compaction point and no term for an index not held")
}

// zzC14Prefix is a fixed-shape first operation: hard state plus entries 1..2 with symbolic terms.
func zzC14Prefix() zzC14Op {
	return zzC14Op{kind: zzC14KindSave, shape: zzC14ShapeAppend, st: multiraft.PersistentState{
		HardState: zzC14HardState(1, zzC14WidenNone),
		Entries:   zzC14Entries(1, 2, 0),
	}}
}

// zzC14ReachShape records which operation shape a History path exercised.
func zzC14ReachShape(op zzC14Op, accepted bool) {
	switch op.shape {
	case zzC14ShapeAppend:
		zzsym.Reach("c14.op.save.append")
	case zzC14ShapeOverwrite:
		zzsym.Reach("c14.op.save.overwrite-conflicting-suffix")
	case zzC14ShapeHardStateOnly:
		zzsym.Reach("c14.op.save.hardstate-only")
	case zzC14ShapeSnapSameIndex:
		if accepted {
			zzsym.Reach("c14.op.snapshot.same-index.accepted")
		} else {
			zzsym.Reach("c14.op.snapshot.same-index.refused")
		}
	case zzC14ShapeSnapCompaction:
		zzsym.Reach("c14.op.snapshot.compaction")
	case zzC14ShapeSnapInstall:
		zzsym.Reach("c14.op.snapshot.install")
	case zzC14ShapeApplied:
		zzsym.Reach("c14.op.mark-applied")
	case zzC14ShapeConfigApplied:
		zzsym.Reach("c14.op.mark-config-applied")
	}
}

// zzC14Done is one performed operation of a history.
type zzC14Done struct {
	op       zzC14Op
	accepted bool
	killed   bool // a process kill + reopen happened right before it
}

// history runs n generated operations on scope 0, optionally with a process kill + reopen right
// before one of the operations listed in killBefore (0-based positions; never before the first
// operation), comparing the open store with the reference after every operation, and at the end also
// after a kill + reopen and after Close + Open.
func (w *zzC14World) history(n int, modes []int, killBefore []int) []zzC14Done {
	killAt := 0
	if len(killBefore) > 0 {
		if c := zzsym.Choice("c14.kill-before-op", len(killBefore)+1); c > 0 { // 0: never
			killAt = killBefore[c-1]
		}
	}
	var done []zzC14Done
	for i := 0; i < n; i++ {
		killed := i > 0 && i == killAt
		if killed {
			w.kill()
		}
		var op zzC14Op
		if modes[i] == zzC14ProbeMode {
			op = zzC14Probe(w.refs[0])
		} else {
			op = zzC14GenOp(w.refs[0], modes[i])
		}
		ok := w.step(0, op)
		done = append(done, zzC14Done{op: op, accepted: ok, killed: killed})
		w.assertOpen(0)
	}
	w.kill()
	w.assertAfterKill(0)
	w.reopen()
	w.assertAfterClose(0)
	return done
}

// Harness_C14_History: every history of 3 Raft-valid operations on one scope that multiraft has
// loaded (observed) before: quick: two generated operations and a probe operation, with an optional
// process kill + reopen before the probe; thorough: three generated operations with an optional
// kill + reopen before the second or the third.
func Harness_C14_History() {
	w := zzC14NewWorld(SlotScope(1))
	w.assertOpen(0) // multiraft loads a scope (InitialState, FirstIndex, ...) before it writes to it
	var done []zzC14Done
	if zzsym.Thorough() {
		done = w.history(3, []int{zzC14Normal, zzC14Normal, zzC14Normal}, []int{1, 2})
	} else {
		done = w.history(3, []int{zzC14Normal, zzC14Normal, zzC14ProbeMode}, []int{2})
	}
	for _, d := range done {
		zzC14ReachShape(d.op, d.accepted)
		if d.killed {
			zzsym.Reach("c14.kill.mid-history")
		}
	}
}

// Harness_C14_HistoryWide (thorough only): optionally the fixed two-entry prefix, then one operation
// with one widening (whole index window, commit index 0 / one too high, 3 entries, a conf-change
// entry whose application depends on the commit index, a two-byte varint term, a snapshot followed
// by an entry in the same Save, a snapshot two past the log), then a probe operation.
func Harness_C14_HistoryWide() {
	w := zzC14NewWorld(ControllerScope())
	w.assertOpen(0)
	if zzsym.Choice("c14.wide.prefix", 2) == 1 {
		w.step(0, zzC14Prefix())
	}
	done := w.history(2, []int{zzC14Wide, zzC14ProbeMode}, nil)
	if done[0].op.ccCommitted {
		zzsym.Reach("c14.wide.conf-change-committed")
	}
}

// Harness_C14_ConfChange: the log starts with a committed EntryConfChange (AddNode 3) at index 1 and a
// normal entry at index 2, so that the conf state of InitialState depends on the entries the writer
// keeps in its cached tail; then one generated operation (which may overwrite or compact the
// conf-change entry, or move the commit index below it) and one probe operation.
func Harness_C14_ConfChange() {
	w := zzC14NewWorld(SlotScope(1))
	w.assertOpen(0)
	w.step(0, zzC14Op{kind: zzC14KindSave, shape: zzC14ShapeAppend, st: multiraft.PersistentState{
		HardState: zzC14HardState(1, zzC14WidenNone),
		Entries:   zzC14Entries(1, 2, 1),
	}})
	w.assertOpen(0)
	st, _ := w.refs[0].InitialState(context.Background())
	if len(st.ConfState.Voters) == 1 {
		zzsym.Reach("c14.conf-change.applied")
	}
	w.history(2, []int{zzC14Normal, zzC14ProbeMode}, nil)
}

// Harness_C14_HighIndex: the log starts with a snapshot installed at a high index, so that entry
// keys cross a byte boundary of the big-endian index (255/256; thorough also 65535/65536) and the
// protobuf index varints are two or three bytes; then 2 operations.
func Harness_C14_HighIndex() {
	w := zzC14NewWorld(SlotScope(1))
	w.assertOpen(0)
	base := uint64(254)
	mode := zzC14Lite
	if zzsym.Thorough() {
		mode = zzC14Normal
		if zzsym.Choice("c14.high.base", 2) == 1 {
			base = 65534
		}
	}
	snap := raftpb.Snapshot{
		Data: []byte{0x7a},
		Metadata: raftpb.SnapshotMetadata{
			Index:     base,
			Term:      zzC14Small("c14.snap.term", 1),
			ConfState: raftpb.ConfState{Voters: []uint64{1, 2}},
		},
	}
	w.step(0, zzC14Op{kind: zzC14KindSnapshot, shape: zzC14ShapeSnapInstall, st: multiraft.PersistentState{Snapshot: &snap}})
	w.assertOpen(0)
	// two appended entries so that the following operations can overwrite / compact across the boundary
	w.step(0, zzC14Op{kind: zzC14KindSave, shape: zzC14ShapeAppend, st: multiraft.PersistentState{
		HardState: zzC14HardState(base, zzC14WidenNone),
		Entries:   zzC14Entries(base+1, 3, 0),
	}})
	w.assertOpen(0)
	var killBefore []int
	if zzsym.Thorough() {
		killBefore = []int{1}
	}
	w.history(2, []int{mode, mode}, killBefore)
}

// Harness_C14_FreshWrite: the first access to a scope is a write (no metadata record on disk yet:
// loadScopeWriteState derives it from the stored records), followed by one more operation.
func Harness_C14_FreshWrite() {
	w := zzC14NewWorld(SlotScope(1))
	second := zzC14Lite
	if zzsym.Thorough() {
		second = zzC14Normal
	}
	w.step(0, zzC14GenOp(w.refs[0], zzC14Normal))
	w.assertOpen(0)
	w.step(0, zzC14GenOp(w.refs[0], second))
	w.assertOpen(0)
	w.kill()
	w.assertAfterKill(0)
}

// zzC14Probe draws one of a few operations that rewrite the metadata record from the writer's
// cached state and touch the cached tail: append one entry (with hard state), overwrite the last
// entry, MarkApplied, or a compaction snapshot at the last index.
func zzC14Probe(ref *memoryStore) zzC14Op {
	_, last, snapIdx := zzC14RefBounds(ref)
	switch zzsym.Choice("c14.probe", 4) {
	case 0:
		return zzC14Op{kind: zzC14KindSave, shape: zzC14ShapeAppend, st: multiraft.PersistentState{
			HardState: zzC14HardState(last, zzC14WidenNone), Entries: zzC14Entries(last+1, 1, 0)}}
	case 1:
		if last > snapIdx {
			return zzC14Op{kind: zzC14KindSave, shape: zzC14ShapeOverwrite, st: multiraft.PersistentState{
				Entries: zzC14Entries(last, 1, 0)}}
		}
		return zzC14Op{kind: zzC14KindSave, shape: zzC14ShapeAppend, st: multiraft.PersistentState{
			Entries: zzC14Entries(last+1, 2, 0)}}
	case 2:
		return zzC14Op{kind: zzC14KindApplied, shape: zzC14ShapeApplied, index: zzsym.U64("c14.applied")}
	default:
		if last > snapIdx {
			snap := raftpb.Snapshot{
				Data: []byte{0x7a},
				Metadata: raftpb.SnapshotMetadata{
					Index:     last,
					Term:      zzC14Small("c14.snap.term", 1),
					ConfState: raftpb.ConfState{Voters: []uint64{1, 2}},
				},
			}
			return zzC14Op{kind: zzC14KindSnapshot, shape: zzC14ShapeSnapCompaction, st: multiraft.PersistentState{Snapshot: &snap}}
		}
		return zzC14Op{kind: zzC14KindConfigApplied, shape: zzC14ShapeConfigApplied, index: zzsym.U64("c14.config-applied")}
	}
}

// Harness_C14_CommitFailure: after a prefix, an operation whose Pebble commit fails (crash point
// "before the commit"): the caller gets the commit error and nothing of the operation is visible,
// neither in the same process (the writer's state cache must not keep any of it) nor after a kill +
// reopen; one more (probe) operation then behaves as on the reference. Thorough: the prefix is a
// generated operation and the failure is armed for the first or the second commit
// attempt of the flush (the second never comes: the operation then simply succeeds).
func Harness_C14_CommitFailure() {
	w := zzC14NewWorld(SlotScope(1))
	w.assertOpen(0)
	failAt := 1
	if zzsym.Thorough() {
		w.step(0, zzC14GenOp(w.refs[0], zzC14Normal))
		failAt = 1 + zzsym.Choice("c14.fail-at-commit", 2)
	} else {
		w.step(0, zzC14Prefix())
	}
	op := zzC14GenOp(w.refs[0], zzC14Normal)
	req, perr := w.request(0, op)
	zzsym.Assert((perr != nil) == op.expectPlanErr, "commit failure: Save is refused up front exactly for a same-index snapshot with a different term")
	if perr == nil {
		pebble.ZZFailCommit(zzC14Path, failAt)
		err := w.db.flushWriteRequests([]*writeRequest{req})
		fired, attempts := pebble.ZZDisarm(zzC14Path)
		zzsym.Assert(attempts == 1, "commit failure: the flush reached its single Pebble commit")
		zzsym.Assert(fired == (failAt == 1), "commit failure: the armed failure hit exactly the flush's commit")
		zzsym.Assert((err != nil) == fired, "a failed Pebble commit is reported to the caller, a successful one is not")
		if fired {
			zzsym.Assert(errors.Is(err, pebble.ErrZZInjected), "the error of a failed Pebble commit is the commit error")
			zzsym.Reach("c14.commit.failed")
		} else if err == nil {
			w.applyRef(0, op)
		}
	}
	w.assertAfterFailure(0)
	if zzsym.Choice("c14.kill-after-failure", 2) == 1 {
		// crash at the commit boundary: the state after reopening is the state before the operation
		w.kill()
		w.assertAfterFailure(0)
		zzsym.Reach("c14.commit.failed.kill")
		return
	}
	// same process: the failed write must not have leaked into the writer's state cache
	w.step(0, zzC14Probe(w.refs[0]))
	w.assertOpen(0)
	w.kill()
	w.assertAfterKill(0)
}

// Harness_C14_SharedBatch: two scopes in one database; the worker flushes one request of each
// scope in ONE Pebble batch (requests of the same scope never share a flush: Save/MarkApplied hold
// the scope mutation lock until their flush returns). Optionally that commit fails. Each scope must
// equal its own reference (both operations applied, or neither).
func Harness_C14_SharedBatch() {
	w := zzC14NewWorld(SlotScope(1), SlotScope(2))
	w.assertOpen(0)
	w.assertOpen(1)
	w.step(0, zzC14Prefix())
	w.step(1, zzC14Prefix())
	var opA, opB zzC14Op
	if zzsym.Thorough() {
		opA = zzC14GenOp(w.refs[0], zzC14Normal)
		opB = zzC14GenOp(w.refs[1], zzC14Normal)
	} else {
		opA = zzC14GenOp(w.refs[0], zzC14Lite)
		opB = zzC14Probe(w.refs[1])
	}
	reqA, errA := w.request(0, opA)
	reqB, errB := w.request(1, opB)
	zzsym.Assert(errA == nil && errB == nil, "shared batch: both operations are accepted up front (no snapshot exists yet)")
	if errA != nil || errB != nil {
		return
	}
	fail := zzsym.Choice("c14.shared.fail", 2) == 1
	k := 0
	if fail {
		k = 1
	}
	pebble.ZZFailCommit(zzC14Path, k)
	err := w.db.flushWriteRequests([]*writeRequest{reqA, reqB})
	fired, attempts := pebble.ZZDisarm(zzC14Path)
	zzsym.Assert(attempts == 1, "shared batch: requests of several scopes are one Pebble commit")
	zzsym.Assert(fired == fail, "shared batch: the injected failure hit the flush's commit")
	zzsym.Assert((err != nil) == fail, "shared batch: the flush fails exactly when its commit fails")
	if err == nil {
		w.applyRef(0, opA)
		w.applyRef(1, opB)
		zzsym.Reach("c14.shared.committed")
	} else {
		zzsym.Reach("c14.shared.failed")
	}
	w.assertOpen(0)
	w.assertOpen(1)
	w.kill()
	w.assertAfterKill(0)
	w.assertAfterKill(1)
}
