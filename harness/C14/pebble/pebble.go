// Package pebble is a VERIFICATION SHIM that stands in for github.com/cockroachdb/pebble/v2 in
// the C14 check (/verif/harness/C14). It is not Pebble: it is a minimal in-memory ordered
// key/value store exposing exactly the identifiers that the non-test files of
// github.com/WuKongIM/WuKongIM/pkg/raftlog use, with the observable semantics that package relies on:
//
//   - keys are ordered bytewise; keys and values are copied on the way in;
//   - a Batch stages Set / Delete / DeleteRange([start,end)) operations and Commit applies all of
//     them in staging order, atomically (all or nothing);
//   - DB.Set / DB.Delete are one-operation commits;
//   - Get returns (value, closer, nil) or (nil, nil, ErrNotFound);
//   - a Snapshot and an Iterator read the state that was committed when they were created;
//   - iterators honour IterOptions.LowerBound (inclusive) / UpperBound (exclusive).
//
// Durability model (the axioms of the C14 check): every commit that returned nil is durable, in
// commit order; a commit that returned an error applied nothing. Stores are registered by path, so a
// second Open of the same path (with or without a Close in between: process kill) sees exactly the
// commits that returned nil. ZZFailCommit arms the crash/fault injection.
//
// Every committed state is an immutable slice (commits build a new slice), so snapshots and
// iterators are just references to the slice that was current at creation.
package pebble

import (
	"errors"
	"io"
)

// ErrNotFound is returned by Get when the key does not exist.
var ErrNotFound = errors.New("pebble: not found")

// ErrClosed is returned by operations on a closed DB.
var ErrClosed = errors.New("pebble: closed")

// ErrZZInjected is the error returned by a commit that the harness made fail (ZZFailCommit).
var ErrZZInjected = errors.New("pebble shim: injected commit failure")

// Logger is the subset of pebble's logger interface.
type Logger interface {
	Infof(format string, args ...interface{})
	Errorf(format string, args ...interface{})
	Fatalf(format string, args ...interface{})
}

// Options is accepted for API compatibility; every field is ignored.
type Options struct {
	Logger Logger
}

// WriteOptions selects the durability of a commit. The shim treats every successful commit as
// durable, which is what Sync promises and more than NoSync promises.
type WriteOptions struct {
	Sync bool
}

// Sync and NoSync mirror pebble.Sync / pebble.NoSync.
var (
	Sync   = &WriteOptions{Sync: true}
	NoSync = &WriteOptions{Sync: false}
)

// IterOptions carries the iteration bounds.
type IterOptions struct {
	LowerBound []byte // inclusive; nil = unbounded
	UpperBound []byte // exclusive; nil = unbounded
}

type kv struct {
	key   []byte
	value []byte
}

// store is the durable content registered under one path.
type store struct {
	rows []kv // sorted by key; never mutated in place
	// commits counts the commits that were applied (returned nil).
	commits int
	// attempts counts every commit attempt (applied or failed) since the last ZZFailCommit / ZZReset.
	attempts int
	// failAt > 0: the failAt-th commit attempt from the moment of arming fails and applies nothing.
	failAt int
	// fired records that the armed failure was delivered.
	fired bool
}

var stores = map[string]*store{}

// ZZReset forgets every store (harness helper: a fresh machine).
func ZZReset() { stores = map[string]*store{} }

// ZZFailCommit arms the fault injection for the store at path: the k-th commit attempt from now
// (k >= 1) returns ErrZZInjected and applies nothing. k == 0 disarms. The attempt counter restarts.
func ZZFailCommit(path string, k int) {
	st := stores[path]
	if st == nil {
		st = &store{}
		stores[path] = st
	}
	st.failAt = k
	st.attempts = 0
	st.fired = false
}

// ZZDisarm disarms the fault injection and reports whether it fired and how many commit attempts
// (applied or failed) the store saw since it was armed.
func ZZDisarm(path string) (fired bool, attempts int) {
	st := stores[path]
	if st == nil {
		return false, 0
	}
	fired, attempts = st.fired, st.attempts
	st.failAt = 0
	st.fired = false
	st.attempts = 0
	return fired, attempts
}

// ZZCommits returns the number of commits applied to the store at path so far.
func ZZCommits(path string) int {
	st := stores[path]
	if st == nil {
		return 0
	}
	return st.commits
}

// ZZLen returns the number of keys currently committed in the store at path.
func ZZLen(path string) int {
	st := stores[path]
	if st == nil {
		return 0
	}
	return len(st.rows)
}

func compare(a, b []byte) int {
	n := len(a)
	if len(b) < n {
		n = len(b)
	}
	for i := 0; i < n; i++ {
		if a[i] < b[i] {
			return -1
		}
		if a[i] > b[i] {
			return 1
		}
	}
	if len(a) < len(b) {
		return -1
	}
	if len(a) > len(b) {
		return 1
	}
	return 0
}

func clone(b []byte) []byte {
	out := make([]byte, len(b))
	copy(out, b)
	return out
}

type opKind uint8

const (
	opSet opKind = iota
	opDelete
	opDeleteRange
)

type batchOp struct {
	kind  opKind
	key   []byte // Set/Delete: the key; DeleteRange: start (inclusive)
	value []byte // Set: the value; DeleteRange: end (exclusive)
}

func applyOp(rows []kv, op batchOp) []kv {
	out := make([]kv, 0, len(rows)+1)
	switch op.kind {
	case opSet:
		placed := false
		for _, r := range rows {
			c := compare(r.key, op.key)
			if c == 0 {
				continue
			}
			if c > 0 && !placed {
				out = append(out, kv{key: op.key, value: op.value})
				placed = true
			}
			out = append(out, r)
		}
		if !placed {
			out = append(out, kv{key: op.key, value: op.value})
		}
	case opDelete:
		for _, r := range rows {
			if compare(r.key, op.key) == 0 {
				continue
			}
			out = append(out, r)
		}
	case opDeleteRange:
		for _, r := range rows {
			if compare(r.key, op.key) >= 0 && compare(r.key, op.value) < 0 {
				continue
			}
			out = append(out, r)
		}
	}
	return out
}

// commit applies ops atomically or, when the armed failure is due, applies nothing.
func (st *store) commit(ops []batchOp) error {
	st.attempts++
	if st.failAt > 0 && st.attempts == st.failAt {
		st.fired = true
		st.failAt = 0
		return ErrZZInjected
	}
	rows := st.rows
	for _, op := range ops {
		rows = applyOp(rows, op)
	}
	st.rows = rows
	st.commits++
	return nil
}

func lookup(rows []kv, key []byte) ([]byte, bool) {
	for _, r := range rows {
		if compare(r.key, key) == 0 {
			return r.value, true
		}
	}
	return nil, false
}

type nopCloser struct{}

func (nopCloser) Close() error { return nil }

// DB is a handle on the store registered under a path.
type DB struct {
	st     *store
	closed bool
}

// Open opens (or creates) the store registered under path.
func Open(path string, opts *Options) (*DB, error) {
	_ = opts
	st := stores[path]
	if st == nil {
		st = &store{}
		stores[path] = st
	}
	return &DB{st: st}, nil
}

// Close closes the handle. Committed data stays registered under the path.
func (d *DB) Close() error {
	if d.closed {
		return ErrClosed
	}
	d.closed = true
	return nil
}

// Get returns the committed value of key. The caller must Close the returned closer.
func (d *DB) Get(key []byte) ([]byte, io.Closer, error) {
	if d.closed {
		return nil, nil, ErrClosed
	}
	v, ok := lookup(d.st.rows, key)
	if !ok {
		return nil, nil, ErrNotFound
	}
	return clone(v), nopCloser{}, nil
}

// Set commits a single key.
func (d *DB) Set(key, value []byte, opts *WriteOptions) error {
	_ = opts
	if d.closed {
		return ErrClosed
	}
	return d.st.commit([]batchOp{{kind: opSet, key: clone(key), value: clone(value)}})
}

// Delete commits a single deletion.
func (d *DB) Delete(key []byte, opts *WriteOptions) error {
	_ = opts
	if d.closed {
		return ErrClosed
	}
	return d.st.commit([]batchOp{{kind: opDelete, key: clone(key)}})
}

// DeleteRange commits the deletion of [start, end).
func (d *DB) DeleteRange(start, end []byte, opts *WriteOptions) error {
	_ = opts
	if d.closed {
		return ErrClosed
	}
	return d.st.commit([]batchOp{{kind: opDeleteRange, key: clone(start), value: clone(end)}})
}

// EstimateDiskUsage returns the number of value bytes stored in [start, end).
func (d *DB) EstimateDiskUsage(start, end []byte) (uint64, error) {
	if d.closed {
		return 0, ErrClosed
	}
	var n uint64
	for _, r := range d.st.rows {
		if compare(r.key, start) >= 0 && compare(r.key, end) < 0 {
			n += uint64(len(r.key) + len(r.value))
		}
	}
	return n, nil
}

// NewBatch returns an empty write batch.
func (d *DB) NewBatch() *Batch {
	return &Batch{db: d}
}

// NewIter returns an iterator over the state committed now.
func (d *DB) NewIter(o *IterOptions) (*Iterator, error) {
	if d.closed {
		return nil, ErrClosed
	}
	return newIter(d.st.rows, o), nil
}

// NewSnapshot returns a stable read view of the state committed now.
func (d *DB) NewSnapshot() *Snapshot {
	if d.closed {
		panic(ErrClosed)
	}
	return &Snapshot{rows: d.st.rows}
}

// Snapshot is a stable read view.
type Snapshot struct {
	rows   []kv
	closed bool
}

// Get returns the value of key in the snapshot.
func (s *Snapshot) Get(key []byte) ([]byte, io.Closer, error) {
	if s.closed {
		return nil, nil, ErrClosed
	}
	v, ok := lookup(s.rows, key)
	if !ok {
		return nil, nil, ErrNotFound
	}
	return clone(v), nopCloser{}, nil
}

// NewIter returns an iterator over the snapshot.
func (s *Snapshot) NewIter(o *IterOptions) (*Iterator, error) {
	if s.closed {
		return nil, ErrClosed
	}
	return newIter(s.rows, o), nil
}

// Close releases the snapshot.
func (s *Snapshot) Close() error {
	if s.closed {
		return ErrClosed
	}
	s.closed = true
	return nil
}

// Batch stages writes that Commit applies atomically.
type Batch struct {
	db        *DB
	ops       []batchOp
	committed bool
	closed    bool
}

// Set stages key=value.
func (b *Batch) Set(key, value []byte, opts *WriteOptions) error {
	_ = opts
	b.ops = append(b.ops, batchOp{kind: opSet, key: clone(key), value: clone(value)})
	return nil
}

// Delete stages the deletion of key.
func (b *Batch) Delete(key []byte, opts *WriteOptions) error {
	_ = opts
	b.ops = append(b.ops, batchOp{kind: opDelete, key: clone(key)})
	return nil
}

// DeleteRange stages the deletion of [start, end).
func (b *Batch) DeleteRange(start, end []byte, opts *WriteOptions) error {
	_ = opts
	b.ops = append(b.ops, batchOp{kind: opDeleteRange, key: clone(start), value: clone(end)})
	return nil
}

// Count returns the number of staged operations.
func (b *Batch) Count() uint32 { return uint32(len(b.ops)) }

// Empty reports whether nothing is staged.
func (b *Batch) Empty() bool { return len(b.ops) == 0 }

// Commit applies the staged operations atomically.
func (b *Batch) Commit(opts *WriteOptions) error {
	_ = opts
	if b.committed {
		return errors.New("pebble: batch already committed")
	}
	if b.db == nil || b.db.closed {
		return ErrClosed
	}
	if err := b.db.st.commit(b.ops); err != nil {
		return err
	}
	b.committed = true
	return nil
}

// Close releases the batch; staged but uncommitted operations are dropped.
func (b *Batch) Close() error {
	b.closed = true
	b.ops = nil
	return nil
}

// Iterator walks a committed state in key order within its bounds.
type Iterator struct {
	rows   []kv // the rows within bounds
	pos    int  // -1 before First
	closed bool
}

func newIter(rows []kv, o *IterOptions) *Iterator {
	var lower, upper []byte
	if o != nil {
		lower, upper = o.LowerBound, o.UpperBound
	}
	var in []kv
	for _, r := range rows {
		if lower != nil && compare(r.key, lower) < 0 {
			continue
		}
		if upper != nil && compare(r.key, upper) >= 0 {
			continue
		}
		in = append(in, r)
	}
	return &Iterator{rows: in, pos: -1}
}

// First positions the iterator on the first key within bounds.
func (it *Iterator) First() bool {
	it.pos = 0
	return it.Valid()
}

// Next advances the iterator.
func (it *Iterator) Next() bool {
	if it.pos < len(it.rows) {
		it.pos++
	}
	return it.Valid()
}

// Valid reports whether the iterator is positioned on a key.
func (it *Iterator) Valid() bool {
	return !it.closed && it.pos >= 0 && it.pos < len(it.rows)
}

// Key returns the current key (valid until the next positioning call).
func (it *Iterator) Key() []byte {
	if !it.Valid() {
		return nil
	}
	return clone(it.rows[it.pos].key)
}

// Value returns the current value.
func (it *Iterator) Value() []byte {
	if !it.Valid() {
		return nil
	}
	return clone(it.rows[it.pos].value)
}

// ValueAndErr returns the current value.
func (it *Iterator) ValueAndErr() ([]byte, error) {
	return it.Value(), nil
}

// Error returns the accumulated iteration error (never any in the shim).
func (it *Iterator) Error() error { return nil }

// Close releases the iterator.
func (it *Iterator) Close() error {
	it.closed = true
	return nil
}
