module github.com/cockroachdb/pebble/v2

go 1.21
