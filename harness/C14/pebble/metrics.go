package pebble

// Metrics mirrors the fields of pebble.Metrics that pkg/raftlog/metrics.go reads. The shim has no
// LSM: Metrics() returns nil, which raftlog maps to an empty MetricsSnapshot.
type Metrics struct {
	Levels   [7]LevelMetrics
	MemTable struct {
		Size  uint64
		Count int64
	}
	WAL struct {
		Files        int64
		Size         uint64
		PhysicalSize uint64
		BytesIn      uint64
		BytesWritten uint64
	}
	Flush struct {
		Count         int64
		NumInProgress int64
	}
	Compact struct {
		Count           int64
		EstimatedDebt   uint64
		InProgressBytes int64
		NumInProgress   int64
	}
}

// LevelMetrics mirrors the per-level fields raftlog reads.
type LevelMetrics struct {
	TablesSize          int64
	TableBytesFlushed   uint64
	TableBytesRead      uint64
	TableBytesCompacted uint64
}

// DiskSpaceUsage is always 0 in the shim.
func (m *Metrics) DiskSpaceUsage() uint64 { return 0 }

// ReadAmp is always 0 in the shim.
func (m *Metrics) ReadAmp() int { return 0 }

// Metrics returns nil: the shim has no storage-engine metrics.
func (d *DB) Metrics() *Metrics { return nil }
