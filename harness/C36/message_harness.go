package message

import (
	"context"

	channelmembers "github.com/WuKongIM/WuKongIM/internal/contracts/channelmembers"
	"github.com/WuKongIM/WuKongIM/internal/zzsym"
	metadb "github.com/WuKongIM/WuKongIM/pkg/db/meta"
	runtimechannelid "github.com/WuKongIM/WuKongIM/pkg/protocol/channelid"
)

// ---------------------------------------------------------------- the shared fact table

const (
	c36Sender    = "u1"
	c36Peer      = "u2"
	c36Group     = "g1"
	c36SysDevice = "sysdev"
)

// c36Chan is everything a channel read can return.
type c36Chan struct {
	err           bool
	found         bool
	ban           int64
	disband       int64
	sendBan       int64
	allowStranger int64
}

// c36Flag is everything a subscriber read can return.
type c36Flag struct {
	err   bool
	value bool
}

type c36ReadErr struct{}

func (*c36ReadErr) Error() string { return "c36: read failed" }

// c36Facts is created ONCE per execution; the per-send ports and the batched read port are both
// views of it, so both permission paths see the same facts.
type c36Facts struct {
	targetID   string // permission channel id (source id, without the command suffix)
	targetType int64
	listType   int64  // channel type the deny/allow lists are stored under
	denyID     string // deny list consulted for this send
	allowID    string // allow list consulted for this send
	subID      string // plain subscriber list (group sends)

	target, sender, receiver c36Chan
	deny, sub, hasAllow, allow c36Flag
	sysSender, sysReceiver     bool

	unexpected int // reads of keys that are not part of the scenario (harness wiring check)
}

func c36SymChan(name string) c36Chan {
	return c36Chan{
		err:           zzsym.Bool(name + ".err"),
		found:         zzsym.Bool(name + ".found"),
		ban:           zzsym.I64(name + ".ban"),
		disband:       zzsym.I64(name + ".disband"),
		sendBan:       zzsym.I64(name + ".sendban"),
		allowStranger: zzsym.I64(name + ".allowstranger"),
	}
}

func c36SymFlag(name string) c36Flag {
	return c36Flag{err: zzsym.Bool(name + ".err"), value: zzsym.Bool(name + ".value")}
}

func c36NewFacts(targetID string, targetType uint8, listKey channelmembers.ChannelKey) *c36Facts {
	return &c36Facts{
		targetID:    targetID,
		targetType:  int64(targetType),
		listType:    int64(listKey.ChannelType),
		denyID:      channelmembers.DenylistChannelID(listKey),
		allowID:     channelmembers.AllowlistChannelID(listKey),
		subID:       listKey.ChannelID,
		target:      c36SymChan("target"),
		sender:      c36SymChan("sender"),
		receiver:    c36SymChan("receiver"),
		deny:        c36SymFlag("deny"),
		sub:         c36SymFlag("subscriber"),
		hasAllow:    c36SymFlag("hasallow"),
		allow:       c36SymFlag("allow"),
		sysSender:   zzsym.Bool("sys.sender"),
		sysReceiver: zzsym.Bool("sys.receiver"),
	}
}

func (f *c36Facts) channel(id string, typ int64) *c36Chan {
	if id == f.targetID && typ == f.targetType {
		return &f.target
	}
	if typ == int64(channelTypePerson) && id == c36Sender {
		return &f.sender
	}
	if typ == int64(channelTypePerson) && id == c36Peer {
		return &f.receiver
	}
	f.unexpected++
	return nil
}

func (f *c36Facts) contains(id string, typ int64, uid string) *c36Flag {
	if uid == c36Sender && typ == f.listType {
		if id == f.denyID {
			return &f.deny
		}
		if id == f.allowID {
			return &f.allow
		}
		if id == f.subID && f.targetType == int64(channelTypeGroup) {
			return &f.sub
		}
	}
	f.unexpected++
	return nil
}

func (f *c36Facts) hasAny(id string, typ int64) *c36Flag {
	if id == f.allowID && typ == f.listType {
		return &f.hasAllow
	}
	f.unexpected++
	return nil
}

func (c *c36Chan) row(id string, typ int64) metadb.Channel {
	return metadb.Channel{ChannelID: id, ChannelType: typ, Ban: c.ban, Disband: c.disband, SendBan: c.sendBan, AllowStranger: c.allowStranger}
}

// --- SystemUIDChecker
func (f *c36Facts) IsSystemUID(uid string) bool {
	if uid == c36Sender {
		return f.sysSender
	}
	if uid == c36Peer {
		return f.sysReceiver
	}
	return false
}

// --- PermissionStore (per-send ports)
func (f *c36Facts) GetChannelForPermission(ctx context.Context, channelID string, channelType int64) (metadb.Channel, error) {
	c := f.channel(channelID, channelType)
	if c == nil {
		return metadb.Channel{}, metadb.ErrNotFound
	}
	if c.err {
		return metadb.Channel{}, &c36ReadErr{}
	}
	if !c.found {
		return metadb.Channel{}, metadb.ErrNotFound
	}
	return c.row(channelID, channelType), nil
}

func (f *c36Facts) ContainsChannelSubscriber(ctx context.Context, channelID string, channelType int64, uid string) (bool, error) {
	fl := f.contains(channelID, channelType, uid)
	if fl == nil {
		return false, nil
	}
	if fl.err {
		return false, &c36ReadErr{}
	}
	return fl.value, nil
}

func (f *c36Facts) HasChannelSubscribers(ctx context.Context, channelID string, channelType int64) (bool, error) {
	fl := f.hasAny(channelID, channelType)
	if fl == nil {
		return false, nil
	}
	if fl.err {
		return false, &c36ReadErr{}
	}
	return fl.value, nil
}

// --- PermissionBatchStore (batched read port): one aligned result per read, same facts
func (f *c36Facts) ReadPermissionsBatch(ctx context.Context, reads []PermissionRead) []PermissionReadResult {
	out := make([]PermissionReadResult, len(reads))
	for i, r := range reads {
		switch r.Kind {
		case PermissionReadChannel:
			c := f.channel(r.ChannelID, r.ChannelType)
			if c == nil {
				continue
			}
			if c.err {
				out[i].Err = &c36ReadErr{}
			} else if c.found {
				out[i].Found = true
				out[i].Channel = c.row(r.ChannelID, r.ChannelType)
			}
		case PermissionReadSubscriberContains:
			fl := f.contains(r.ChannelID, r.ChannelType, r.UID)
			if fl == nil {
				continue
			}
			if fl.err {
				out[i].Err = &c36ReadErr{}
			} else {
				out[i].Value = fl.value
			}
		case PermissionReadSubscriberHasAny:
			fl := f.hasAny(r.ChannelID, r.ChannelType)
			if fl == nil {
				continue
			}
			if fl.err {
				out[i].Err = &c36ReadErr{}
			} else {
				out[i].Value = fl.value
			}
		default:
			f.unexpected++
		}
	}
	return out
}

// ---------------------------------------------------------------- running both paths

type c36Result struct {
	reason Reason
	failed bool
}

func c36App(f *c36Facts, whitelist bool) *App {
	// PermissionCacheTTL is zero: no read-through cache, the batch port is enabled.
	return New(Options{PermissionStore: f, PermissionBatchStore: f, SystemUIDs: f, PersonWhitelistEnabled: whitelist, SystemDeviceID: c36SysDevice})
}

func c36Both(app *App, cmd SendCommand) (perSend, batch c36Result) {
	ctx := context.Background()
	_, reason, err := app.checkSendPermission(ctx, cmd)
	perSend = c36Result{reason: reason, failed: err != nil}

	items := []SendBatchItem{{Command: cmd}}
	groups := []sendBatchPermissionGroup{{representative: 0, indexes: []int{0}}}
	var outs []sendBatchPermissionOutcome
	if cmd.ChannelType == channelTypeGroup {
		outs = app.checkGroupSendPermissionsBatch(ctx, items, groups, []int{0})
	} else {
		outs = app.checkPersonSendPermissionsBatch(ctx, items, groups, []int{0})
	}
	zzsym.Assert(len(outs) == 1, "batch evaluation is not aligned with its single group")
	batch = c36Result{reason: outs[0].reason, failed: outs[0].err != nil}
	return
}

func c36Membership(r Reason) bool {
	return r == ReasonInBlacklist || r == ReasonSubscriberNotExist || r == ReasonNotInWhitelist
}

// c36Secondary: the oracles every path must satisfy on its own.
func c36Secondary(f *c36Facts, r c36Result, systemDevice bool) {
	if f.target.found && !f.target.err && f.target.disband != 0 {
		zzsym.Reach("disbanded-channel")
		zzsym.Assert(r.failed || r.reason != ReasonSuccess, "a found, disbanded channel was answered with success")
		zzsym.Assert(!c36Membership(r.reason), "a found, disbanded channel was answered with a membership-derived reason")
	}
	if f.sysSender {
		zzsym.Reach("system-sender")
		zzsym.Assert(r.failed || r.reason == ReasonSuccess || r.reason == ReasonDisband, "a system sender was rejected by a non-terminal check")
		zzsym.Assert(!r.failed || f.target.err, "a system sender failed without a failed terminal-channel read")
	} else if systemDevice {
		zzsym.Reach("system-device")
		zzsym.Assert(r.failed || r.reason == ReasonSuccess || r.reason == ReasonDisband || r.reason == ReasonSendBan, "a system device was rejected by a non-terminal check")
		zzsym.Assert(!r.failed || f.target.err || f.sender.err, "a system device failed without a failed sender/terminal read")
	}
	if r.failed {
		zzsym.Assert(r.reason == ReasonSystemError, "a read failure is not reported as ReasonSystemError")
	}
}

// ---------------------------------------------------------------- reference decision lists

func c36Terminal(f *c36Facts) c36Result {
	if f.target.err {
		return c36Result{ReasonSystemError, true}
	}
	if f.target.found && f.target.disband != 0 {
		return c36Result{ReasonDisband, false}
	}
	return c36Result{ReasonSuccess, false}
}

// c36SenderGate: first read error > sender SendBan, for senders that are not system uids.
func c36SenderGate(f *c36Facts) (c36Result, bool) {
	if f.sender.err {
		return c36Result{ReasonSystemError, true}, true
	}
	if f.sender.found && f.sender.sendBan != 0 {
		return c36Result{ReasonSendBan, false}, true
	}
	return c36Result{}, false
}

func c36RefGroup(f *c36Facts, systemDevice bool) c36Result {
	if f.sysSender {
		return c36Terminal(f)
	}
	if r, stop := c36SenderGate(f); stop {
		return r
	}
	if systemDevice {
		return c36Terminal(f)
	}
	switch {
	case f.target.err:
		return c36Result{ReasonSystemError, true}
	case !f.target.found:
		return c36Result{ReasonChannelNotExist, false}
	case f.target.ban != 0:
		return c36Result{ReasonBan, false}
	case f.target.disband != 0:
		return c36Result{ReasonDisband, false}
	case f.deny.err:
		return c36Result{ReasonSystemError, true}
	case f.deny.value:
		return c36Result{ReasonInBlacklist, false}
	case f.sub.err:
		return c36Result{ReasonSystemError, true}
	case !f.sub.value:
		return c36Result{ReasonSubscriberNotExist, false}
	case f.hasAllow.err:
		return c36Result{ReasonSystemError, true}
	case !f.hasAllow.value:
		return c36Result{ReasonSuccess, false}
	case f.allow.err:
		return c36Result{ReasonSystemError, true}
	case !f.allow.value:
		return c36Result{ReasonNotInWhitelist, false}
	}
	return c36Result{ReasonSuccess, false}
}

func c36RefPerson(f *c36Facts, systemDevice, whitelist bool) c36Result {
	if f.sysSender {
		return c36Terminal(f)
	}
	if r, stop := c36SenderGate(f); stop {
		return r
	}
	if systemDevice {
		return c36Terminal(f)
	}
	if t := c36Terminal(f); t.failed || t.reason != ReasonSuccess {
		return t
	}
	switch {
	case f.sysReceiver:
		return c36Result{ReasonSuccess, false}
	case f.deny.err:
		return c36Result{ReasonSystemError, true}
	case f.deny.value:
		return c36Result{ReasonInBlacklist, false}
	case !whitelist:
		return c36Result{ReasonSuccess, false}
	case f.allow.err:
		return c36Result{ReasonSystemError, true}
	case f.allow.value:
		return c36Result{ReasonSuccess, false}
	case f.receiver.err:
		return c36Result{ReasonSystemError, true}
	case f.receiver.found && f.receiver.allowStranger != 0:
		return c36Result{ReasonSuccess, false}
	}
	return c36Result{ReasonNotInWhitelist, false}
}

func c36ReachReason(r c36Result) {
	switch {
	case r.failed:
		zzsym.Reach("outcome-read-error")
	case r.reason == ReasonSuccess:
		zzsym.Reach("outcome-success")
	case r.reason == ReasonSendBan:
		zzsym.Reach("outcome-sendban")
	case r.reason == ReasonDisband:
		zzsym.Reach("outcome-disband")
	case r.reason == ReasonInBlacklist:
		zzsym.Reach("outcome-blacklist")
	case r.reason == ReasonNotInWhitelist:
		zzsym.Reach("outcome-whitelist")
	}
}

// ---------------------------------------------------------------- entry 1: group channels

func Harness_C36_Group() {
	commandChannel := zzsym.Choice("commandChannel", 2) == 1
	systemDevice := zzsym.Choice("systemDevice", 2) == 1
	f := c36NewFacts(c36Group, channelTypeGroup, channelmembers.ChannelKey{ChannelID: c36Group, ChannelType: channelTypeGroup})
	app := c36App(f, zzsym.Choice("whitelistEnabled", 2) == 1)

	cmd := SendCommand{FromUID: c36Sender, DeviceID: "dev1", ChannelID: c36Group, ChannelType: channelTypeGroup, ClientMsgNo: "m1", Payload: []byte("x")}
	if commandChannel {
		cmd.ChannelID = runtimechannelid.ToCommandChannel(c36Group)
	}
	if systemDevice {
		cmd.DeviceID = c36SysDevice
	}
	perSend, batch := c36Both(app, cmd)

	zzsym.Reach("group-compared")
	zzsym.Assert(f.unexpected == 0, "harness wiring: a permission read outside the scenario (group)")
	zzsym.Assert(perSend.reason == batch.reason, "group channel: per-send and batch paths return different reasons")
	zzsym.Assert(perSend.failed == batch.failed, "group channel: per-send and batch paths differ in error-ness")
	c36Secondary(f, perSend, systemDevice)
	c36Secondary(f, batch, systemDevice)
	ref := c36RefGroup(f, systemDevice)
	zzsym.Assert(perSend.reason == ref.reason && perSend.failed == ref.failed, "group channel: decision differs from the reference precedence list")
	c36ReachReason(perSend)
	if !perSend.failed {
		switch perSend.reason {
		case ReasonChannelNotExist:
			zzsym.Reach("outcome-notexist")
		case ReasonBan:
			zzsym.Reach("outcome-ban")
		case ReasonSubscriberNotExist:
			zzsym.Reach("outcome-notsubscriber")
		}
	}
	zzsym.Observe("group", uint64(perSend.reason), zzsym.B2U(perSend.failed), uint64(batch.reason), zzsym.B2U(batch.failed))
}

// ---------------------------------------------------------------- entry 2: person channels, well-formed ids

func c36PersonCommand(channelID string, normalize, commandChannel, systemDevice bool) SendCommand {
	cmd := SendCommand{FromUID: c36Sender, DeviceID: "dev1", ChannelID: channelID, ChannelType: channelTypePerson, NormalizePersonChannel: normalize, ClientMsgNo: "m1", Payload: []byte("x")}
	if commandChannel {
		cmd.ChannelID = runtimechannelid.ToCommandChannel(channelID)
	}
	if systemDevice {
		cmd.DeviceID = c36SysDevice
	}
	return cmd
}

func Harness_C36_Person() {
	canonical := runtimechannelid.EncodePersonChannel(c36Sender, c36Peer)
	reversed := c36Sender + "@" + c36Peer
	if reversed == canonical {
		reversed = c36Peer + "@" + c36Sender
	}
	normalize := zzsym.Choice("normalize", 2) == 1
	commandChannel := zzsym.Choice("commandChannel", 2) == 1
	systemDevice := zzsym.Choice("systemDevice", 2) == 1
	whitelist := zzsym.Choice("whitelistEnabled", 2) == 1

	// the id the client sent, and the channel the permission reads must address
	sent, target := canonical, canonical
	switch zzsym.Choice("idForm", 3) {
	case 1: // the two uids in the non-canonical order
		sent = reversed
		if !normalize {
			target = reversed // used as sent
		}
	case 2: // the bare peer uid: only a well-formed person target when the entry normalises it
		zzsym.Assume(normalize)
		sent = c36Peer
	}
	f := c36NewFacts(target, channelTypePerson, channelmembers.ChannelKey{ChannelID: c36Peer, ChannelType: channelTypePerson})
	app := c36App(f, whitelist)
	perSend, batch := c36Both(app, c36PersonCommand(sent, normalize, commandChannel, systemDevice))

	zzsym.Reach("person-compared")
	zzsym.Assert(f.unexpected == 0, "harness wiring: a permission read outside the scenario (person)")
	zzsym.Assert(perSend.reason == batch.reason, "person channel: per-send and batch paths return different reasons")
	zzsym.Assert(perSend.failed == batch.failed, "person channel: per-send and batch paths differ in error-ness")
	c36Secondary(f, perSend, systemDevice)
	c36Secondary(f, batch, systemDevice)
	ref := c36RefPerson(f, systemDevice, whitelist)
	zzsym.Assert(perSend.reason == ref.reason && perSend.failed == ref.failed, "person channel: decision differs from the reference precedence list")
	c36ReachReason(perSend)
	zzsym.Observe("person", uint64(perSend.reason), zzsym.B2U(perSend.failed), uint64(batch.reason), zzsym.B2U(batch.failed))
}

// ---------------------------------------------------------------- entry 3: person channels, malformed ids (candidate C36-F1)

// Harness_C36_PersonMalformed: the same differential oracle on person-channel ids that do not
// decode to exactly two non-empty uids. Recorded candidate finding C36-F1: without entry-side
// normalisation the per-send path answers from the sender / terminal reads it performs before
// decoding, the batch path reports the plan's decode error first.
func Harness_C36_PersonMalformed() {
	normalize := zzsym.Choice("normalize", 2) == 1
	commandChannel := zzsym.Choice("commandChannel", 2) == 1
	systemDevice := zzsym.Choice("systemDevice", 2) == 1
	whitelist := zzsym.Choice("whitelistEnabled", 2) == 1
	var sent string
	switch zzsym.Choice("malformed", 4) {
	case 0:
		sent = c36Sender + "@" + c36Peer + "@u3" // three parts
	case 1:
		sent = c36Sender + "@" // empty right part
	case 2:
		sent = "@" + c36Peer // empty left part
	default:
		zzsym.Assume(!normalize) // a bare uid is well-formed for a normalising entry
		sent = c36Peer
	}
	f := c36NewFacts(sent, channelTypePerson, channelmembers.ChannelKey{ChannelID: c36Peer, ChannelType: channelTypePerson})
	app := c36App(f, whitelist)
	perSend, batch := c36Both(app, c36PersonCommand(sent, normalize, commandChannel, systemDevice))

	zzsym.Reach("malformed-compared")
	if normalize {
		zzsym.Reach("malformed-normalising-entry")
		zzsym.Assert(perSend.failed && batch.failed, "a malformed person id passed a normalising entry")
	}
	malformed := true // every id of this entry is malformed: the pattern of C36-F1
	zzsym.AssertKnown(perSend.reason == batch.reason, "malformed person id: per-send and batch paths return different reasons", "C36-F1", malformed)
	zzsym.AssertKnown(perSend.failed == batch.failed, "malformed person id: per-send and batch paths differ in error-ness", "C36-F1", malformed)
	zzsym.Assert(f.unexpected == 0, "harness wiring: a permission read outside the scenario (malformed)")
	zzsym.Observe("malformed", uint64(perSend.reason), zzsym.B2U(perSend.failed), uint64(batch.reason), zzsym.B2U(batch.failed))
}
