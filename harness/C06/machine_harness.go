package machine

import (
	"errors"

	"github.com/WuKongIM/WuKongIM/internal/zzsym"
	ch "github.com/WuKongIM/WuKongIM/pkg/channel"
)

// C06 — one inductive step of the channel runtime state machine.
//
// Every entry builds an arbitrary ChannelState directly through its fields (shapes chosen by
// zzsym.Choice, every scalar symbolic), assumes the invariant c06Inv, applies ONE real transition
// and asserts c06Inv plus the step properties of the statement. Node ids and op ids used as map
// keys come from the concrete domains 1..c06MaxNode / 1..c06MaxOp.

const (
	c06MaxNode = 4
	c06MaxOp   = 4
	c06Local   = ch.NodeID(1)
	c06Key     = ch.ChannelKey("k")
)

// ---------------------------------------------------------------- symbolic construction

func c06Record(first bool) ch.Record {
	r := ch.Record{
		ID:                zzsym.U64("rec.id"),
		Index:             zzsym.U64("rec.index"),
		Epoch:             zzsym.U64("rec.epoch"),
		Setting:           zzsym.U8("rec.setting"),
		ServerTimestampMS: zzsym.I64("rec.ts"),
		SyncOnce:          zzsym.Bool("rec.synconce"),
		SizeBytes:         int(zzsym.U16("rec.size")),
	}
	if zzsym.Thorough() && first {
		// thorough: the first record of every list carries a one-byte payload, the others none
		r.Payload = zzsym.Bytes("rec.payload.b", 1)
	}
	return r
}

func c06Records(n int) []ch.Record {
	out := make([]ch.Record, n)
	for i := range out {
		out[i] = c06Record(i == 0)
	}
	return out
}

// c06Shape says which shape dimensions an entry enumerates. Shapes (map key sets, slice lengths,
// pointer nil-ness) are concrete on every path, so each entry enumerates the dimensions its
// transition depends on and fixes the others to one representative shape with symbolic contents.
type c06Shape struct {
	id       bool // enumerate "channel id known / not yet known" (else known)
	isr      bool // enumerate the ISR node set (else {1,2})
	progress bool // enumerate which nodes have recorded progress (else all of 1..3)
	pend     int  // c06Full, c06Few, c06Tiny (raised one level in the thorough tier)
	oneRec   bool // pending waiters have exactly one record (quick only)
	noBatch  bool // never an in-flight batch
}

const (
	c06Tiny = 0 // 0..1 pending waiters (op 1, 1..2 records); in-flight: none or one waiter (op 1 or op 3)
	c06Few  = 1 // 0..2 pending waiters; in-flight: none or one waiter (op 1 or op 3)
	c06Full = 2 // 0..2 pending waiters; in-flight: none or 1..2 distinct waiters over ops 1..3
)

func c06Waiter(op int, nRecords int) *AppendWaiter {
	w := &AppendWaiter{
		OpID:              ch.OpID(zzsym.U64("waiter.opid")),
		Target:            zzsym.U64("waiter.target"),
		CommitMode:        ch.CommitMode(zzsym.U8("waiter.mode")),
		OmitResultPayload: op == 2, // concrete: a symbolic flag only forks once per answered waiter
		Records:           c06Records(nRecords),
	}
	return w
}

// c06PendingPart builds PendingAppends / PendingAppendOrder / InflightAppend. Up to renaming of op
// ids every INV-satisfying shape within the bound is generated: the pending ops are {1..n} (n<=2)
// in either order, op 1 has 1..2 records and op 2 one (1..2 in thorough); op 3 is never pending, so
// it is a cancelled waiter when it occurs in the in-flight batch; a pending waiter of the batch has
// exactly its segment's record count. The value part of INV is then imposed with Assume.
func c06PendingPart(s *ChannelState, level int, noBatch, oneRec bool) {
	maxPending := 2
	if level == c06Tiny {
		maxPending = 1
	}
	np := zzsym.Choice("pending.n", maxPending+1)
	switch np {
	case 1:
		s.PendingAppendOrder = []ch.OpID{1}
	case 2:
		if zzsym.Choice("order.swap", 2) == 1 {
			s.PendingAppendOrder = []ch.OpID{2, 1}
		} else {
			s.PendingAppendOrder = []ch.OpID{1, 2}
		}
	}
	for op := 1; op <= np; op++ {
		n := 1
		if (op == 1 && !oneRec) || zzsym.Thorough() {
			n = 1 + zzsym.Choice("waiter.records", 2)
		}
		s.PendingAppends[ch.OpID(op)] = c06Waiter(op, n)
	}
	zzsym.Assume(c06InvPending(s))
	if !noBatch && zzsym.Choice("inflight.present", 2) == 1 {
		op := &AppendOp{OpID: ch.OpID(zzsym.U64("inflight.opid"))}
		nW := 1
		if level == c06Full {
			nW = 1 + zzsym.Choice("inflight.waiters", 2)
		}
		total := 0
		for i := 0; i < nW; i++ {
			var id ch.OpID
			if level == c06Full {
				id = ch.OpID(1 + zzsym.Choice("inflight.waiter.op", 3))
			} else if np == 0 {
				id = 3 // nothing pending: the single waiter of the batch was cancelled
			} else {
				id = ch.OpID(1 + 2*zzsym.Choice("inflight.waiter.op", 2)) // pending op 1 or cancelled op 3
			}
			c := 2 - i // cancelled waiter: 2 records for the first segment, 1 for the second
			if w, has := s.PendingAppends[id]; has {
				c = len(w.Records)
			} else if zzsym.Thorough() {
				c = 1 + zzsym.Choice("inflight.waiter.count", 2)
			}
			op.WaiterOpIDs = append(op.WaiterOpIDs, id)
			op.WaiterRecordCounts = append(op.WaiterRecordCounts, c)
			total += c
		}
		s.InflightAppend = op
		zzsym.Assume(c06InvInflightShape(s))
		op.Records = c06Records(total)
		// ApplyAppendStored/ApplyQuorumCommitted fill in a zero record epoch with a branch per
		// record: quick keeps exactly the first record's epoch zero (no fork), thorough leaves the
		// first two symbolic
		for i := range op.Records {
			if !zzsym.Thorough() {
				zzsym.Assume((op.Records[i].Epoch == 0) == (i == 0))
			} else if i >= 2 {
				zzsym.Assume(op.Records[i].Epoch != 0)
			}
		}
	}
	zzsym.Assume(c06InvInflight(s))
}

func c06State(shape c06Shape) *ChannelState {
	s := NewChannelState(c06Key, c06Local, zzsym.U64("gen"))
	level := shape.pend
	if zzsym.Thorough() && level < c06Full {
		level++
	}
	c06PendingPart(s, level, shape.noBatch, shape.oneRec)

	if !shape.id || zzsym.Choice("id.set", 2) == 1 {
		s.ID = ch.ChannelID{ID: "c", Type: zzsym.U8("id.type")}
	}
	s.Epoch = zzsym.U64("epoch")
	s.LeaderEpoch = zzsym.U64("leaderepoch")
	s.Role = ch.Role(zzsym.U8("role"))
	s.Status = ch.Status(zzsym.U8("status"))
	s.Leader = ch.NodeID(zzsym.U64("leader"))
	s.CommitReady = zzsym.Bool("commitready")
	s.LEO = zzsym.U64("leo")
	s.HW = zzsym.U64("hw")
	s.CheckpointHW = zzsym.U64("checkpointhw")
	s.RetentionThroughSeq = zzsym.U64("retention")
	s.LocalRetentionThroughSeq = zzsym.U64("localretention")
	s.PhysicalRetentionThroughSeq = zzsym.U64("physicalretention")
	s.WriteFence = ch.WriteFence{Version: zzsym.U64("wf.version"), Reason: ch.WriteFenceReason(zzsym.U8("wf.reason"))}
	s.MinISR = zzsym.Int("minisr")

	// Replicas is only used for membership tests: {1,2} makes node 1 (local) and 2 replicas and
	// nodes 3,4 non-replicas (node 3 may still be listed in the ISR).
	s.Replicas = []ch.NodeID{1, 2}

	if shape.isr {
		if zzsym.Thorough() {
			// every subset of nodes 1..3, and two lists with a repeated node
			s.ISR = [][]ch.NodeID{nil, {1}, {2}, {3}, {1, 2}, {1, 3}, {2, 3}, {1, 2, 3}, {2, 2}, {2, 1, 2}}[zzsym.Choice("isr.set", 10)]
		} else {
			// every subset of nodes 1..3 up to swapping the two non-local nodes, node 2 preferred
			s.ISR = [][]ch.NodeID{nil, {1}, {2}, {1, 2}, {2, 3}, {1, 2, 3}}[zzsym.Choice("isr.set", 6)]
		}
	} else {
		s.ISR = []ch.NodeID{1, 2}
	}

	pm := 7
	if shape.progress {
		if zzsym.Thorough() {
			pm = []int{0, 1, 6, 7}[zzsym.Choice("progress.sel", 4)]
		} else {
			pm = 7 * zzsym.Choice("progress.all", 2)
		}
	}
	for n := 1; n <= 3; n++ {
		if pm&(1<<(n-1)) != 0 {
			s.Progress[ch.NodeID(n)] = ReplicaProgress{Match: zzsym.U64("progress.match")}
		}
	}
	zzsym.Assume(c06Inv(s))
	return s
}

// ---------------------------------------------------------------- the invariant

func c06OrderCount(s *ChannelState, op ch.OpID) int {
	n := 0
	for _, o := range s.PendingAppendOrder {
		if o == op {
			n++
		}
	}
	return n
}

// c06InvPending: the pending order is duplicate-free and equals the key set; every waiter is
// stored under its own op id, has a normalised commit mode, at least one record, and once its
// offsets were assigned (Target != 0) Target is the index of its last record and the record
// indexes are contiguous.
func c06InvPending(s *ChannelState) bool {
	ok := true
	np := 0
	for i := 1; i <= c06MaxOp; i++ {
		op := ch.OpID(i)
		w, has := s.PendingAppends[op]
		if !has {
			if c06OrderCount(s, op) != 0 {
				return false
			}
			continue
		}
		np++
		if w == nil || c06OrderCount(s, op) != 1 || len(w.Records) == 0 {
			return false
		}
		ok = ok && w.OpID == op && w.CommitMode != 0
		n := uint64(len(w.Records))
		assigned := w.Target >= n-1
		for j := range w.Records {
			assigned = assigned && w.Records[j].Index == w.Target-(n-1-uint64(j))
		}
		ok = ok && (w.Target == 0 || assigned)
	}
	return ok && np == len(s.PendingAppends) && np == len(s.PendingAppendOrder)
}

// c06InvInflightShape: an in-flight batch has distinct waiter ids, one positive record count per
// waiter.
func c06InvInflightShape(s *ChannelState) bool {
	op := s.InflightAppend
	if op == nil {
		return true
	}
	if len(op.WaiterOpIDs) == 0 || len(op.WaiterOpIDs) != len(op.WaiterRecordCounts) {
		return false
	}
	for i := range op.WaiterOpIDs {
		if op.WaiterRecordCounts[i] <= 0 {
			return false
		}
		if op.WaiterOpIDs[i] < 1 || op.WaiterOpIDs[i] > c06MaxOp {
			return false
		}
		for j := 0; j < i; j++ {
			if op.WaiterOpIDs[i] == op.WaiterOpIDs[j] {
				return false
			}
		}
	}
	return true
}

// c06InvInflight: the flattened record list is the concatenation of the per-waiter segments, and a
// waiter of the batch is either still pending (with exactly its segment's record count) or was
// cancelled (absent).
func c06InvInflight(s *ChannelState) bool {
	op := s.InflightAppend
	if op == nil {
		return true
	}
	if !c06InvInflightShape(s) {
		return false
	}
	total := 0
	for i, id := range op.WaiterOpIDs {
		total += op.WaiterRecordCounts[i]
		if w, has := s.PendingAppends[id]; has {
			if w == nil || len(w.Records) != op.WaiterRecordCounts[i] {
				return false
			}
		}
	}
	return total == len(op.Records)
}

// c06Inv is INV. MinISR in [1,|ISR|] is what ApplyMeta establishes; the freshly constructed state
// has MinISR == 0 and no ISR, so the inductive invariant is 0 <= MinISR <= |ISR|.
func c06Inv(s *ChannelState) bool {
	if !c06InvPending(s) || !c06InvInflight(s) {
		return false
	}
	ok := s.CheckInvariants() == nil
	ok = ok && s.CheckpointHW <= s.HW && s.HW <= s.LEO
	ok = ok && s.MinISR >= 0 && s.MinISR <= len(s.ISR)
	cnt := 0
	for n := 1; n <= c06MaxNode; n++ {
		if p, has := s.Progress[ch.NodeID(n)]; has {
			cnt++
			ok = ok && p.Match <= s.LEO
		}
	}
	return ok && cnt == len(s.Progress)
}

// ---------------------------------------------------------------- snapshot / equality

func c06CloneRecords(in []ch.Record) []ch.Record {
	if in == nil {
		return nil
	}
	out := make([]ch.Record, len(in))
	for i := range in {
		out[i] = in[i]
		if in[i].Payload != nil {
			out[i].Payload = append([]byte{}, in[i].Payload...)
		}
	}
	return out
}

func c06Clone(s *ChannelState) *ChannelState {
	c := *s
	c.Replicas = append([]ch.NodeID(nil), s.Replicas...)
	c.ISR = append([]ch.NodeID(nil), s.ISR...)
	c.PendingAppendOrder = append([]ch.OpID(nil), s.PendingAppendOrder...)
	c.Progress = make(map[ch.NodeID]ReplicaProgress)
	for n := 1; n <= c06MaxNode; n++ {
		if p, has := s.Progress[ch.NodeID(n)]; has {
			c.Progress[ch.NodeID(n)] = p
		}
	}
	c.PendingAppends = make(map[ch.OpID]*AppendWaiter)
	for i := 1; i <= c06MaxOp; i++ {
		if w, has := s.PendingAppends[ch.OpID(i)]; has && w != nil {
			cw := *w
			cw.Records = c06CloneRecords(w.Records)
			c.PendingAppends[ch.OpID(i)] = &cw
		}
	}
	if s.InflightAppend != nil {
		op := *s.InflightAppend
		op.Records = c06CloneRecords(s.InflightAppend.Records)
		op.WaiterOpIDs = append([]ch.OpID(nil), s.InflightAppend.WaiterOpIDs...)
		op.WaiterRecordCounts = append([]int(nil), s.InflightAppend.WaiterRecordCounts...)
		c.InflightAppend = &op
	}
	return &c
}

func c06SameRecords(a, b []ch.Record) bool {
	if len(a) != len(b) {
		return false
	}
	ok := true
	for i := range a {
		x, y := a[i], b[i]
		if len(x.Payload) != len(y.Payload) {
			return false
		}
		ok = ok && x.ID == y.ID && x.Index == y.Index && x.Epoch == y.Epoch && x.Setting == y.Setting &&
			x.FromUID == y.FromUID && x.ClientMsgNo == y.ClientMsgNo && x.ServerTimestampMS == y.ServerTimestampMS &&
			x.SyncOnce == y.SyncOnce && x.SizeBytes == y.SizeBytes
		for j := range x.Payload {
			ok = ok && x.Payload[j] == y.Payload[j]
		}
	}
	return ok
}

// c06Same reports whether two states are equal in every field (deep).
func c06Same(a, b *ChannelState) bool {
	if len(a.Replicas) != len(b.Replicas) || len(a.ISR) != len(b.ISR) ||
		len(a.PendingAppendOrder) != len(b.PendingAppendOrder) ||
		len(a.Progress) != len(b.Progress) || len(a.PendingAppends) != len(b.PendingAppends) ||
		(a.InflightAppend == nil) != (b.InflightAppend == nil) {
		return false
	}
	ok := a.Key == b.Key && a.LocalNode == b.LocalNode && a.Generation == b.Generation &&
		a.ID.ID == b.ID.ID && a.ID.Type == b.ID.Type &&
		a.Epoch == b.Epoch && a.LeaderEpoch == b.LeaderEpoch && a.Role == b.Role && a.Status == b.Status &&
		a.Leader == b.Leader && a.MinISR == b.MinISR && a.LeaseUntil == b.LeaseUntil &&
		a.LEO == b.LEO && a.HW == b.HW && a.CheckpointHW == b.CheckpointHW &&
		a.RetentionThroughSeq == b.RetentionThroughSeq &&
		a.WriteFence.Token == b.WriteFence.Token && a.WriteFence.Version == b.WriteFence.Version &&
		a.WriteFence.Reason == b.WriteFence.Reason && a.WriteFence.Until == b.WriteFence.Until &&
		a.LocalRetentionThroughSeq == b.LocalRetentionThroughSeq &&
		a.PhysicalRetentionThroughSeq == b.PhysicalRetentionThroughSeq && a.CommitReady == b.CommitReady
	for i := range a.Replicas {
		ok = ok && a.Replicas[i] == b.Replicas[i]
	}
	for i := range a.ISR {
		ok = ok && a.ISR[i] == b.ISR[i]
	}
	for i := range a.PendingAppendOrder {
		ok = ok && a.PendingAppendOrder[i] == b.PendingAppendOrder[i]
	}
	for n := 1; n <= c06MaxNode; n++ {
		pa, ha := a.Progress[ch.NodeID(n)]
		pb, hb := b.Progress[ch.NodeID(n)]
		if ha != hb {
			return false
		}
		ok = ok && pa.Match == pb.Match
	}
	for i := 1; i <= c06MaxOp; i++ {
		wa, ha := a.PendingAppends[ch.OpID(i)]
		wb, hb := b.PendingAppends[ch.OpID(i)]
		if ha != hb || (wa == nil) != (wb == nil) {
			return false
		}
		if wa == nil {
			continue
		}
		ok = ok && wa.OpID == wb.OpID && wa.Target == wb.Target && wa.CommitMode == wb.CommitMode &&
			wa.OmitResultPayload == wb.OmitResultPayload && c06SameRecords(wa.Records, wb.Records)
	}
	if a.InflightAppend != nil {
		x, y := a.InflightAppend, b.InflightAppend
		if len(x.WaiterOpIDs) != len(y.WaiterOpIDs) || len(x.WaiterRecordCounts) != len(y.WaiterRecordCounts) {
			return false
		}
		ok = ok && x.OpID == y.OpID && c06SameRecords(x.Records, y.Records)
		for i := range x.WaiterOpIDs {
			ok = ok && x.WaiterOpIDs[i] == y.WaiterOpIDs[i]
		}
		for i := range x.WaiterRecordCounts {
			ok = ok && x.WaiterRecordCounts[i] == y.WaiterRecordCounts[i]
		}
	}
	return ok
}

func c06EmptyDecision(d Decision) bool {
	return d.Err == nil && len(d.Tasks) == 0 && len(d.Replies) == 0 && len(d.Signals) == 0
}

func c06SameFence(a, b *ChannelState) bool {
	return a.Key == b.Key && a.Generation == b.Generation && a.Epoch == b.Epoch && a.LeaderEpoch == b.LeaderEpoch
}

// ---------------------------------------------------------------- step properties

// c06Post asserts what must hold after every transition; it reports whether a success reply to a
// quorum-mode waiter was seen (the entries that can produce one require that witness).
func c06Post(pre, s *ChannelState, d Decision) (quorumSuccess bool) {
	zzsym.Assert(c06Inv(s), "INV does not hold after the step")
	zzsym.Assert(s.CheckpointHW <= s.HW && s.HW <= s.LEO, "CheckpointHW <= HW <= LEO broken after the step")
	zzsym.Assert(!c06SameFence(pre, s) || s.HW >= pre.HW, "HW decreased within one metadata fence")
	for i, r := range d.Replies {
		zzsym.Assert(r.Kind == ReplyKindAppend, "reply kind is not an append reply")
		was, had := pre.PendingAppends[r.OpID]
		zzsym.Assert(had && was != nil, "replied op id was not pending before the step")
		_, still := s.PendingAppends[r.OpID]
		zzsym.Assert(!still && c06OrderCount(s, r.OpID) == 0, "replied op id is still pending after the step")
		for j := 0; j < i; j++ {
			zzsym.Assert(d.Replies[j].OpID != r.OpID, "one op id answered twice in one decision")
		}
		if r.Err != nil || !had || was == nil {
			continue
		}
		zzsym.Assert(len(r.AppendItems) >= 1, "success reply without items")
		// no branch on the (symbolic) commit mode: an implication keeps one path per reply
		quorum := was.CommitMode == ch.CommitModeQuorum
		quorumSuccess = quorumSuccess || quorum
		covered := s.HW >= r.Append.MessageSeq
		for _, it := range r.AppendItems {
			covered = covered && s.HW >= it.MessageSeq
		}
		zzsym.Assert(!quorum || covered, "quorum-mode waiter answered successfully before HW covers every sequence of its reply")
		if len(r.AppendItems) >= 1 {
			zzsym.Assert(!quorum || s.HW >= r.AppendItems[len(r.AppendItems)-1].MessageSeq, "quorum-mode success reply: HW below last sequence of the reply")
		}
	}
	zzsym.Observe("post", s.LEO, s.HW, s.CheckpointHW, uint64(len(d.Replies)), uint64(len(s.PendingAppends)), zzsym.B2U(s.InflightAppend != nil))
	return quorumSuccess
}

func c06FenceMatches(s *ChannelState, f ch.Fence) bool {
	return f.ChannelKey == s.Key && f.Generation == s.Generation && f.Epoch == s.Epoch &&
		f.LeaderEpoch == s.LeaderEpoch && s.InflightAppend != nil && s.InflightAppend.OpID == f.OpID
}

func c06Fence() ch.Fence {
	f := ch.Fence{
		Generation:  zzsym.U64("fence.gen"),
		Epoch:       zzsym.U64("fence.epoch"),
		LeaderEpoch: zzsym.U64("fence.leaderepoch"),
		OpID:        ch.OpID(zzsym.U64("fence.opid")),
	}
	f.ChannelKey = ch.ChannelKey(zzsym.String("fence.key.s", 1))
	if zzsym.Thorough() && zzsym.Choice("fence.key.empty", 2) == 1 {
		f.ChannelKey = ""
	}
	return f
}

// ---------------------------------------------------------------- entries

// Harness_C06_Init: the induction base. A freshly constructed state satisfies INV.
func Harness_C06_Init() {
	s := NewChannelState(ch.ChannelKey(zzsym.String("key", 1)), ch.NodeID(zzsym.U64("local")), zzsym.U64("gen"))
	zzsym.Reach("init")
	zzsym.Assert(c06Inv(s), "NewChannelState does not satisfy INV")
	zzsym.Assert(s.InflightAppend == nil && len(s.PendingAppends) == 0 && s.HW == 0 && s.LEO == 0, "NewChannelState is not empty")
	zzsym.Observe("init", s.LEO, s.HW, s.Generation)
}

// Harness_C06_ApplyMeta: metadata apply; older (epoch, leader epoch) pairs and same-fence leader
// switches are rejected with ErrStaleMeta and change nothing.
func Harness_C06_ApplyMeta() {
	s := c06State(c06Shape{id: true, pend: c06Tiny, oneRec: true})
	pre := c06Clone(s)
	meta := ch.Meta{
		Epoch:               zzsym.U64("meta.epoch"),
		LeaderEpoch:         zzsym.U64("meta.leaderepoch"),
		RouteGeneration:     zzsym.U64("meta.routegen"),
		Leader:              ch.NodeID(zzsym.U64("meta.leader")),
		MinISR:              zzsym.Int("meta.minisr"),
		Status:              ch.Status(zzsym.U8("meta.status")),
		WriteFence:          ch.WriteFence{Version: zzsym.U64("meta.wf.version")},
		Replicas:            []ch.NodeID{ch.NodeID(zzsym.U64("meta.replica"))},
	}
	if zzsym.Thorough() {
		meta.RetentionThroughSeq = zzsym.U64("meta.retention") // forks in ApplyMeta; not a C06 observable
	}
	kind := zzsym.Choice("meta.key+id", 4)
	if kind&1 != 0 {
		meta.Key = ch.ChannelKey(zzsym.String("meta.key.s", 1)) // equal to the state's key or not
	}
	if kind&2 != 0 {
		meta.ID = ch.ChannelID{ID: zzsym.String("meta.id.s", 1), Type: zzsym.U8("meta.id.type")} // equal to the state's id or not
	}
	// ISR lists of length 0 (always invalid MinISR) and 2 (3 in thorough) with a symbolic MinISR
	nISR := 2 * zzsym.Choice("meta.isr.len", 2)
	if zzsym.Thorough() && nISR > 0 {
		nISR = 1 + zzsym.Choice("meta.isr.len.more", 3)
	}
	for i := 0; i < nISR; i++ {
		meta.ISR = append(meta.ISR, ch.NodeID(zzsym.U64("meta.isr")))
	}
	older := meta.Epoch < pre.Epoch || (meta.Epoch == pre.Epoch && meta.LeaderEpoch < pre.LeaderEpoch)
	leaderSwitch := meta.Epoch == pre.Epoch && meta.LeaderEpoch == pre.LeaderEpoch && meta.Leader != pre.Leader

	d := s.ApplyMeta(meta)

	c06Post(pre, s, d)
	stale := d.Err != nil && errors.Is(d.Err, ch.ErrStaleMeta)
	zzsym.Assert(!older || stale, "metadata with an older (epoch, leader epoch) was not rejected with ErrStaleMeta")
	zzsym.Assert(!leaderSwitch || stale, "same-fence leader switch was not rejected with ErrStaleMeta")
	zzsym.Assert(!(older || leaderSwitch) || c06Same(pre, s), "rejected metadata (older fence or same-fence leader switch) changed the state")
	zzsym.Assert(!(older || leaderSwitch) || (len(d.Tasks) == 0 && len(d.Replies) == 0 && len(d.Signals) == 0), "rejected metadata produced effects")
	zzsym.Observe("meta", zzsym.B2U(d.Err != nil), zzsym.B2U(older), zzsym.B2U(leaderSwitch))
	if d.Err != nil {
		zzsym.Reach("meta: rejected")
		if stale && kind == 0 && pre.ID.ID == "" {
			// key and id cannot be the reason: the rejection is one of the two fence rules
			if older {
				zzsym.Reach("meta: older fence")
			} else {
				zzsym.Reach("meta: same-fence leader switch")
				zzsym.Assert(leaderSwitch, "ErrStaleMeta without a reason")
			}
		}
		return
	}
	zzsym.Reach("meta: accepted")
	zzsym.Assert(s.Epoch > pre.Epoch || (s.Epoch == pre.Epoch && s.LeaderEpoch >= pre.LeaderEpoch), "fence moved backwards")
	zzsym.Assert(s.MinISR >= 1 && s.MinISR <= len(s.ISR), "accepted metadata left MinISR outside [1,|ISR|]")
	if s.InflightAppend != nil || len(s.PendingAppends) > 0 {
		zzsym.Reach("meta: append state kept")
	} else if pre.InflightAppend != nil || len(pre.PendingAppends) > 0 {
		zzsym.Reach("meta: append state cleared")
	}
}

// c06AfterPropose: an accepted proposal registers every waiter under an op id that was not
// pending, with the commit mode it asked for (0 means quorum).
func c06AfterPropose(pre, s *ChannelState, d Decision, waiters []AppendBatchWaiter) {
	c06Post(pre, s, d)
	zzsym.Observe("propose", zzsym.B2U(d.Err != nil), uint64(len(d.Tasks)))
	if d.Err != nil || len(d.Tasks) == 0 {
		zzsym.Reach("propose: refused or empty")
		return
	}
	zzsym.Reach("propose: accepted")
	for _, w := range waiters {
		_, was := pre.PendingAppends[w.OpID]
		got := s.PendingAppends[w.OpID]
		zzsym.Assert(!was, "accepted proposal reused a pending op id")
		zzsym.Assert(got != nil, "accepted proposal did not register its waiter")
		if got == nil {
			continue
		}
		asked := w.CommitMode
		zzsym.Assert((asked != 0 && asked != ch.CommitModeQuorum) || got.CommitMode == ch.CommitModeQuorum, "quorum-mode proposal not registered as quorum-mode waiter")
		zzsym.Assert(asked == 0 || got.CommitMode == asked, "commit mode changed by the proposal")
	}
}

// Harness_C06_ProposeAppend: single append proposal (op 3 and 4 are never pending).
func Harness_C06_ProposeAppend() {
	s := c06State(c06Shape{pend: c06Few})
	pre := c06Clone(s)
	cmd := AppendCommand{
		OpID:       ch.OpID(1 + zzsym.Choice("cmd.op", 3)),
		CommitMode: ch.CommitMode(zzsym.U8("cmd.mode")),
		Records:    c06Records(zzsym.Choice("cmd.records", 3)),
	}
	d := s.ProposeAppend(cmd)
	c06AfterPropose(pre, s, d, []AppendBatchWaiter{{OpID: cmd.OpID, CommitMode: cmd.CommitMode, Records: cmd.Records}})
}

// Harness_C06_ProposeAppendBatch: batched proposal of 0..2 waiters (duplicate, pending and fresh
// ids; empty record lists). The role/status/readiness guards are the ones ProposeAppend runs
// through (ProposeAppend delegates to ProposeAppendBatch), so this entry fixes them to "passes".
func Harness_C06_ProposeAppendBatch() {
	s := c06State(c06Shape{pend: c06Tiny})
	zzsym.Assume(s.Role == ch.RoleLeader && s.CommitReady && s.Status != ch.StatusDeleted && s.Status != ch.StatusDeleting)
	pre := c06Clone(s)
	cmd := AppendBatchCommand{BatchOpID: ch.OpID(zzsym.U64("cmd.batch"))}
	n := zzsym.Choice("cmd.waiters", 3)
	for i := 0; i < n; i++ {
		nr := 0
		if i == 0 || zzsym.Thorough() {
			nr = zzsym.Choice("cmd.records", 3)
		} else {
			nr = 1 + zzsym.Choice("cmd.records.more", 2)
		}
		cmd.Waiters = append(cmd.Waiters, AppendBatchWaiter{
			OpID:                      ch.OpID([]int{1, 3, 4}[zzsym.Choice("cmd.op", 3)]), // 1 may be pending, 3 and 4 never are
			CommitMode:                ch.CommitMode(zzsym.U8("cmd.mode")),
			OmitResultPayload:         zzsym.Bool("cmd.omit"),
			Records:                   c06Records(nr),
			ServerAllocatedMessageIDs: zzsym.Bool("cmd.serverids"),
		})
	}
	d := s.ProposeAppendBatch(cmd)
	c06AfterPropose(pre, s, d, cmd.Waiters)
}

func c06StoredResult(s *ChannelState) AppendStoredResult {
	res := AppendStoredResult{Fence: c06Fence(), BaseOffset: zzsym.U64("res.base"), LastOffset: zzsym.U64("res.last"), Outcome: ch.AppendOutcome(zzsym.U8("res.outcome"))}
	if zzsym.Choice("res.err", 2) == 1 {
		res.Err = errors.New("c06: store append failed")
	}
	if s.InflightAppend != nil {
		// the store reports the range it wrote: Last = Base+n-1 without wrap-around
		n := uint64(len(s.InflightAppend.Records))
		zzsym.Assume(res.LastOffset == res.BaseOffset+n-1 && res.LastOffset >= res.BaseOffset)
	}
	return res
}

func c06AfterStored(pre, s *ChannelState, d Decision, res AppendStoredResult) {
	matches := c06FenceMatches(pre, res.Fence)
	quorumSuccess := c06Post(pre, s, d)
	zzsym.Assert(matches || c06EmptyDecision(d), "a stored result with a stale fence produced a decision")
	zzsym.Assert(matches || c06Same(pre, s), "a stored result with a stale fence changed the state")
	zzsym.Observe("stored", zzsym.B2U(matches), zzsym.B2U(res.Err != nil))
	if !matches {
		zzsym.Reach("stored: stale fence")
		return
	}
	zzsym.Reach("stored: matching fence")
	if res.Err != nil {
		zzsym.Reach("stored: error")
	}
	if quorumSuccess {
		zzsym.Reach("stored: success reply to a quorum-mode waiter")
	}
}

// Harness_C06_ApplyAppendStored_HW: durable append completion against every ISR / progress shape
// (the high-watermark computation), with the small pending shapes.
func Harness_C06_ApplyAppendStored_HW() {
	s := c06State(c06Shape{isr: true, progress: true, pend: c06Tiny, oneRec: true})
	pre := c06Clone(s)
	res := c06StoredResult(s)
	d := s.ApplyAppendStored(res)
	c06AfterStored(pre, s, d, res)
	if s.HW > pre.HW {
		zzsym.Reach("stored: HW advanced")
	}
}

// Harness_C06_ApplyAppendStored_Waiters: durable append completion against every pending /
// in-flight shape, ISR {1,2} with symbolic MinISR and matches (so the new HW ranges over every
// value the computation can produce between the old HW and LEO).
func Harness_C06_ApplyAppendStored_Waiters() {
	s := c06State(c06Shape{pend: c06Full})
	pre := c06Clone(s)
	res := c06StoredResult(s)
	d := s.ApplyAppendStored(res)
	c06AfterStored(pre, s, d, res)
}

// Harness_C06_ApplyQuorumCommitted: complete quorum receipt, matching or stale fence, error or range.
func Harness_C06_ApplyQuorumCommitted() {
	s := c06State(c06Shape{pend: c06Full})
	pre := c06Clone(s)
	res := QuorumCommittedResult{Fence: c06Fence(), First: zzsym.U64("res.first"), Last: zzsym.U64("res.last"), HW: zzsym.U64("res.hw")}
	if zzsym.Choice("res.err", 2) == 1 {
		res.Err = errors.New("c06: quorum append failed")
	}
	matches := c06FenceMatches(pre, res.Fence)

	d := s.ApplyQuorumCommitted(res)

	quorumSuccess := c06Post(pre, s, d)
	zzsym.Assert(matches || c06EmptyDecision(d), "a quorum receipt with a stale fence produced a decision")
	zzsym.Assert(matches || c06Same(pre, s), "a quorum receipt with a stale fence changed the state")
	zzsym.Observe("receipt", zzsym.B2U(matches), zzsym.B2U(res.Err != nil))
	if !matches {
		zzsym.Reach("receipt: stale fence")
		return
	}
	zzsym.Reach("receipt: matching fence")
	if quorumSuccess {
		zzsym.Reach("receipt: success reply to a quorum-mode waiter")
	}
}

func c06Ack(s *ChannelState, first, n int) FollowerAck {
	// node 1 is the local node, 2 a remote replica, 3 a non-replica (possibly listed in the ISR)
	ack := FollowerAck{Follower: ch.NodeID(first + zzsym.Choice("ack.follower", n)), MatchOffset: zzsym.U64("ack.match")}
	zzsym.Assume(ack.MatchOffset <= s.LEO) // the reactor rejects AckOffset > LEO before calling the machine
	return ack
}

// Harness_C06_ApplyFollowerAck_HW: follower progress against every ISR / progress shape.
func Harness_C06_ApplyFollowerAck_HW() {
	s := c06State(c06Shape{isr: true, progress: true, pend: c06Tiny, noBatch: true, oneRec: true})
	pre := c06Clone(s)
	ack := c06Ack(s, 1, 3)
	d := s.ApplyFollowerAck(ack)
	quorumSuccess := c06Post(pre, s, d)
	zzsym.Observe("ack", uint64(ack.Follower), ack.MatchOffset)
	if s.HW > pre.HW {
		zzsym.Reach("ack: HW advanced")
	}
	if quorumSuccess {
		zzsym.Reach("ack: success reply to a quorum-mode waiter")
	}
}

// Harness_C06_ApplyFollowerAck_Waiters: follower progress against every pending shape (ISR {1,2}).
func Harness_C06_ApplyFollowerAck_Waiters() {
	s := c06State(c06Shape{pend: c06Few, noBatch: true})
	pre := c06Clone(s)
	ack := c06Ack(s, 2, 1) // the remote replica (the local node is covered by the _HW entry)
	d := s.ApplyFollowerAck(ack)
	if c06Post(pre, s, d) {
		zzsym.Reach("ack: quorum-mode waiters answered")
	}
	zzsym.Observe("ack", uint64(ack.Follower), ack.MatchOffset)
}

// Harness_C06_CancelAppendWaiter: the client stops observing one waiter.
func Harness_C06_CancelAppendWaiter() {
	s := c06State(c06Shape{pend: c06Full})
	pre := c06Clone(s)
	op := ch.OpID(1 + zzsym.Choice("cancel.op", 3))
	removed := s.CancelAppendWaiter(op)
	c06Post(pre, s, Decision{})
	zzsym.Observe("cancel", zzsym.B2U(removed))
	if removed {
		zzsym.Reach("cancel: removed")
	} else {
		zzsym.Reach("cancel: unknown op")
	}
}

// Harness_C06_AbortAppendBatchProposal: the reactor withdraws a still in-flight batch.
func Harness_C06_AbortAppendBatchProposal() {
	s := c06State(c06Shape{pend: c06Full})
	pre := c06Clone(s)
	batch := ch.OpID(zzsym.U64("abort.batch"))
	s.AbortAppendBatchProposal(batch)
	c06Post(pre, s, Decision{})
	if pre.InflightAppend != nil && s.InflightAppend == nil {
		zzsym.Reach("abort: in-flight batch withdrawn")
	} else {
		zzsym.Reach("abort: other batch")
	}
}
