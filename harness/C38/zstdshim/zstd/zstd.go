// Package zstd is the C38 verification stand-in for github.com/klauspost/compress/zstd.
//
// It is NOT a compressor. A "frame" is the four Zstandard magic bytes followed by the payload
// verbatim. It exists so that pkg/backup's chunk framing, hashing and counting can be executed
// (symbolically and natively) around a codec with the same streaming API surface:
//
//	NewWriter / WithEncoderLevel / (*Encoder).Write, ReadFrom, Close
//	NewReader / WithDecoderMaxMemory / (*Decoder).Read, Close
//
// What is kept of the real codec's contract: Decode(Encode(p)) == p; an empty payload still
// produces a non-empty frame; a stream that does not start with the magic is an error; the
// encoder emits nothing after Close. Everything else (entropy coding, window limits, content
// checksums, truncation detection inside a block) is outside the model.
package zstd

import (
	"errors"
	"io"
)

// EncoderLevel mirrors the real option type.
type EncoderLevel int

const (
	SpeedFastest EncoderLevel = iota + 1
	SpeedDefault
	SpeedBetterCompression
	SpeedBestCompression
)

// ErrMagicMismatch mirrors the real decoder's error for a stream that is not a frame.
var ErrMagicMismatch = errors.New("invalid input: magic number mismatch")

var frameMagic = [4]byte{0x28, 0xb5, 0x2f, 0xfd}

type EOption func(*Encoder) error
type DOption func(*Decoder) error

func WithEncoderLevel(l EncoderLevel) EOption {
	return func(e *Encoder) error { e.level = l; return nil }
}

func WithDecoderMaxMemory(n uint64) DOption {
	return func(d *Decoder) error {
		if n == 0 {
			return errors.New("WithDecoderMaxMemory must be at least 1")
		}
		d.maxMemory = n
		return nil
	}
}

type Encoder struct {
	w      io.Writer
	level  EncoderLevel
	opened bool
	closed bool
}

func NewWriter(w io.Writer, opts ...EOption) (*Encoder, error) {
	e := &Encoder{w: w, level: SpeedDefault}
	for _, o := range opts {
		if err := o(e); err != nil {
			return nil, err
		}
	}
	return e, nil
}

func (e *Encoder) header() error {
	if e.opened {
		return nil
	}
	e.opened = true
	_, err := e.w.Write(frameMagic[:])
	return err
}

func (e *Encoder) Write(p []byte) (int, error) {
	if e.closed {
		return 0, errors.New("encoder closed")
	}
	if err := e.header(); err != nil {
		return 0, err
	}
	if len(p) == 0 {
		return 0, nil
	}
	return e.w.Write(p)
}

// ReadFrom streams r into the frame (the real Encoder implements io.ReaderFrom too, so io.Copy
// takes this route in both).
func (e *Encoder) ReadFrom(r io.Reader) (int64, error) {
	var total int64
	buf := make([]byte, 64)
	for {
		n, err := r.Read(buf)
		if n > 0 {
			if _, werr := e.Write(buf[:n]); werr != nil {
				return total, werr
			}
			total += int64(n)
		}
		if err == io.EOF {
			return total, nil
		}
		if err != nil {
			return total, err
		}
	}
}

func (e *Encoder) Close() error {
	if e.closed {
		return nil
	}
	err := e.header()
	e.closed = true
	return err
}

type Decoder struct {
	r         io.Reader
	maxMemory uint64
	opened    bool
	err       error
}

func NewReader(r io.Reader, opts ...DOption) (*Decoder, error) {
	d := &Decoder{r: r, maxMemory: 64 << 30}
	for _, o := range opts {
		if err := o(d); err != nil {
			return nil, err
		}
	}
	return d, nil
}

func (d *Decoder) Read(p []byte) (int, error) {
	if d.err != nil {
		return 0, d.err
	}
	if !d.opened {
		d.opened = true
		var magic [4]byte
		n, err := io.ReadFull(d.r, magic[:])
		if err != nil {
			if n == 0 && err == io.EOF {
				d.err = io.EOF // the real decoder reports an empty stream as io.EOF
			} else {
				d.err = io.ErrUnexpectedEOF
			}
			return 0, d.err
		}
		if magic != frameMagic {
			d.err = ErrMagicMismatch
			return 0, d.err
		}
	}
	n, err := d.r.Read(p)
	if err != nil {
		d.err = err
	}
	return n, err
}

func (d *Decoder) Close() {
	if d.err == nil {
		d.err = errors.New("decoder used after Close")
	}
}
