module github.com/klauspost/compress

go 1.22
