package backup

// C38 harness, part 2 (package internal/runtime/backup): the real PublishArchive over a complete
// 256-Slot archive in the in-memory store of part 1, then the real VerifyPublishedArchive, with at
// most one stored object changed in between.
//
// Two Hash Slots (7 and 200) hold metadata + one message part each, the other 254 one (identical)
// metadata byte each, so that the archive has the mandatory 256 Slots. In ArchivePublishVerify the
// content of Slots 7 and 200 is symbolic; in the two adversary entries it is concrete and only the
// adversary's change is symbolic (Slot artifacts with symbolic content under attack are part 1's job),
// which keeps the solver context of a 256-Slot path small enough for branch queries to be decided
// within the executor's fixed 5 s branch timeout on a loaded machine.

import (
	"bytes"
	"context"
	"crypto/sha256"
	"encoding/hex"
	"encoding/json"
	"errors"

	"github.com/WuKongIM/WuKongIM/internal/zzsym"
	backupartifact "github.com/WuKongIM/WuKongIM/pkg/backup"
)

const c38ID = "bk_c38"
const c38Root = "backups/" + c38ID + "/"

func c38Content(symbolic bool, name string, concrete byte) []byte {
	if symbolic {
		return zzsym.Bytes(name, 1)
	}
	return []byte{concrete}
}

func c38Request(store *backupartifact.C38Store, symbolic bool) PublishArchiveRequest {
	request := PublishArchiveRequest{
		ID: c38ID, Trigger: backupartifact.TriggerScheduled, SourceClusterID: "cluster-1",
		SourceApplication: "wukongim-c38", StartedUnixMillis: 1785267600000, CompletedUnixMillis: 1785267700000,
		Slots: make([]backupartifact.SlotReference, backupartifact.DefaultHashSlotCount),
	}
	for slot := 0; slot < backupartifact.DefaultHashSlotCount; slot++ {
		// every filler Slot holds the same metadata byte: 254 Slot manifests, but only one chunk stream to hash
		streams := []backupartifact.C38Stream{{Kind: backupartifact.ChunkKindMetadata, Parts: [][]byte{{0x5a}}, Records: 1}}
		if slot == 7 || slot == 200 {
			streams = []backupartifact.C38Stream{
				{Kind: backupartifact.ChunkKindMetadata, Parts: [][]byte{c38Content(symbolic, "meta", byte(slot))}, Records: 2},
				{Kind: backupartifact.ChunkKindMessages, Parts: [][]byte{c38Content(symbolic, "msg", byte(slot)+1)}, Records: 3, MaxMessageID: 90 + uint64(slot)},
			}
		}
		ref, _, err := backupartifact.C38WriteSlot(store, c38ID, uint16(slot), streams)
		zzsym.Assume(err == nil)
		request.Slots[slot] = ref
	}
	return request
}

func c38Published(symbolic bool) (*backupartifact.C38Store, PublishArchiveRequest, backupartifact.ArchiveManifest) {
	store := &backupartifact.C38Store{}
	request := c38Request(store, symbolic)
	manifest, err := PublishArchive(context.Background(), store, request)
	zzsym.Assert(err == nil, "PublishArchive publishes a complete archive")
	return store, request, manifest
}

// Harness_C38_ArchivePublishVerify: a published archive verifies and reproduces its manifests.
func Harness_C38_ArchivePublishVerify() {
	ctx := context.Background()
	store, request, published := c38Published(true)
	verified, err := VerifyPublishedArchive(ctx, store, c38ID)
	zzsym.Reach("archive verified")
	zzsym.Assert(err == nil, "VerifyPublishedArchive accepts an untouched published archive")
	zzsym.Assert(backupartifact.C38SameArchiveManifest(verified, published), "VerifyPublishedArchive reproduces the published manifest value")
	same := true
	for slot := range request.Slots {
		same = same && verified.Slots[slot] == request.Slots[slot]
	}
	zzsym.Assert(same, "the published manifest lists every exporter reference in Hash Slot order")
	body := store.Get(c38Root + "manifest.json")
	loaded, lerr := backupartifact.LoadArchiveManifest(body)
	zzsym.Assert(lerr == nil && backupartifact.C38SameArchiveManifest(loaded, published), "the stored manifest decodes to the published value")
	again, merr := backupartifact.MarshalArchiveManifest(loaded)
	zzsym.Assert(merr == nil && bytes.Equal(again, body), "the decoded manifest re-encodes to the stored bytes")
	marker, kerr := backupartifact.LoadCompleteMarker(store.Get(c38Root+"COMPLETE"), body)
	sum := sha256.Sum256(body)
	zzsym.Assert(kerr == nil && marker.ManifestBytes == uint64(len(body)) && marker.ManifestSHA256 == hex.EncodeToString(sum[:]),
		"COMPLETE names the size and digest of the stored manifest")
	meta, verr := backupartifact.LoadPublishedArchiveMetadata(ctx, store, c38ID)
	zzsym.Assert(verr == nil && backupartifact.C38SameArchiveManifest(meta, published), "LoadPublishedArchiveMetadata reproduces the published manifest value")
	// publishing the same job again is a verification of what is there
	republished, perr := PublishArchive(ctx, store, request)
	zzsym.Assert(perr == nil && backupartifact.C38SameArchiveManifest(republished, published), "PublishArchive of an already published job verifies and returns the same manifest")
	zzsym.Observe("archive", published.LogicalBytes, published.StoredBytes, published.Records, published.MaxMessageID, uint64(len(body)), zzsym.B2U(err == nil))
}

func c38Window(name string, body []byte, at int, n int) []byte {
	out := append([]byte(nil), body...)
	repl := zzsym.Bytes(name, n)
	zzsym.Assume(!bytes.Equal(repl, body[at:at+n]))
	copy(out[at:], repl)
	return out
}

func c38Clone(b []byte) []byte { return append([]byte(nil), b...) }

// c38Case is one adversary step: what is changed (kind), which variant of it (sub) and, for Slot
// objects, in which Hash Slot (7: two chunks, 100: filler).
type c38Case struct{ kind, sub, slot int }

func c38TamperCases() []c38Case {
	quick := []c38Case{
		{0, 1, 0}, {1, 0, 0}, {2, 1, 0}, {3, 0, 0}, {4, 0, 0}, {5, 0, 0},
		{6, 0, 0}, {7, 0, 0}, {7, 2, 0}, {8, 1, 0}, {10, 0, 0}, {11, 0, 0}, {12, 0, 0},
		{13, 0, 7}, {14, 0, 100}, {15, 0, 100},
		{16, 0, 7}, {17, 0, 100}, {18, 0, 7}, {19, 0, 100},
	}
	if !zzsym.Thorough() {
		return quick
	}
	var all []c38Case
	subs := []int{3, 3, 3, 1, 1, 1, 1, 4, 3, 3, 1, 1, 1}
	for kind, n := range subs {
		for sub := 0; sub < n; sub++ {
			all = append(all, c38Case{kind, sub, 0})
		}
	}
	for kind := 13; kind <= 19; kind++ {
		all = append(all, c38Case{kind, 0, 7}, c38Case{kind, 0, 100})
	}
	return all
}

// Harness_C38_ArchiveTamper: after one change to one stored object of a published archive,
// VerifyPublishedArchive reports an error.
func Harness_C38_ArchiveTamper() {
	ctx := context.Background()
	cases := c38TamperCases()
	pick := cases[zzsym.Choice("case", len(cases))]
	kind, sub, slot := pick.kind, pick.sub, pick.slot
	store, request, _ := c38Published(false)
	manifestKey, markerKey := c38Root+"manifest.json", c38Root+"COMPLETE"
	manifestBody, markerBody := c38Clone(store.Get(manifestKey)), c38Clone(store.Get(markerKey))
	slotManifestKey := c38Root + request.Slots[slot].ManifestKey
	chunkKey := c38Root + "slots/100/meta-000001.zst"
	if slot == 7 {
		chunkKey = c38Root + "slots/007/messages-000001.zst"
	}
	switch kind {
	// ---- the top-level manifest object
	case 0: // any other content in an 8-byte window (start, middle, end)
		offsets := []int{0, len(manifestBody) / 2, len(manifestBody) - 8}
		store.Set(manifestKey, c38Window("manifest.window", manifestBody, offsets[sub], 8))
	case 1:
		cuts := []int{1, len(manifestBody) / 2, len(manifestBody)}
		store.Set(manifestKey, manifestBody[:len(manifestBody)-cuts[sub]])
	case 2:
		store.Set(manifestKey, append(manifestBody, []string{" ", "\n", "{}"}[sub]...))
	case 3:
		_ = store.Delete(ctx, manifestKey)
	case 4:
		v := zzsym.U64("reported")
		zzsym.Assume(v != uint64(len(manifestBody)))
		store.Size[store.Index(manifestKey)] = v
	case 5: // canonical JSON of the manifest with two Slot references exchanged
		changed, err := backupartifact.LoadArchiveManifest(manifestBody)
		zzsym.Assume(err == nil)
		changed.Slots[7], changed.Slots[8] = changed.Slots[8], changed.Slots[7]
		forged, err := json.Marshal(changed)
		zzsym.Assume(err == nil)
		store.Set(manifestKey, forged)
	// ---- the COMPLETE marker object
	case 6: // one character of the manifest digest
		const field = `"manifest_sha256":"`
		at := backupartifact.C38Index(markerBody, field, 0) + len(field)
		store.Set(markerKey, backupartifact.C38EditHexIn("marker.digest", markerBody, at))
	case 7: // canonical JSON of the marker with one value changed
		marker, err := backupartifact.LoadCompleteMarker(markerBody, manifestBody)
		zzsym.Assume(err == nil)
		switch sub {
		case 0:
			marker.ManifestBytes++
		case 1:
			marker.ManifestBytes--
		case 2:
			marker.Version = 2
		case 3:
			marker.Format = backupartifact.ArchiveFormat
		}
		forged, err := json.Marshal(marker)
		zzsym.Assume(err == nil)
		store.Set(markerKey, forged)
	case 8:
		cuts := []int{1, len(markerBody) / 2, len(markerBody)}
		store.Set(markerKey, markerBody[:len(markerBody)-cuts[sub]])
	case 9:
		store.Set(markerKey, append(markerBody, []string{" ", "\n", "{}"}[sub]...))
	case 10:
		_ = store.Delete(ctx, markerKey)
	case 11:
		v := zzsym.U64("reported")
		zzsym.Assume(v != uint64(len(markerBody)))
		store.Size[store.Index(markerKey)] = v
	case 12: // the corruption marker appears
		zzsym.Assume(store.Put(ctx, backupartifact.PutObject{Key: c38Root + "CORRUPT", Body: bytes.NewReader([]byte("x")), ExpectedBytes: 1}) == nil)
	// ---- one Slot manifest object
	case 13: // one character of the first chunk digest of the text
		body := c38Clone(store.Get(slotManifestKey))
		const field = `"stored_sha256":"`
		at := backupartifact.C38Index(body, field, 0) + len(field)
		store.Set(slotManifestKey, backupartifact.C38EditHexIn("slot.digest", body, at))
	case 14:
		_ = store.Delete(ctx, slotManifestKey)
	case 15: // replaced by the manifest of the neighbouring Slot
		store.Set(slotManifestKey, c38Clone(store.Get(c38Root+request.Slots[slot+1].ManifestKey)))
	// ---- one chunk object
	case 16:
		body := c38Clone(store.Get(chunkKey))
		store.Set(chunkKey, c38Window("chunk.window", body, 0, len(body)))
	case 17:
		body := c38Clone(store.Get(chunkKey))
		store.Set(chunkKey, body[:len(body)-1])
	case 18:
		_ = store.Delete(ctx, chunkKey)
	case 19: // exchanged with the metadata chunk of the neighbouring Slot
		otherKey := c38Root + "slots/008/meta-000001.zst"
		if slot == 100 { // filler Slots hold equal chunks: exchange with a Slot of other content instead
			otherKey = c38Root + "slots/200/meta-000001.zst"
		}
		a, b := c38Clone(store.Get(chunkKey)), c38Clone(store.Get(otherKey))
		zzsym.Assume(!bytes.Equal(a, b))
		store.Set(chunkKey, b)
		store.Set(otherKey, a)
	}
	_, err := VerifyPublishedArchive(ctx, store, c38ID)
	zzsym.Reach("tampered archive verified")
	zzsym.Assert(err != nil, "VerifyPublishedArchive rejects a published archive after one change to one stored object")
	if kind <= 12 {
		_, merr := backupartifact.LoadPublishedArchiveMetadata(ctx, store, c38ID)
		zzsym.Assert(merr != nil, "LoadPublishedArchiveMetadata rejects a change to manifest.json, COMPLETE or CORRUPT")
	}
	zzsym.Assert(kind != 10 || errors.Is(err, backupartifact.ErrObjectNotFound), "a missing COMPLETE marker is reported as not found")
	zzsym.Observe("archive tamper", uint64(kind), uint64(sub), uint64(slot), zzsym.B2U(err != nil))
}

// Harness_C38_ArchiveResealed: a stronger adversary rewrites manifest.json AND recomputes COMPLETE
// for it (two objects). Whatever no longer matches the stored Slots, their order or the archive
// identity must still be rejected: the marker only binds the manifest, the manifest must bind the rest.
func Harness_C38_ArchiveResealed() {
	ctx := context.Background()
	kinds := []int{0, 2, 3, 6, 7}
	if zzsym.Thorough() {
		kinds = []int{0, 1, 2, 3, 4, 5, 6, 7, 8}
	}
	kind := kinds[zzsym.Choice("forgery", len(kinds))]
	other := kind == 2 && zzsym.Thorough() && zzsym.Choice("slot", 2) == 1
	store, _, published := c38Published(false)
	changed := published
	changed.Slots = append([]backupartifact.SlotReference(nil), published.Slots...)
	switch kind {
	case 0: // two Slot references exchanged
		changed.Slots[7], changed.Slots[8] = changed.Slots[8], changed.Slots[7]
	case 1: // all references rotated by one position
		first := changed.Slots[0]
		copy(changed.Slots, changed.Slots[1:])
		changed.Slots[len(changed.Slots)-1] = first
	case 2: // one character of a Slot manifest digest
		ref := &changed.Slots[7]
		if other {
			ref = &changed.Slots[100]
		}
		text := backupartifact.C38EditHexIn("ref.digest", []byte(ref.ManifestSHA256), 0)
		ref.ManifestSHA256 = string(text)
	case 3: // a consistent lie about one Slot's logical size
		changed.Slots[100].LogicalBytes++
		changed.LogicalBytes++
	case 4: // a consistent lie about one Slot's record count
		changed.Slots[7].Records++
		changed.Records++
	case 5: // a consistent lie about the message id high-water mark
		changed.Slots[200].MaxMessageID += 1000
		changed.MaxMessageID = changed.Slots[200].MaxMessageID
	case 6: // a key that names no object
		changed.Slots[100].ManifestKey = "slots/100/attempts/none/manifest.json"
	case 7: // another archive's identity
		changed.ID = "bk_other"
	case 8: // totals that are not the sums
		changed.StoredBytes++
	}
	forged, err := json.Marshal(changed)
	zzsym.Assume(err == nil)
	store.Set(c38Root+"manifest.json", forged)
	sum := sha256.Sum256(forged)
	marker, err := backupartifact.MarshalCompleteMarker(backupartifact.CompleteMarker{
		Format: backupartifact.CompleteMarkerFormat, Version: backupartifact.CompleteMarkerVersion,
		ManifestSHA256: hex.EncodeToString(sum[:]), ManifestBytes: uint64(len(forged)),
	})
	zzsym.Assume(err == nil)
	store.Set(c38Root+"COMPLETE", marker)
	_, verr := VerifyPublishedArchive(ctx, store, c38ID)
	zzsym.Reach("resealed archive verified")
	zzsym.Assert(verr != nil, "VerifyPublishedArchive rejects a resealed manifest that disagrees with the stored Slots, their order or the archive identity")
	zzsym.Observe("archive resealed", uint64(kind), zzsym.B2U(verr != nil))
}
