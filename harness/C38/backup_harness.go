package backup

// C38 harness, part 1 (package pkg/backup): chunk codec, Slot artifacts, message chunk index,
// repository marker and the strict manifest decoders. Part 2 (publish_harness.go, package
// internal/runtime/backup) drives the real PublishArchive / VerifyPublishedArchive over a full
// 256-Slot archive and reuses the store and the Slot writer exported from here.
//
// Everything that is decided is decided by the real functions of pkg/backup; the harness only
// (a) implements the ArchiveStore port in memory, (b) plays the exporter (EncodeChunk ->
// Put chunk -> MarshalSlotManifest -> Put manifest, the sequence of internal/runtime/backup
// exportSlot without its temporary files) and (c) plays the adversary: exactly one stored object is
// changed between publication and verification.

import (
	"bytes"
	"context"
	"crypto/sha256"
	"encoding/hex"
	"encoding/json"
	"errors"
	"fmt"
	"io"
	"strings"

	"github.com/WuKongIM/WuKongIM/internal/zzsym"
)

// ---------------------------------------------------------------------------------------------
// In-memory ArchiveStore (the port's contract: exact keys, exact sizes, IfAbsent, ErrObjectNotFound)

// C38Store keeps objects in insertion order. Size is what Open reports as ArchiveObject.Bytes; it
// equals len(Body) unless the adversary changed it.
type C38Store struct {
	Keys []string
	Body [][]byte
	Size []uint64
}

func (s *C38Store) Index(key string) int {
	for i, k := range s.Keys {
		if k == key {
			return i
		}
	}
	return -1
}

func (s *C38Store) Put(_ context.Context, obj PutObject) error {
	if validateRepositoryKey(obj.Key) != nil || obj.Body == nil {
		return ErrInvalidObject
	}
	data, err := io.ReadAll(obj.Body)
	if err != nil {
		return err
	}
	if uint64(len(data)) != obj.ExpectedBytes {
		return ErrInvalidObject
	}
	if i := s.Index(obj.Key); i >= 0 {
		if obj.IfAbsent {
			return ErrObjectExists
		}
		s.Body[i], s.Size[i] = data, uint64(len(data))
		return nil
	}
	s.Keys = append(s.Keys, obj.Key)
	s.Body = append(s.Body, data)
	s.Size = append(s.Size, uint64(len(data)))
	return nil
}

func (s *C38Store) Open(_ context.Context, key string) (io.ReadCloser, ArchiveObject, error) {
	i := s.Index(key)
	if i < 0 {
		return nil, ArchiveObject{}, ErrObjectNotFound
	}
	return io.NopCloser(bytes.NewReader(s.Body[i])), ArchiveObject{Key: key, Bytes: s.Size[i]}, nil
}

func (s *C38Store) List(_ context.Context, prefix string) ([]ArchiveObject, error) {
	var out []ArchiveObject
	for i, k := range s.Keys {
		if strings.HasPrefix(k, prefix) {
			out = append(out, ArchiveObject{Key: k, Bytes: s.Size[i]})
		}
	}
	return out, nil
}

func (s *C38Store) Delete(_ context.Context, key string) error {
	i := s.Index(key)
	if i < 0 {
		return ErrObjectNotFound
	}
	s.Keys = append(s.Keys[:i:i], s.Keys[i+1:]...)
	s.Body = append(s.Body[:i:i], s.Body[i+1:]...)
	s.Size = append(s.Size[:i:i], s.Size[i+1:]...)
	return nil
}

func (s *C38Store) DeletePrefix(ctx context.Context, prefix string) error {
	for i := len(s.Keys) - 1; i >= 0; i-- {
		if strings.HasPrefix(s.Keys[i], prefix) {
			_ = s.Delete(ctx, s.Keys[i])
		}
	}
	return nil
}

// Set replaces the stored bytes of an existing object (adversary).
func (s *C38Store) Set(key string, body []byte) {
	i := s.Index(key)
	s.Body[i], s.Size[i] = body, uint64(len(body))
}

func (s *C38Store) Get(key string) []byte { return s.Body[s.Index(key)] }

// ---------------------------------------------------------------------------------------------
// Exporter (harness copy of exportSlot / FullStreamWriter.write without temp files)

// C38Stream is one logical stream of a Hash Slot, already split into parts.
type C38Stream struct {
	Kind         ChunkKind
	Parts        [][]byte
	Records      uint64
	MaxMessageID uint64
}

func C38Cut(hashSlot uint16) SlotCut {
	return SlotCut{
		PhysicalSlotID: 1 + uint32(hashSlot)%4, LeaderTerm: 3, AppliedTerm: 3,
		ConfigurationVersion: 2, AppliedIndex: 40 + uint64(hashSlot),
		CapturedAtUnixMillis: 1785267601000 + int64(hashSlot),
	}
}

// C38WriteSlot stores every chunk and the Slot manifest of one Hash Slot and returns the
// reference the exporter would hand to the Controller.
func C38WriteSlot(store *C38Store, backupID string, hashSlot uint16, streams []C38Stream) (SlotReference, SlotManifest, error) {
	ctx := context.Background()
	manifest := SlotManifest{
		Format: SlotManifestFormat, Version: SlotManifestVersion,
		HashSlot: hashSlot, Cut: C38Cut(hashSlot),
	}
	metaSeq, msgSeq, msgStream := uint32(1), uint32(1), uint32(1)
	for _, stream := range streams {
		for part, content := range stream.Parts {
			var stored bytes.Buffer
			descriptor, err := EncodeChunk(&stored, bytes.NewReader(content))
			if err != nil {
				return SlotReference{}, SlotManifest{}, err
			}
			ref := ChunkReference{
				Kind: stream.Kind, Part: uint32(part) + 1, Final: part == len(stream.Parts)-1,
				Descriptor: descriptor,
			}
			if stream.Kind == ChunkKindMetadata {
				ref.Sequence, ref.Stream = metaSeq, 0
				ref.Key = fmt.Sprintf("slots/%03d/meta-%06d.zst", hashSlot, metaSeq)
				metaSeq++
			} else {
				ref.Sequence, ref.Stream = msgSeq, msgStream
				ref.Key = fmt.Sprintf("slots/%03d/messages-%06d.zst", hashSlot, msgSeq)
				msgSeq++
			}
			if part == 0 {
				ref.Records, ref.MaxMessageID = stream.Records, stream.MaxMessageID
			}
			if err := store.Put(ctx, PutObject{
				Key: "backups/" + backupID + "/" + ref.Key, Body: bytes.NewReader(stored.Bytes()),
				ExpectedBytes: descriptor.StoredBytes, IfAbsent: true,
			}); err != nil {
				return SlotReference{}, SlotManifest{}, err
			}
			manifest.Chunks = append(manifest.Chunks, ref)
		}
		if stream.Kind == ChunkKindMessages {
			msgStream++
		}
	}
	for _, chunk := range manifest.Chunks {
		manifest.LogicalBytes += chunk.Descriptor.LogicalBytes
		manifest.StoredBytes += chunk.Descriptor.StoredBytes
		manifest.Records += chunk.Records
		if chunk.MaxMessageID > manifest.MaxMessageID {
			manifest.MaxMessageID = chunk.MaxMessageID
		}
	}
	body, err := MarshalSlotManifest(manifest)
	if err != nil {
		return SlotReference{}, SlotManifest{}, err
	}
	manifestKey := fmt.Sprintf("slots/%03d/manifest.json", hashSlot)
	if err := store.Put(ctx, PutObject{
		Key: "backups/" + backupID + "/" + manifestKey, Body: bytes.NewReader(body),
		ExpectedBytes: uint64(len(body)),
	}); err != nil {
		return SlotReference{}, SlotManifest{}, err
	}
	sum := sha256.Sum256(body)
	return SlotReference{
		HashSlot: hashSlot, ManifestKey: manifestKey, ManifestSHA256: hex.EncodeToString(sum[:]),
		LogicalBytes: manifest.LogicalBytes, StoredBytes: manifest.StoredBytes,
		Records: manifest.Records, MaxMessageID: manifest.MaxMessageID,
	}, manifest, nil
}

// ---------------------------------------------------------------------------------------------
// Adversary helpers

// c38Differs returns a copy of body of the same length whose content is arbitrary but different.
func c38Differs(name string, body []byte) []byte {
	out := zzsym.Bytes(name, len(body))
	zzsym.Assume(!bytes.Equal(out, body))
	return out
}

func c38Clone(b []byte) []byte { return append([]byte(nil), b...) }

// c38ShiftHex replaces the hexadecimal character c by the hexadecimal character d (1..15) places
// further (relative to c, so that a counterexample replays on the real digest).
func c38ShiftHex(c, d byte) byte {
	n := c - '0'
	if c >= 'a' {
		n = c - 'a' + 10
	}
	return "0123456789abcdef"[(n+d)&15]
}

// c38OtherASCII replaces c by any different 7-bit byte (relative to c; d in 1..127).
func c38OtherASCII(c, d byte) byte { return c ^ d }

// c38EditString replaces the character at a symbolic position of s: hexOnly keeps it a
// (different) hexadecimal digit, otherwise it becomes any different 7-bit byte.
func c38EditString(name string, s string, hexOnly bool) string {
	pos := zzsym.Int(name + ".pos")
	zzsym.Assume(pos >= 0 && pos < len(s))
	d := zzsym.U8(name + ".delta")
	if hexOnly {
		zzsym.Assume(d >= 1 && d <= 15)
	} else {
		zzsym.Assume(d >= 1 && d <= 127)
	}
	out := []byte(s)
	for j := range out {
		nc := c38OtherASCII(out[j], d)
		if hexOnly {
			nc = c38ShiftHex(out[j], d)
		}
		if j != pos {
			nc = out[j]
		}
		out[j] = nc
	}
	return string(out)
}

// C38EditHexIn replaces one character (symbolic position) of the 64-character digest that starts
// at offset at of text by a different hexadecimal character.
func C38EditHexIn(name string, text []byte, at int) []byte {
	if at < 0 || at+64 > len(text) {
		panic("c38: digest offset out of range")
	}
	out := c38Clone(text)
	pos := zzsym.Int(name + ".pos")
	zzsym.Assume(pos >= 0 && pos < 64)
	d := zzsym.U8(name + ".shift")
	zzsym.Assume(d >= 1 && d <= 15)
	for j := 0; j < 64; j++ {
		c := out[at+j]
		nc := c38ShiftHex(c, d)
		if j != pos {
			nc = c
		}
		out[at+j] = nc
	}
	return out
}

// c38Index returns the offset of the nth (0-based) occurrence of needle in the CONCRETE text, -1 if none.
func c38Index(text []byte, needle string, nth int) int {
	for i := 0; i+len(needle) <= len(text); i++ {
		j := 0
		for j < len(needle) && text[i+j] == needle[j] {
			j++
		}
		if j == len(needle) {
			if nth == 0 {
				return i
			}
			nth--
		}
	}
	return -1
}

// C38Index is c38Index for part 2 of the harness.
func C38Index(text []byte, needle string, nth int) int { return c38Index(text, needle, nth) }

// c38Splice replaces the first occurrence of old in the concrete text.
func c38Splice(text []byte, old, new string) []byte {
	at := c38Index(text, old, 0)
	if at < 0 {
		panic("c38: literal not found: " + old)
	}
	out := append([]byte(nil), text[:at]...)
	out = append(out, new...)
	return append(out, text[at+len(old):]...)
}

const (
	c38A = "aaaaaaaaaaaaaaaaaaaaaaaaaaaaaaaaaaaaaaaaaaaaaaaaaaaaaaaaaaaaaaaa"
	c38B = "bbbbbbbbbbbbbbbbbbbbbbbbbbbbbbbbbbbbbbbbbbbbbbbbbbbbbbbbbbbbbbbb"
)

// c38SlotLayout is the canonical JSON of m with every digest replaced by a literal of the same
// length: same byte layout as the real manifest text, but concrete, for computing offsets.
func c38SlotLayout(m SlotManifest) []byte {
	m.Chunks = append([]ChunkReference(nil), m.Chunks...)
	for i := range m.Chunks {
		m.Chunks[i].Descriptor.StoredSHA256, m.Chunks[i].Descriptor.LogicalSHA256 = c38A, c38B
	}
	out, err := json.Marshal(m)
	if err != nil {
		panic("c38: layout")
	}
	return out
}

func c38Ctx() context.Context { return context.Background() }

// ---------------------------------------------------------------------------------------------
// Chunk codec

func c38ContentLen() int {
	if zzsym.Thorough() {
		return zzsym.Choice("content.len", 5)
	}
	return zzsym.Choice("content.len", 3)
}

// Harness_C38_ChunkRoundTrip: EncodeChunk then DecodeChunk reproduces the logical bytes and the
// descriptor counts exactly what was written.
func Harness_C38_ChunkRoundTrip() {
	n := c38ContentLen()
	content := zzsym.Bytes("content", n)
	var stored bytes.Buffer
	desc, err := EncodeChunk(&stored, bytes.NewReader(content))
	zzsym.Assert(err == nil, "EncodeChunk accepts a small logical part")
	zzsym.Assert(desc.LogicalBytes == uint64(n), "descriptor logical size is the content length")
	zzsym.Assert(desc.StoredBytes == uint64(stored.Len()) && desc.StoredBytes != 0, "descriptor stored size is the non-zero stored length")
	zzsym.Assert(desc.Compression == CompressionZstd, "descriptor names the codec")
	zzsym.Assert(validateChunkDescriptor(desc) == nil, "EncodeChunk produces a valid descriptor")
	var out bytes.Buffer
	derr := DecodeChunk(&out, bytes.NewReader(stored.Bytes()), desc)
	zzsym.Reach("chunk decoded")
	zzsym.Assert(derr == nil, "DecodeChunk accepts what EncodeChunk produced")
	zzsym.Assert(bytes.Equal(out.Bytes(), content), "DecodeChunk reproduces the logical bytes")
	zzsym.Observe("chunk", desc.LogicalBytes, desc.StoredBytes, zzsym.B2U(derr == nil))
}

// Harness_C38_ChunkTamper: after one change to the stored bytes or to one descriptor field,
// DecodeChunk reports an error.
func Harness_C38_ChunkTamper() {
	n := c38ContentLen()
	content := zzsym.Bytes("content", n)
	var buf bytes.Buffer
	desc, err := EncodeChunk(&buf, bytes.NewReader(content))
	zzsym.Assume(err == nil)
	stored := c38Clone(buf.Bytes())
	kind := zzsym.Choice("tamper", 9)
	switch kind {
	case 0: // same length, any different content
		stored = c38Differs("stored.rewrite", stored)
	case 1: // truncated by 1..len bytes
		stored = stored[:len(stored)-1-zzsym.Choice("cut", len(stored))]
	case 2: // one extra byte
		stored = append(stored, zzsym.U8("extra"))
	case 3:
		v := zzsym.U64("stored_bytes")
		zzsym.Assume(v != desc.StoredBytes)
		desc.StoredBytes = v
	case 4:
		v := zzsym.U64("logical_bytes")
		zzsym.Assume(v != desc.LogicalBytes)
		desc.LogicalBytes = v
	case 5:
		desc.StoredSHA256 = c38EditString("stored_sha256", desc.StoredSHA256, false)
	case 6:
		desc.LogicalSHA256 = c38EditString("logical_sha256", desc.LogicalSHA256, false)
	case 7:
		desc.Compression = []Compression{"", "gzip", "ZSTD"}[zzsym.Choice("codec", 3)]
	case 8: // the two digests exchanged (they are digests of different streams)
		desc.StoredSHA256, desc.LogicalSHA256 = desc.LogicalSHA256, desc.StoredSHA256
	}
	var out bytes.Buffer
	derr := DecodeChunk(&out, bytes.NewReader(stored), desc)
	zzsym.Reach("tampered chunk decoded")
	zzsym.Assert(derr != nil, "DecodeChunk rejects a chunk after one change to its bytes or descriptor")
	zzsym.Observe("chunk tamper", uint64(kind), zzsym.B2U(derr != nil))
}

// ---------------------------------------------------------------------------------------------
// Slot artifacts

const c38ID = "bk_c38"

// c38SlotStreams: shape 0 = metadata only, 1 = metadata + one message part,
// 2 = metadata + one message stream of two parts, 3 = metadata + two message streams.
func c38SlotStreams(tag string, shape int, n int) []C38Stream {
	streams := []C38Stream{{Kind: ChunkKindMetadata, Parts: [][]byte{zzsym.Bytes(tag+".meta", n)}, Records: 2}}
	switch shape {
	case 1:
		streams = append(streams, C38Stream{Kind: ChunkKindMessages, Parts: [][]byte{zzsym.Bytes(tag+".msg", n)}, Records: 3, MaxMessageID: 99})
	case 2:
		streams = append(streams, C38Stream{Kind: ChunkKindMessages, Parts: [][]byte{zzsym.Bytes(tag+".msg", n), zzsym.Bytes(tag+".msg", 1)}, Records: 3, MaxMessageID: 99})
	case 3:
		streams = append(streams,
			C38Stream{Kind: ChunkKindMessages, Parts: [][]byte{zzsym.Bytes(tag+".msg", n)}, Records: 3, MaxMessageID: 99},
			C38Stream{Kind: ChunkKindMessages, Parts: [][]byte{zzsym.Bytes(tag+".msg", 1)}, Records: 1, MaxMessageID: 120})
	}
	return streams
}

func c38SameChunk(a, b ChunkReference) bool { return a == b }

func c38SameSlotManifest(a, b SlotManifest) bool {
	if a.Format != b.Format || a.Version != b.Version || a.HashSlot != b.HashSlot || a.Cut != b.Cut ||
		a.LogicalBytes != b.LogicalBytes || a.StoredBytes != b.StoredBytes || a.Records != b.Records ||
		a.MaxMessageID != b.MaxMessageID || len(a.Chunks) != len(b.Chunks) {
		return false
	}
	same := true
	for i := range a.Chunks {
		same = same && c38SameChunk(a.Chunks[i], b.Chunks[i])
	}
	return same
}

// Harness_C38_SlotRoundTrip: what the exporter stored for one Hash Slot loads, verifies chunk by
// chunk, reproduces the manifest value, its exact bytes and the reference handed to the Controller.
func Harness_C38_SlotRoundTrip() {
	shapes, n := 2, 1
	if zzsym.Thorough() {
		shapes, n = 4, 1+zzsym.Choice("content.len", 2)
	}
	shape := zzsym.Choice("shape", shapes)
	hashSlot := []uint16{7, 255}[zzsym.Choice("slot", 2)]
	store := &C38Store{}
	ref, written, err := C38WriteSlot(store, c38ID, hashSlot, c38SlotStreams("s", shape, n))
	zzsym.Assert(err == nil, "the exporter sequence stores a Slot")
	got, manifest, lerr := LoadStoredSlot(c38Ctx(), store, c38ID, hashSlot, true)
	zzsym.Reach("slot loaded")
	zzsym.Assert(lerr == nil, "LoadStoredSlot verifies an untouched Slot")
	zzsym.Assert(got == ref, "LoadStoredSlot reproduces the exporter's Slot reference")
	zzsym.Assert(c38SameSlotManifest(manifest, written), "LoadStoredSlot reproduces the Slot manifest value")
	body, merr := MarshalSlotManifest(manifest)
	zzsym.Assert(merr == nil && bytes.Equal(body, store.Get("backups/"+c38ID+"/"+ref.ManifestKey)), "the loaded manifest re-encodes to the stored bytes")
	got2, _, rerr := LoadStoredSlotReference(c38Ctx(), store, c38ID, ref, true)
	zzsym.Assert(rerr == nil && got2 == ref, "LoadStoredSlotReference accepts the exporter's reference")
	_, _, nerr := LoadStoredSlot(c38Ctx(), store, c38ID, hashSlot, false)
	zzsym.Assert(nerr == nil, "LoadStoredSlot without chunk scan accepts an untouched Slot")
	zzsym.Observe("slot", uint64(shape), uint64(hashSlot), ref.LogicalBytes, ref.StoredBytes, ref.Records, ref.MaxMessageID, uint64(len(manifest.Chunks)))
}

// c38TwoSlots stores Slot 7 (metadata + one message part, symbolic content) and Slot 8 (metadata
// only, symbolic content): the second one provides foreign objects for swaps.
func c38TwoSlots(n int) (*C38Store, SlotReference, SlotManifest, SlotReference) {
	store := &C38Store{}
	ref, manifest, err := C38WriteSlot(store, c38ID, 7, c38SlotStreams("a", 1, n))
	zzsym.Assume(err == nil)
	other, _, err := C38WriteSlot(store, c38ID, 8, c38SlotStreams("b", 0, n))
	zzsym.Assume(err == nil)
	return store, ref, manifest, other
}

// Harness_C38_SlotTamperChunkObject: one change to one stored chunk object of a Slot is detected
// both by LoadStoredSlot (no outside knowledge) and by LoadStoredSlotReference.
func Harness_C38_SlotTamperChunkObject() {
	n := 1
	if zzsym.Thorough() {
		n = 1 + zzsym.Choice("content.len", 2)
	}
	store, ref, manifest, _ := c38TwoSlots(n)
	target := zzsym.Choice("chunk", len(manifest.Chunks))
	key := "backups/" + c38ID + "/" + manifest.Chunks[target].Key
	body := c38Clone(store.Get(key))
	kind := zzsym.Choice("tamper", 7)
	switch kind {
	case 0:
		store.Set(key, c38Differs("chunk.rewrite", body))
	case 1:
		store.Set(key, body[:len(body)-1-zzsym.Choice("cut", len(body))])
	case 2:
		store.Set(key, append(body, zzsym.U8("extra")))
	case 3: // the store reports a different object size
		v := zzsym.U64("reported")
		zzsym.Assume(v != uint64(len(body)))
		store.Size[store.Index(key)] = v
	case 4:
		_ = store.Delete(c38Ctx(), key)
	case 5: // exchanged with the other chunk of the same Slot
		otherKey := "backups/" + c38ID + "/" + manifest.Chunks[1-target].Key
		otherBody := c38Clone(store.Get(otherKey))
		zzsym.Assume(!bytes.Equal(otherBody, body))
		store.Set(key, otherBody)
		store.Set(otherKey, body)
	case 6: // replaced by a chunk of another Slot
		foreign := c38Clone(store.Get("backups/" + c38ID + "/slots/008/meta-000001.zst"))
		zzsym.Assume(!bytes.Equal(foreign, body))
		store.Set(key, foreign)
	}
	_, _, lerr := LoadStoredSlot(c38Ctx(), store, c38ID, 7, true)
	_, _, rerr := LoadStoredSlotReference(c38Ctx(), store, c38ID, ref, true)
	zzsym.Reach("slot with a tampered chunk object loaded")
	zzsym.Assert(lerr != nil, "LoadStoredSlot rejects a Slot after one change to a chunk object")
	zzsym.Assert(rerr != nil, "LoadStoredSlotReference rejects a Slot after one change to a chunk object")
	zzsym.Observe("slot chunk tamper", uint64(target), uint64(kind), zzsym.B2U(lerr != nil), zzsym.B2U(rerr != nil))
}

// c38RewriteSlotManifest changes exactly one field of the manifest value (which one: which) and
// returns false when the change is not applicable. The adversary then stores its canonical JSON.
func c38RewriteSlotManifest(m *SlotManifest, which int) bool {
	m.Chunks = append([]ChunkReference(nil), m.Chunks...)
	last := len(m.Chunks) - 1
	switch which {
	case 0:
		m.HashSlot = 8
	case 1:
		m.Version = 2
	case 2:
		m.Format = ArchiveFormat
	case 3:
		m.Cut.AppliedIndex++
	case 4:
		m.Cut.CapturedAtUnixMillis--
	case 5:
		m.Cut.PhysicalSlotID++
	case 6:
		m.Cut.LeaderTerm++
	case 7:
		m.Cut.AppliedTerm--
	case 8:
		m.Cut.ConfigurationVersion++
	case 9:
		m.LogicalBytes++
	case 10:
		m.StoredBytes--
	case 11:
		m.Records++
	case 12:
		m.MaxMessageID++
	case 13: // a consistent lie about the record count
		m.Chunks[last].Records++
		m.Records++
	case 14: // a consistent lie about the message id high-water mark
		m.Chunks[last].MaxMessageID += 5
		m.MaxMessageID = m.Chunks[last].MaxMessageID
	case 15: // a consistent lie about a chunk's stored size
		m.Chunks[last].Descriptor.StoredBytes++
		m.StoredBytes++
	case 16: // a consistent, huge lie about a chunk's logical size (the largest the format allows)
		m.LogicalBytes += MaxChunkLogicalBytes - m.Chunks[0].Descriptor.LogicalBytes
		m.Chunks[0].Descriptor.LogicalBytes = MaxChunkLogicalBytes
	case 17:
		m.Chunks[0], m.Chunks[last] = m.Chunks[last], m.Chunks[0]
	case 18:
		m.Chunks = m.Chunks[:last]
	case 19:
		m.Chunks = append(m.Chunks, m.Chunks[last])
	case 20:
		m.Chunks[last].Sequence++
	case 21:
		m.Chunks[last].Stream++
	case 22:
		m.Chunks[last].Part++
	case 23:
		m.Chunks[last].Final = !m.Chunks[last].Final
	case 24:
		m.Chunks[last].Kind = ChunkKindMetadata
	case 25: // another key that is valid for this position (attempt layout)
		m.Chunks[last].Key = "slots/007/attempts/x" + strings.TrimPrefix(m.Chunks[last].Key, "slots/007")
	case 26: // the key of the other chunk
		m.Chunks[last].Key = m.Chunks[0].Key
	case 27:
		m.Chunks[last].Descriptor.Compression = "gzip"
	case 28: // the two digests of one chunk exchanged
		d := &m.Chunks[last].Descriptor
		d.StoredSHA256, d.LogicalSHA256 = d.LogicalSHA256, d.StoredSHA256
	case 29: // the descriptors of the two chunks exchanged
		m.Chunks[0].Descriptor, m.Chunks[last].Descriptor = m.Chunks[last].Descriptor, m.Chunks[0].Descriptor
	default:
		return false
	}
	return true
}

const c38SlotRewrites = 30

// Harness_C38_SlotTamperManifestObject: one change to the stored Slot manifest object is detected
// by LoadStoredSlotReference (the reference binds the exact manifest bytes); LoadStoredSlot, which
// has no reference, still rejects every change that breaks the manifest's own consistency.
func Harness_C38_SlotTamperManifestObject() {
	store, ref, manifest, other := c38TwoSlots(1)
	key := "backups/" + c38ID + "/" + ref.ManifestKey
	body := c38Clone(store.Get(key))
	kind := zzsym.Choice("tamper", 8)
	selfEvident := true // the change is detectable without the reference
	switch kind {
	case 0: // one character of a chunk digest, anywhere in it
		field := []string{`"stored_sha256":"`, `"logical_sha256":"`}[zzsym.Choice("which digest", 2)]
		at := c38Index(c38SlotLayout(manifest), field, zzsym.Choice("chunk", len(manifest.Chunks))) + len(field)
		store.Set(key, C38EditHexIn("manifest.digest", body, at))
	case 1: // canonical JSON of a manifest value with one field changed
		which := zzsym.Choice("field", c38SlotRewrites)
		changed := manifest
		zzsym.Assume(c38RewriteSlotManifest(&changed, which))
		forged, err := json.Marshal(changed)
		zzsym.Assume(err == nil && !bytes.Equal(forged, body))
		store.Set(key, forged)
		// changes 3..8, 13, 14, 25 leave a manifest that is consistent with itself and with the chunks
		selfEvident = !(which >= 3 && which <= 8 || which == 13 || which == 14 || which == 25)
		zzsym.Observe("field", uint64(which))
	case 2:
		cuts := []int{1, 2, len(body) / 2, len(body) - 1, len(body)}
		store.Set(key, body[:len(body)-cuts[zzsym.Choice("cut", len(cuts))]])
	case 3:
		tails := []string{" ", "\n", "}", "{}", "\x00", "null"}
		store.Set(key, append(body, tails[zzsym.Choice("tail", len(tails))]...))
	case 4:
		_ = store.Delete(c38Ctx(), key)
	case 5: // replaced by the (valid) manifest of another Slot
		store.Set(key, c38Clone(store.Get("backups/"+c38ID+"/"+other.ManifestKey)))
	case 6:
		v := zzsym.U64("reported")
		zzsym.Assume(v != uint64(len(body)))
		store.Size[store.Index(key)] = v
	case 7: // leading white space
		store.Set(key, append([]byte(" "), body...))
	}
	_, _, rerr := LoadStoredSlotReference(c38Ctx(), store, c38ID, ref, true)
	_, _, lerr := LoadStoredSlot(c38Ctx(), store, c38ID, 7, true)
	zzsym.Reach("slot with a tampered manifest object loaded")
	zzsym.Assert(rerr != nil, "LoadStoredSlotReference rejects a Slot after one change to its manifest object")
	zzsym.Assert(!selfEvident || lerr != nil, "LoadStoredSlot rejects a manifest object that is inconsistent with itself or its chunks")
	zzsym.Observe("slot manifest tamper", uint64(kind), zzsym.B2U(rerr != nil), zzsym.B2U(lerr != nil))
}

// Harness_C38_SlotReferenceBinding: LoadStoredSlotReference refuses a reference that differs from
// the stored Slot in any one field.
func Harness_C38_SlotReferenceBinding() {
	store, ref, _, other := c38TwoSlots(1)
	expected := ref
	kind := zzsym.Choice("field", 8)
	switch kind {
	case 0:
		expected.ManifestSHA256 = c38EditString("ref.digest", ref.ManifestSHA256, true)
	case 1:
		v := zzsym.U64("ref.logical")
		zzsym.Assume(v != ref.LogicalBytes)
		expected.LogicalBytes = v
	case 2:
		v := zzsym.U64("ref.stored")
		zzsym.Assume(v != ref.StoredBytes)
		expected.StoredBytes = v
	case 3:
		v := zzsym.U64("ref.records")
		zzsym.Assume(v != ref.Records)
		expected.Records = v
	case 4:
		v := zzsym.U64("ref.maxid")
		zzsym.Assume(v != ref.MaxMessageID)
		expected.MaxMessageID = v
	case 5: // the reference of another Slot under this Slot's number
		expected = other
		expected.HashSlot = 7
	case 6: // this Slot's manifest under another Slot's number
		expected.HashSlot = 8
	case 7: // another Slot's key with this Slot's digest
		expected.ManifestKey = other.ManifestKey
	}
	_, _, err := LoadStoredSlotReference(c38Ctx(), store, c38ID, expected, true)
	zzsym.Reach("slot loaded against a different reference")
	zzsym.Assert(err != nil, "LoadStoredSlotReference rejects a reference that differs from the stored Slot in one field")
	zzsym.Observe("slot reference", uint64(kind), zzsym.B2U(err != nil))
}

// c38ConcreteSlotManifest is a valid two-chunk manifest with literal digests.
func c38ConcreteSlotManifest() SlotManifest {
	a, b := c38A, c38B
	return SlotManifest{
		Format: SlotManifestFormat, Version: SlotManifestVersion, HashSlot: 7, Cut: C38Cut(7),
		Chunks: []ChunkReference{
			{Kind: ChunkKindMetadata, Sequence: 1, Stream: 0, Part: 1, Final: true, Key: "slots/007/meta-000001.zst",
				Descriptor: ChunkDescriptor{StoredSHA256: a, LogicalSHA256: b, LogicalBytes: 12, StoredBytes: 8, Compression: CompressionZstd}, Records: 2},
			{Kind: ChunkKindMessages, Sequence: 1, Stream: 1, Part: 1, Final: true, Key: "slots/007/messages-000001.zst",
				Descriptor: ChunkDescriptor{StoredSHA256: b, LogicalSHA256: a, LogicalBytes: 24, StoredBytes: 16, Compression: CompressionZstd}, Records: 3, MaxMessageID: 99},
		},
		LogicalBytes: 36, StoredBytes: 24, Records: 5, MaxMessageID: 99,
	}
}

// Harness_C38_SlotManifestStructure: the Slot manifest rules themselves (ordering of kinds,
// sequences, streams and parts, keys, totals), independent of any digest: every structural defect is
// refused by the encoder and by the decoder given its canonical JSON.
func Harness_C38_SlotManifestStructure() {
	m := c38ConcreteSlotManifest()
	body, err := MarshalSlotManifest(m)
	zzsym.Assert(err == nil, "MarshalSlotManifest accepts a well-formed manifest")
	back, lerr := LoadSlotManifest(body)
	zzsym.Assert(lerr == nil && c38SameSlotManifest(back, m), "LoadSlotManifest reproduces a well-formed manifest")
	// rewrites that leave a well-formed manifest are excluded; all others must be refused
	which := zzsym.Choice("defect", c38SlotRewrites+6)
	bad := m
	wellFormed := false
	if which < c38SlotRewrites {
		zzsym.Assume(c38RewriteSlotManifest(&bad, which))
		wellFormed = which >= 3 && which <= 6 || which == 8 || which == 13 || which == 14 || which == 15 || which == 16 ||
			which == 25 || which == 28 || which == 29 || which == 7
	} else {
		bad.Chunks = append([]ChunkReference(nil), m.Chunks...)
		switch which - c38SlotRewrites {
		case 0:
			bad.Chunks = nil
			bad.LogicalBytes, bad.StoredBytes, bad.Records, bad.MaxMessageID = 0, 0, 0, 0
		case 1: // messages only (no metadata stream)
			bad.Chunks = bad.Chunks[1:]
			bad.LogicalBytes, bad.StoredBytes, bad.Records = 24, 16, 3
		case 2: // metadata chunk carrying a message id
			bad.Chunks[0].MaxMessageID = 5
		case 3:
			bad.Chunks[0].Descriptor.StoredBytes = 0
			bad.StoredBytes = 16
		case 4:
			bad.Chunks[0].Descriptor.LogicalBytes = MaxChunkLogicalBytes + 1
			bad.LogicalBytes = MaxChunkLogicalBytes + 1 + 24
		case 5:
			bad.Chunks[1].Key = "slots/008/messages-000001.zst"
		}
	}
	_, merr := MarshalSlotManifest(bad)
	forged, jerr := json.Marshal(bad)
	zzsym.Assume(jerr == nil)
	_, derr := LoadSlotManifest(forged)
	zzsym.Reach("slot manifest structure decided")
	zzsym.Assert(wellFormed == (merr == nil), "MarshalSlotManifest refuses exactly the structurally defective manifests of the catalogue")
	zzsym.Assert(wellFormed == (derr == nil), "LoadSlotManifest refuses exactly the structurally defective manifests of the catalogue")
	zzsym.Observe("slot structure", uint64(which), zzsym.B2U(merr == nil), zzsym.B2U(derr == nil))
}

// ---------------------------------------------------------------------------------------------
// Message chunk index

func c38MessageChunks(store *C38Store, n int) []ChunkReference {
	var chunks []ChunkReference
	parts := [][]byte{zzsym.Bytes("idx.msg", n), zzsym.Bytes("idx.msg", 1)}
	for part, content := range parts {
		var stored bytes.Buffer
		descriptor, err := EncodeChunk(&stored, bytes.NewReader(content))
		zzsym.Assume(err == nil)
		ref := ChunkReference{
			Kind: ChunkKindMessages, Sequence: 9 + uint32(part), Stream: 4, Part: uint32(part) + 1,
			Final: part == len(parts)-1, Descriptor: descriptor,
			Key: fmt.Sprintf("slots/007/attempts/00000001/messages-%06d.zst", 9+part),
		}
		if part == 0 {
			ref.Records, ref.MaxMessageID = 3, 100
		}
		chunks = append(chunks, ref)
	}
	return chunks
}

// Harness_C38_MessageIndex: the repository-resident message chunk index round-trips through its
// digest-bound loader, and one change to the stored index object is detected.
func Harness_C38_MessageIndex() {
	store := &C38Store{}
	chunks := c38MessageChunks(store, 1)
	index, err := NewMessageChunkManifest(7, chunks)
	zzsym.Assert(err == nil, "NewMessageChunkManifest accepts an ordered message stream")
	body, err := MarshalMessageChunkManifest(index)
	zzsym.Assert(err == nil, "MarshalMessageChunkManifest encodes the index")
	const rel = "slots/007/attempts/00000001/message-index.json"
	key := "backups/" + c38ID + "/" + rel
	zzsym.Assume(store.Put(c38Ctx(), PutObject{Key: key, Body: bytes.NewReader(body), ExpectedBytes: uint64(len(body)), IfAbsent: true}) == nil)
	sum := sha256.Sum256(body)
	digest := hex.EncodeToString(sum[:])
	kind := zzsym.Choice("tamper", 8)
	switch kind {
	case 0: // untouched
	case 1:
		layout := index
		layout.Chunks = append([]ChunkReference(nil), index.Chunks...)
		for i := range layout.Chunks {
			layout.Chunks[i].Descriptor.StoredSHA256, layout.Chunks[i].Descriptor.LogicalSHA256 = c38A, c38B
		}
		text, jerr := json.Marshal(layout)
		zzsym.Assume(jerr == nil)
		const field = `"stored_sha256":"`
		store.Set(key, C38EditHexIn("index.digest", body, c38Index(text, field, zzsym.Choice("chunk", 2))+len(field)))
	case 2: // canonical JSON of an index with one value changed
		changed := index
		changed.Chunks = append([]ChunkReference(nil), index.Chunks...)
		switch zzsym.Choice("field", 6) {
		case 0:
			changed.Records++
		case 1:
			changed.Chunks[0].Records++
			changed.Records++
		case 2:
			changed.HashSlot = 8
		case 3:
			changed.Chunks[0], changed.Chunks[1] = changed.Chunks[1], changed.Chunks[0]
		case 4:
			changed.Chunks[1].Descriptor.StoredBytes++
			changed.StoredBytes++
		case 5:
			changed.Version = 2
		}
		forged, jerr := json.Marshal(changed)
		zzsym.Assume(jerr == nil)
		store.Set(key, forged)
	case 3:
		cuts := []int{1, len(body) / 2, len(body)}
		store.Set(key, body[:len(body)-cuts[zzsym.Choice("cut", len(cuts))]])
	case 4:
		store.Set(key, append(c38Clone(body), []string{" ", "\n", "{}"}[zzsym.Choice("tail", 3)]...))
	case 5:
		_ = store.Delete(c38Ctx(), key)
	case 6:
		v := zzsym.U64("reported")
		zzsym.Assume(v != uint64(len(body)))
		store.Size[store.Index(key)] = v
	case 7: // untouched object, but the receipt names another digest
		digest = c38EditString("receipt.digest", digest, true)
	}
	loaded, lerr := LoadStoredMessageChunkManifest(c38Ctx(), store, c38ID, rel, digest)
	zzsym.Reach("message index loaded")
	if kind == 0 {
		zzsym.Assert(lerr == nil, "LoadStoredMessageChunkManifest accepts the untouched index")
		same := loaded.Format == index.Format && loaded.Version == index.Version && loaded.HashSlot == index.HashSlot &&
			loaded.LogicalBytes == index.LogicalBytes && loaded.StoredBytes == index.StoredBytes &&
			loaded.Records == index.Records && loaded.MaxMessageID == index.MaxMessageID && len(loaded.Chunks) == 2 &&
			loaded.Chunks[0] == index.Chunks[0] && loaded.Chunks[1] == index.Chunks[1]
		zzsym.Assert(same, "LoadStoredMessageChunkManifest reproduces the index value")
	} else {
		zzsym.Assert(lerr != nil, "LoadStoredMessageChunkManifest rejects the index after one change")
	}
	zzsym.Observe("index", uint64(kind), zzsym.B2U(lerr == nil), index.LogicalBytes, index.StoredBytes)
}

// Harness_C38_MessageIndexStructure: ordering and totals rules of the message chunk index.
func Harness_C38_MessageIndexStructure() {
	a, b := c38A, c38B
	mk := func(seq, part uint32, final bool) ChunkReference {
		return ChunkReference{Kind: ChunkKindMessages, Sequence: seq, Stream: 4, Part: part, Final: final,
			Key:        fmt.Sprintf("slots/007/attempts/00000001/messages-%06d.zst", seq),
			Descriptor: ChunkDescriptor{StoredSHA256: a, LogicalSHA256: b, LogicalBytes: 5, StoredBytes: 9, Compression: CompressionZstd}}
	}
	chunks := []ChunkReference{mk(9, 1, false), mk(10, 2, true)}
	good, err := NewMessageChunkManifest(7, chunks)
	zzsym.Assert(err == nil, "NewMessageChunkManifest accepts two ordered parts")
	which := zzsym.Choice("defect", 13)
	bad := good
	bad.Chunks = append([]ChunkReference(nil), good.Chunks...)
	switch which {
	case 0:
		bad.Chunks[0], bad.Chunks[1] = bad.Chunks[1], bad.Chunks[0]
	case 1:
		bad.Chunks[1].Sequence = 11
	case 2:
		bad.Chunks[1].Part = 3
	case 3:
		bad.Chunks[1].Stream = 5
	case 4:
		bad.Chunks[0].Final = true
	case 5:
		bad.Chunks[1].Final = false
	case 6:
		bad.Chunks[0].Kind = ChunkKindMetadata
	case 7:
		bad.Chunks = nil
		bad.LogicalBytes, bad.StoredBytes = 0, 0
	case 8:
		bad.LogicalBytes++
	case 9:
		bad.Chunks[0].Key = "../escape"
	case 10:
		bad.Chunks[0].Descriptor.StoredBytes = 0
		bad.StoredBytes = 9
	case 11:
		bad.HashSlot = 256
	case 12:
		bad.Format = SlotManifestFormat
	}
	_, merr := MarshalMessageChunkManifest(bad)
	forged, jerr := json.Marshal(bad)
	zzsym.Assume(jerr == nil)
	_, derr := LoadMessageChunkManifest(forged)
	zzsym.Reach("message index structure decided")
	zzsym.Assert(merr != nil, "MarshalMessageChunkManifest refuses a structurally defective index")
	zzsym.Assert(derr != nil, "LoadMessageChunkManifest refuses a structurally defective index")
	zzsym.Observe("index structure", uint64(which), zzsym.B2U(merr != nil), zzsym.B2U(derr != nil))
}

// ---------------------------------------------------------------------------------------------
// Repository marker

// Harness_C38_RepositoryMarker: EnsureRepository binds an empty repository, re-validates its own
// marker, and rejects the marker object after one change.
func Harness_C38_RepositoryMarker() {
	store := &C38Store{}
	created, err := EnsureRepository(c38Ctx(), store, "cluster-a", 1_800_000_000_000)
	zzsym.Assert(err == nil, "EnsureRepository binds an empty repository")
	body := c38Clone(store.Get(RepositoryMarkerKey))
	again, err := EnsureRepository(c38Ctx(), store, "cluster-a", 1_800_000_000_999)
	zzsym.Assert(err == nil && again == created, "EnsureRepository reproduces the stored marker")
	kind := zzsym.Choice("tamper", 8)
	clusterID := "cluster-a"
	switch kind {
	case 0:
		changed := created
		switch zzsym.Choice("field", 5) {
		case 0:
			changed.SourceClusterID = "cluster-b"
		case 1:
			changed.Version = 2
		case 2:
			changed.HashSlotCount = 128
		case 3:
			changed.CreatedAtUnixMillis = 0
		case 4:
			changed.Format = ArchiveFormat
		}
		forged, jerr := json.Marshal(changed)
		zzsym.Assume(jerr == nil)
		store.Set(RepositoryMarkerKey, forged)
	case 1:
		cuts := []int{1, len(body) / 2, len(body)}
		store.Set(RepositoryMarkerKey, body[:len(body)-cuts[zzsym.Choice("cut", len(cuts))]])
	case 2:
		store.Set(RepositoryMarkerKey, append(body, []string{" ", "\n", "{}", "x"}[zzsym.Choice("tail", 4)]...))
	case 3:
		v := zzsym.U64("reported")
		zzsym.Assume(v != uint64(len(body)))
		store.Size[store.Index(RepositoryMarkerKey)] = v
	case 4: // untouched marker, another cluster asks
		clusterID = "cluster-b"
	case 5:
		store.Set(RepositoryMarkerKey, c38Splice(body, `{"format"`, `{"extra":1,"format"`))
	case 6:
		store.Set(RepositoryMarkerKey, c38Splice(body, `"version":1`, `"version":1,"version":1`))
	case 7:
		store.Set(RepositoryMarkerKey, c38Splice(body, `"version":1`, `"version": 1`))
	}
	_, terr := EnsureRepository(c38Ctx(), store, clusterID, 1_800_000_001_000)
	zzsym.Reach("repository marker re-validated")
	zzsym.Assert(terr != nil, "EnsureRepository rejects the repository marker after one change")
	zzsym.Assert(kind != 4 || errors.Is(terr, ErrRepositoryIncomplete), "a repository of another cluster is reported as such")
	zzsym.Observe("repository", uint64(kind), zzsym.B2U(terr != nil))
}

// ---------------------------------------------------------------------------------------------
// Bounded object reads

type c38CountingReader struct {
	r     *bytes.Reader
	taken *int
}

func (c c38CountingReader) Read(p []byte) (int, error) {
	n, err := c.r.Read(p)
	*c.taken += n
	return n, err
}

func (c c38CountingReader) Close() error { return nil }

// c38OneObject is a store holding one object whose reader counts the bytes handed out.
type c38OneObject struct {
	C38Store
	taken int
}

func (s *c38OneObject) Open(_ context.Context, key string) (io.ReadCloser, ArchiveObject, error) {
	i := s.Index(key)
	if i < 0 {
		return nil, ArchiveObject{}, ErrObjectNotFound
	}
	return c38CountingReader{r: bytes.NewReader(s.Body[i]), taken: &s.taken}, ArchiveObject{Key: key, Bytes: s.Size[i]}, nil
}

// Harness_C38_ReadStoredObjectBounds: ReadStoredObject returns exactly the stored bytes iff the
// object is non-empty, within the limit and as long as the store reports; it never takes more than
// limit+1 bytes from the store, and nothing at all when the reported size is out of range.
func Harness_C38_ReadStoredObjectBounds() {
	lens, limits := 4, 4
	if zzsym.Thorough() {
		lens, limits = 7, 6
	}
	n := zzsym.Choice("len", lens)
	limit := uint64(zzsym.Choice("limit", limits))
	body := zzsym.Bytes("body", n)
	reported := zzsym.U64("reported")
	store := &c38OneObject{}
	store.Keys, store.Body, store.Size = []string{"obj"}, [][]byte{body}, []uint64{reported}
	got, err := ReadStoredObject(c38Ctx(), store, "obj", limit)
	zzsym.Reach("object read")
	ok := reported == uint64(n) && n > 0 && uint64(n) <= limit
	zzsym.Assert((err == nil) == ok, "ReadStoredObject succeeds exactly for a non-empty object within the limit whose size is as reported")
	zzsym.Assert(err != nil || bytes.Equal(got, body), "ReadStoredObject returns the stored bytes")
	zzsym.Assert(uint64(store.taken) <= limit+1, "ReadStoredObject never takes more than limit+1 bytes from the store")
	zzsym.Assert(!(reported == 0 || reported > limit) || store.taken == 0, "ReadStoredObject reads nothing when the reported size is zero or beyond the limit")
	_, merr := ReadStoredObject(c38Ctx(), store, "missing", limit)
	zzsym.Assert(errors.Is(merr, ErrObjectNotFound), "ReadStoredObject reports a missing object as such")
	zzsym.Observe("read", uint64(n), limit, zzsym.B2U(err == nil), uint64(store.taken))
}

// ---------------------------------------------------------------------------------------------
// Strict decoders over a catalogue of literal texts

// c38GenericVariants texts are derived from the canonical text of any of the five manifests (all
// start with {"format":"...","version":1,). Variant 0 is the canonical text itself.
const c38GenericVariants = 31

func c38GenericVariant(t []byte, v int) []byte {
	switch v {
	case 0:
		return c38Clone(t)
	case 1:
		return append([]byte(" "), t...)
	case 2:
		return append(c38Clone(t), ' ')
	case 3:
		return append(c38Clone(t), '\n')
	case 4:
		return append(c38Clone(t), "{}"...)
	case 5:
		return append(c38Clone(t), 'x')
	case 6:
		return append(c38Clone(t), "null"...)
	case 7:
		return c38Splice(t, `{"format"`, `{"unexpected":true,"format"`)
	case 8:
		return append(c38Clone(t[:len(t)-1]), `,"zz":0}`...)
	case 9:
		return c38Splice(t, `"version":1`, `"version":1,"version":1`)
	case 10:
		return c38Splice(t, `"version":1`, `"version": 1`)
	case 11:
		return c38Splice(t, `"version":1`, `"Version":1`)
	case 12:
		return c38Splice(t, `"version":1`, `"version":2`)
	case 13:
		return c38Splice(t, `"version":1`, `"version":0`)
	case 14:
		return c38Splice(t, `"version":1`, `"version":1.0`)
	case 15:
		return c38Splice(t, `"version":1`, `"version":1e0`)
	case 16:
		return c38Splice(t, `"version":1`, `"version":"1"`)
	case 17:
		return c38Splice(t, `"version":1`, `"version":-1`)
	case 18:
		return c38Splice(t, `"version":1`, `"version":4294967297`)
	case 19:
		return c38Splice(t, `"version":1`, `"version":18446744073709551617`)
	case 20:
		return c38Splice(t, `{"format":"w`, `{"format":"\u0077`)
	case 21:
		return c38Splice(t, `"version":1,`, `"version":1,"format":"x",`)
	case 22:
		return nil
	case 23:
		return []byte(`{}`)
	case 24:
		return []byte(`null`)
	case 25:
		return []byte(`[]`)
	case 26:
		return c38Clone(t[:len(t)-1])
	case 27:
		return c38Clone(t[:len(t)/2])
	case 28:
		return append(append([]byte("["), t...), ']')
	case 29:
		return c38Splice(t, `"version":1`, `"version":01`)
	case 30:
		return c38Splice(t, `"version":1,`, `"version":1,"version":null,`)
	}
	panic("c38: variant")
}

func c38Decide(label string, v int, canonical bool, err error) {
	zzsym.Assert(canonical == (err == nil), "a strict manifest decoder accepts exactly the canonical texts of the catalogue")
	zzsym.Observe(label, uint64(v), zzsym.B2U(err == nil))
}

// Harness_C38_DecodeRepositoryMarker: LoadRepositoryMarker over the literal catalogue.
func Harness_C38_DecodeRepositoryMarker() {
	value := RepositoryMarker{Format: RepositoryFormat, Version: RepositoryVersion, SourceClusterID: "cluster-a",
		HashSlotCount: DefaultHashSlotCount, CreatedAtUnixMillis: 1_800_000_000_000}
	t, err := MarshalRepositoryMarker(value)
	zzsym.Assume(err == nil)
	v := zzsym.Choice("variant", c38GenericVariants+5)
	var text []byte
	switch v - c38GenericVariants {
	case 0:
		text = c38Splice(t, `"hash_slot_count":256`, `"hash_slot_count":255`)
	case 1:
		text = c38Splice(t, `"source_cluster_id":"cluster-a"`, `"source_cluster_id":"../x"`)
	case 2:
		text = c38Splice(t, `"source_cluster_id":"cluster-a"`, `"source_cluster_id":"cluster-\u0061"`)
	case 3:
		text = c38Splice(t, `"created_at_unix_ms":1800000000000`, `"created_at_unix_ms":1.8e12`)
	case 4:
		text = c38Splice(t, `"created_at_unix_ms":1800000000000`, `"created_at_unix_ms":9223372036854775808`)
	default:
		text = c38GenericVariant(t, v)
	}
	got, derr := LoadRepositoryMarker(text)
	zzsym.Reach("repository marker text decided")
	c38Decide("decode repository", v, v == 0, derr)
	zzsym.Assert(v != 0 || got == value, "LoadRepositoryMarker reproduces the canonical value")
}

func c38ConcreteArchiveManifest() ArchiveManifest {
	slots := make([]SlotReference, DefaultHashSlotCount)
	for slot := range slots {
		slots[slot] = SlotReference{
			HashSlot: uint16(slot), ManifestKey: fmt.Sprintf("slots/%03d/manifest.json", slot),
			ManifestSHA256: c38A, LogicalBytes: uint64(slot + 1), StoredBytes: uint64(slot + 2), Records: 1,
		}
	}
	return ArchiveManifest{
		Format: ArchiveFormat, Version: ArchiveVersion, ID: "bk_20260729_010000_01", Trigger: TriggerScheduled,
		SourceClusterID: "cluster-1", SourceApplication: "wukongim-test", HashSlotCount: DefaultHashSlotCount,
		StartedAtUnixMillis: 1785267600000, CompletedAtUnixMillis: 1785267660000,
		CutStartedUnixMillis: 1785267601000, CutEndedUnixMillis: 1785267602000,
		Compression: CompressionZstd, Checksum: ChecksumSHA256, Slots: slots,
	}
}

func c38SameArchiveManifest(a, b ArchiveManifest) bool {
	if a.Format != b.Format || a.Version != b.Version || a.ID != b.ID || a.Trigger != b.Trigger ||
		a.SourceClusterID != b.SourceClusterID || a.SourceApplication != b.SourceApplication ||
		a.HashSlotCount != b.HashSlotCount || a.StartedAtUnixMillis != b.StartedAtUnixMillis ||
		a.CompletedAtUnixMillis != b.CompletedAtUnixMillis || a.CutStartedUnixMillis != b.CutStartedUnixMillis ||
		a.CutEndedUnixMillis != b.CutEndedUnixMillis || a.Compression != b.Compression || a.Checksum != b.Checksum ||
		a.LogicalBytes != b.LogicalBytes || a.StoredBytes != b.StoredBytes || a.Records != b.Records ||
		a.MaxMessageID != b.MaxMessageID || len(a.Slots) != len(b.Slots) {
		return false
	}
	same := true
	for i := range a.Slots {
		same = same && a.Slots[i] == b.Slots[i]
	}
	return same
}

// C38SameArchiveManifest is c38SameArchiveManifest for part 2 of the harness.
func C38SameArchiveManifest(a, b ArchiveManifest) bool { return c38SameArchiveManifest(a, b) }

// Harness_C38_DecodeArchiveManifest: LoadArchiveManifest (and LoadCompleteMarker bound to it) over the
// literal catalogue; the canonical text has all 256 Slot references.
func Harness_C38_DecodeArchiveManifest() {
	value := c38ConcreteArchiveManifest()
	t, err := MarshalArchiveManifest(value)
	zzsym.Assume(err == nil)
	v := zzsym.Choice("variant", c38GenericVariants+10)
	var text []byte
	switch v - c38GenericVariants {
	case 0:
		text = c38Splice(t, `"hash_slot_count":256`, `"hash_slot_count":255`)
	case 1:
		text = c38Splice(t, `"slots":[`, `"slots":null,"x":[`)
	case 2: // Slot 1 listed twice, Slot 0 missing
		text = c38Splice(t, `{"hash_slot":0,"manifest_key":"slots/000/`, `{"hash_slot":1,"manifest_key":"slots/001/`)
	case 3: // Slot 255 dropped
		at := c38Index(t, `,{"hash_slot":255,`, 0)
		text = append(c38Clone(t[:at]), "]}"...)
	case 4: // unknown field inside a Slot reference
		text = c38Splice(t, `{"hash_slot":0,`, `{"hash_slot":0,"extra":"",`)
	case 5: // a digest in upper case
		text = c38Splice(t, `"manifest_sha256":"a`, `"manifest_sha256":"A`)
	case 6: // a Slot number that does not fit its type
		text = c38Splice(t, `{"hash_slot":0,`, `{"hash_slot":65536,`)
	case 7: // a byte count that does not fit its type
		text = c38Splice(t, `"logical_bytes":1,`, `"logical_bytes":18446744073709551616,`)
	case 8: // a traversal key
		text = c38Splice(t, `"manifest_key":"slots/000/manifest.json"`, `"manifest_key":"slots/000/../000/manifest.json"`)
	case 9: // a non-zero total that is not the sum
		text = c38Splice(t, `"records":0,"max_message_id":0,"slots"`, `"records":7,"max_message_id":0,"slots"`)
	default:
		text = c38GenericVariant(t, v)
	}
	got, derr := LoadArchiveManifest(text)
	zzsym.Reach("archive manifest text decided")
	c38Decide("decode archive", v, v == 0, derr)
	zzsym.Assert(v != 0 || c38SameArchiveManifest(got, value), "LoadArchiveManifest reproduces the canonical value")
	// the publication marker accepts the manifest text exactly when the manifest decoder does
	marker := CompleteMarker{Format: CompleteMarkerFormat, Version: CompleteMarkerVersion, ManifestBytes: uint64(len(text))}
	sum := sha256.Sum256(text)
	marker.ManifestSHA256 = hex.EncodeToString(sum[:])
	markerBody, merr := MarshalCompleteMarker(marker)
	if len(text) > 0 {
		zzsym.Assert(merr == nil, "MarshalCompleteMarker encodes a well-formed marker")
		_, lerr := LoadCompleteMarker(markerBody, text)
		zzsym.Assert((lerr == nil) == (v == 0), "LoadCompleteMarker refuses to publish a manifest text the manifest decoder refuses")
	}
}

// Harness_C38_DecodeCompleteMarker: LoadCompleteMarker over the literal catalogue, bound to a
// canonical 256-Slot manifest.
func Harness_C38_DecodeCompleteMarker() {
	manifestBody, err := MarshalArchiveManifest(c38ConcreteArchiveManifest())
	zzsym.Assume(err == nil)
	value, err := NewCompleteMarker(manifestBody)
	zzsym.Assert(err == nil, "NewCompleteMarker accepts a canonical manifest")
	t, err := MarshalCompleteMarker(value)
	zzsym.Assume(err == nil)
	v := zzsym.Choice("variant", c38GenericVariants+6)
	var text []byte
	size := fmt.Sprintf(`"manifest_bytes":%d`, len(manifestBody))
	switch v - c38GenericVariants {
	case 0:
		text = c38Splice(t, size, fmt.Sprintf(`"manifest_bytes":%d`, len(manifestBody)+1))
	case 1:
		text = c38Splice(t, size, `"manifest_bytes":0`)
	case 2:
		text = c38Splice(t, `"manifest_sha256":"`+value.ManifestSHA256[:1], `"manifest_sha256":"`+strings.ToUpper(value.ManifestSHA256[:1])+"0")
	case 3: // 63 characters
		text = c38Splice(t, `"manifest_sha256":"`+value.ManifestSHA256[:1], `"manifest_sha256":"`)
	case 4: // another well-formed digest
		text = c38Splice(t, `"manifest_sha256":"`+value.ManifestSHA256, `"manifest_sha256":"`+c38A)
	case 5:
		text = c38Splice(t, size, size+`.0`)
	default:
		text = c38GenericVariant(t, v)
	}
	got, derr := LoadCompleteMarker(text, manifestBody)
	zzsym.Reach("complete marker text decided")
	c38Decide("decode marker", v, v == 0, derr)
	zzsym.Assert(v != 0 || got == value, "LoadCompleteMarker reproduces the canonical value")
}

// Harness_C38_DecodeSlotManifest: LoadSlotManifest over the literal catalogue.
func Harness_C38_DecodeSlotManifest() {
	value := c38ConcreteSlotManifest()
	t, err := MarshalSlotManifest(value)
	zzsym.Assume(err == nil)
	v := zzsym.Choice("variant", c38GenericVariants+10)
	var text []byte
	switch v - c38GenericVariants {
	case 0:
		text = c38Splice(t, `"chunks":[`, `"chunks":null,"x":[`)
	case 1:
		text = c38Splice(t, `"cut":{`, `"cut":{"extra":1,`)
	case 2:
		text = c38Splice(t, `"descriptor":{`, `"descriptor":{"extra":1,`)
	case 3:
		text = c38Splice(t, `"final":true`, `"final":1`)
	case 4:
		text = c38Splice(t, `"logical_bytes":12`, `"logical_bytes":18446744073709551616`)
	case 5: // the largest representable size, consistent with nothing
		text = c38Splice(t, `"stored_bytes":8`, `"stored_bytes":18446744073709551615`)
	case 6:
		text = c38Splice(t, `"compression":"zstd"`, `"compression":"zst\u0064"`)
	case 7:
		text = c38Splice(t, `"key":"slots/007/meta-000001.zst"`, `"key":"slots/007/../007/meta-000001.zst"`)
	case 8: // the two chunks in the other order
		a := c38Index(t, `{"kind":"metadata"`, 0)
		b := c38Index(t, `{"kind":"messages"`, 0)
		end := c38Index(t, `],"logical_bytes":36`, 0)
		text = append(c38Clone(t[:a]), t[b:end]...)
		text = append(text, ',')
		text = append(text, t[a:b-1]...)
		text = append(text, t[end:]...)
	case 9:
		text = c38Splice(t, `"hash_slot":7`, `"hash_slot":256`)
	default:
		text = c38GenericVariant(t, v)
	}
	got, derr := LoadSlotManifest(text)
	zzsym.Reach("slot manifest text decided")
	c38Decide("decode slot", v, v == 0, derr)
	zzsym.Assert(v != 0 || c38SameSlotManifest(got, value), "LoadSlotManifest reproduces the canonical value")
}

// Harness_C38_DecodeMessageIndex: LoadMessageChunkManifest over the literal catalogue.
func Harness_C38_DecodeMessageIndex() {
	mk := func(seq, part uint32, final bool) ChunkReference {
		return ChunkReference{Kind: ChunkKindMessages, Sequence: seq, Stream: 4, Part: part, Final: final,
			Key:        fmt.Sprintf("slots/007/attempts/00000001/messages-%06d.zst", seq),
			Descriptor: ChunkDescriptor{StoredSHA256: c38A, LogicalSHA256: c38B, LogicalBytes: 5, StoredBytes: 9, Compression: CompressionZstd}}
	}
	value, err := NewMessageChunkManifest(7, []ChunkReference{mk(9, 1, false), mk(10, 2, true)})
	zzsym.Assume(err == nil)
	t, err := MarshalMessageChunkManifest(value)
	zzsym.Assume(err == nil)
	v := zzsym.Choice("variant", c38GenericVariants+5)
	var text []byte
	switch v - c38GenericVariants {
	case 0:
		text = c38Splice(t, `"chunks":[`, `"chunks":[],"x":[`)
	case 1:
		text = c38Splice(t, `"descriptor":{`, `"descriptor":{"extra":1,`)
	case 2:
		text = c38Splice(t, `"part":2`, `"part":4294967296`)
	case 3:
		text = c38Splice(t, `"stored_bytes":18`, `"stored_bytes":18446744073709551615`)
	case 4:
		text = c38Splice(t, `"sequence":10`, `"sequence":11`)
	default:
		text = c38GenericVariant(t, v)
	}
	got, derr := LoadMessageChunkManifest(text)
	zzsym.Reach("message index text decided")
	c38Decide("decode index", v, v == 0, derr)
	same := v != 0 || (got.Format == value.Format && got.Version == value.Version && got.HashSlot == value.HashSlot &&
		got.LogicalBytes == value.LogicalBytes && got.StoredBytes == value.StoredBytes && got.Records == value.Records &&
		got.MaxMessageID == value.MaxMessageID && len(got.Chunks) == 2 && got.Chunks[0] == value.Chunks[0] && got.Chunks[1] == value.Chunks[1])
	zzsym.Assert(same, "LoadMessageChunkManifest reproduces the canonical value")
}

// ---------------------------------------------------------------------------------------------
// Single-byte changes of concrete manifest texts (everything concrete: the real SHA-256 and the real
// encoding/json decide)

func c38FlipByte(body []byte, stride int, masks []byte) ([]byte, int, byte) {
	count := (len(body) + stride - 1) / stride
	at := zzsym.Choice("flip.at", count) * stride
	mask := masks[zzsym.Choice("flip.mask", len(masks))]
	out := c38Clone(body)
	out[at] ^= mask
	return out, at, mask
}

// Harness_C38_SlotManifestByteFlip: a stored Slot (concrete content) whose manifest object has ONE
// byte changed never loads against its reference; without the reference it either fails to load or
// loads as a different manifest value (the canonical decoder maps no two texts to one value).
func Harness_C38_SlotManifestByteFlip() {
	store := &C38Store{}
	ref, written, err := C38WriteSlot(store, c38ID, 7, []C38Stream{
		{Kind: ChunkKindMetadata, Parts: [][]byte{{0x11, 0x12}}, Records: 2},
		{Kind: ChunkKindMessages, Parts: [][]byte{{0x21}}, Records: 3, MaxMessageID: 99},
	})
	zzsym.Assume(err == nil)
	key := "backups/" + c38ID + "/" + ref.ManifestKey
	stride, masks := 6, []byte{0x01, 0x20}
	if zzsym.Thorough() {
		stride, masks = 1, []byte{0x01, 0x02, 0x10, 0x20, 0x80}
	}
	flipped, at, mask := c38FlipByte(store.Get(key), stride, masks)
	store.Set(key, flipped)
	_, _, rerr := LoadStoredSlotReference(c38Ctx(), store, c38ID, ref, true)
	_, loaded, lerr := LoadStoredSlot(c38Ctx(), store, c38ID, 7, true)
	zzsym.Reach("slot manifest with one changed byte loaded")
	zzsym.Assert(rerr != nil, "LoadStoredSlotReference rejects a Slot manifest object with one changed byte")
	zzsym.Assert(lerr != nil || !c38SameSlotManifest(loaded, written), "a Slot manifest text with one changed byte does not decode to the original value")
	zzsym.Observe("slot flip", uint64(at), uint64(mask), zzsym.B2U(rerr != nil), zzsym.B2U(lerr != nil))
}

// Harness_C38_MarkerByteFlip: a COMPLETE marker text with ONE byte changed never publishes the
// (canonical, 256-Slot) manifest it was computed for.
func Harness_C38_MarkerByteFlip() {
	manifestBody, err := MarshalArchiveManifest(c38ConcreteArchiveManifest())
	zzsym.Assume(err == nil)
	marker, err := NewCompleteMarker(manifestBody)
	zzsym.Assume(err == nil)
	text, err := MarshalCompleteMarker(marker)
	zzsym.Assume(err == nil)
	stride, masks := 9, []byte{0x01}
	if zzsym.Thorough() {
		stride, masks = 1, []byte{0x01, 0x04, 0x20, 0x80}
	}
	flipped, at, mask := c38FlipByte(text, stride, masks)
	_, lerr := LoadCompleteMarker(flipped, manifestBody)
	zzsym.Reach("marker with one changed byte loaded")
	zzsym.Assert(lerr != nil, "LoadCompleteMarker rejects a marker text with one changed byte")
	zzsym.Observe("marker flip", uint64(at), uint64(mask), zzsym.B2U(lerr != nil))
}
