package meta

import "github.com/WuKongIM/WuKongIM/pkg/db/internal/engine"

// ZZC39ResetStores / ZZC39Dump expose the in-memory engine's harness helpers to packages that may
// not import pkg/db/internal (verification overlay only).
func ZZC39ResetStores() { engine.ZZResetStores() }

func ZZC39Dump(path string) (keys [][]byte, values [][]byte) { return engine.ZZDump(path) }
