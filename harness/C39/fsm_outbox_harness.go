package fsm

import (
	"context"

	"github.com/WuKongIM/WuKongIM/internal/zzsym"
	metadb "github.com/WuKongIM/WuKongIM/pkg/db/meta"
	"github.com/WuKongIM/WuKongIM/pkg/slot/multiraft"
)

// Source side of the exactly-once argument: every write the source accepts while a hash slot is in
// its delta phase stays in the durable outbox until the target acknowledged THAT write, whatever the
// order in which live forwards are delivered, lost and acknowledged; the retry pass over the outbox
// then delivers what is left, and at the end every accepted write has exactly one applied-delta
// record on the target and the outbox is empty.

// Harness_C39_OutboxExactlyOnce: 2 (thorough 3) accepted writes; a symbolic schedule delivers (and
// acknowledges) any subset of the live forwards in any order; then retry pass, fence, drain.
func Harness_C39_OutboxExactlyOnce() {
	metadb.ZZC39ResetStores()
	ctx := context.Background()
	const hashSlot, sourceSlot, targetSlot = uint16(1), uint64(1), uint64(2)
	src, _ := c39Machine("c39-src", sourceSlot, []uint16{hashSlot})
	tgt, tdb := c39Machine("c39-tgt", targetSlot, []uint16{7})
	tgt.UpdateIncomingDeltaHashSlots([]uint16{hashSlot})
	src.UpdateOutgoingDeltaTargets(map[uint16]multiraft.SlotID{hashSlot: multiraft.SlotID(targetSlot)})
	var forwarded []multiraft.Command
	src.SetDeltaForwarder(func(_ context.Context, to multiraft.SlotID, cmd multiraft.Command) error {
		zzsym.Assert(uint64(to) == targetSlot, "a delta was forwarded to a slot that is not the migration target")
		forwarded = append(forwarded, cmd)
		return nil
	})
	n := 2
	if zzsym.Thorough() {
		n = 3
	}
	srcIndex, tgtIndex := uint64(100), uint64(0)
	applySource := func(data []byte) []byte {
		srcIndex++
		res, err := src.ApplyBatch(ctx, []multiraft.Command{{SlotID: multiraft.SlotID(sourceSlot), HashSlot: hashSlot, Index: srcIndex, Term: 1, Data: data}})
		zzsym.Assert(err == nil && len(res) == 1, "the source fails on an ordinary command during the delta phase")
		if err != nil || len(res) != 1 {
			return nil
		}
		return res[0]
	}
	writes := make([][]byte, n)
	index := make([]uint64, n)
	acked := make([]bool, n)
	for i := 0; i < n; i++ {
		writes[i] = c39Write()
		res := applySource(writes[i])
		index[i] = srcIndex
		zzsym.Assert(string(res) != ApplyResultHashSlotFenced, "a write is refused as fenced before the fence")
	}
	zzsym.Assert(len(forwarded) == n, "not every accepted write was handed to the forwarder")
	deliver := func(i int, data []byte) {
		tgtIndex++
		_, err := tgt.ApplyBatch(ctx, []multiraft.Command{{SlotID: multiraft.SlotID(targetSlot), HashSlot: hashSlot, Index: tgtIndex, Term: 1,
			Data: EncodeApplyDeltaCommand(multiraft.SlotID(sourceSlot), index[i], hashSlot, data)}})
		zzsym.Assert(err == nil, "the target fails on a forwarded delta")
		applySource(EncodeAckHashSlotMigrationOutboxCommand(hashSlot, multiraft.SlotID(sourceSlot), multiraft.SlotID(targetSlot), index[i]))
		acked[i] = true
	}
	checkOutbox := func() {
		rows, err := src.ListHashSlotMigrationOutbox(ctx, hashSlot, sourceSlot, targetSlot, 0, 16)
		ok := err == nil
		k := 0
		for i := 0; i < n && ok; i++ {
			if acked[i] {
				continue
			}
			if k >= len(rows) || rows[k].SourceIndex != index[i] || string(rows[k].Data) != string(writes[i]) {
				ok = false
				break
			}
			k++
		}
		zzsym.Assert(ok && k == len(rows), "the durable outbox is not exactly the accepted writes the target has not acknowledged (a row was dropped before delivery, kept after its acknowledgement, or altered)")
	}
	checkOutbox()
	// live forwards: each round delivers one not yet delivered forward, or loses the rest
	for r := 0; r < n; r++ {
		pick := zzsym.Choice("deliver"+string(rune('0'+r)), n+1)
		if pick == n || acked[pick] {
			break
		}
		deliver(pick, forwarded[pick].Data)
		checkOutbox()
	}
	zzsym.Reach("outbox-live-phase")
	// retry pass over the durable outbox, fence, drain again
	drain := func() {
		rows, err := src.ListHashSlotMigrationOutbox(ctx, hashSlot, sourceSlot, targetSlot, 0, 16)
		zzsym.Assert(err == nil, "listing the outbox fails")
		for _, row := range rows {
			for i := 0; i < n; i++ {
				if index[i] == row.SourceIndex {
					deliver(i, row.Data)
				}
			}
		}
	}
	drain()
	var late []byte
	lateWrite := EncodeUpsertUserCommand(metadb.User{UID: "u-late", Token: "t"}) // concrete: which write it is does not matter here
	if zzsym.Choice("fence.batch", 2) == 1 {
		// the fence and a later write for the same hash slot share ONE apply batch
		srcIndex += 2
		res, err := src.ApplyBatch(ctx, []multiraft.Command{
			{SlotID: multiraft.SlotID(sourceSlot), HashSlot: hashSlot, Index: srcIndex - 1, Term: 1, Data: EncodeEnterFenceCommand(hashSlot)},
			{SlotID: multiraft.SlotID(sourceSlot), HashSlot: hashSlot, Index: srcIndex, Term: 1, Data: lateWrite}})
		zzsym.Assert(err == nil && len(res) == 2, "the source fails on a batch holding the fence and a later write")
		if err == nil && len(res) == 2 {
			late = res[1]
		}
		zzsym.Reach("fence-shares-batch")
	} else {
		applySource(EncodeEnterFenceCommand(hashSlot))
		late = applySource(lateWrite)
	}
	zzsym.Assert(string(late) == ApplyResultHashSlotFenced, "the source accepts a write for the hash slot after the fence")
	drain()
	// the fence is durable: a write in a later batch is refused as well
	later := applySource(lateWrite)
	zzsym.Assert(string(later) == ApplyResultHashSlotFenced, "the source accepts a write for the hash slot in a batch after the fence")
	zzsym.Reach("outbox-drained")
	deltas, err := tdb.ListAppliedHashSlotDeltas(ctx, hashSlot)
	zzsym.Assert(err == nil, "listing applied deltas fails")
	for i := 0; i < n; i++ {
		count := 0
		for _, d := range deltas {
			if d.SourceSlot == sourceSlot && d.SourceIndex == index[i] {
				count++
			}
		}
		zzsym.Assert(count == 1, "an accepted write is not present exactly once in the target's applied deltas after the drain")
	}
	rows, err := src.ListHashSlotMigrationOutbox(ctx, hashSlot, sourceSlot, targetSlot, 0, 16)
	left := 0
	for _, row := range rows {
		for i := 0; i < n; i++ {
			if index[i] == row.SourceIndex {
				left++
			}
		}
	}
	zzsym.Assert(err == nil && left == 0, "an acknowledged write is still in the outbox after the drain")
}
