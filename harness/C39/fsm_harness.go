package fsm

import (
	"context"

	"github.com/WuKongIM/WuKongIM/internal/zzsym"
	metadb "github.com/WuKongIM/WuKongIM/pkg/db/meta"
	"github.com/WuKongIM/WuKongIM/pkg/slot/multiraft"
)

// C39 (slice): the delta-replay and fence obligations of hash-slot migration, through the REAL
// slot state machine and meta DB on the in-memory engine and synchronous commit coordinator.

func c39Small(name string) int64 { return int64(zzsym.U8(name) & 0x3f) }

// c39Write builds one ordinary metadata write for hash slot 1 (encoded command bytes).
func c39Write() []byte {
	uid := "u1"
	if zzsym.Choice("uid", 2) == 1 {
		uid = "u2"
	}
	switch zzsym.Choice("kind", 4) {
	case 0:
		return EncodeUpsertUserCommand(metadb.User{UID: uid, Token: "t", DeviceFlag: c39Small("deviceflag"), DeviceLevel: c39Small("devicelevel")})
	case 1:
		return EncodeUpsertChannelCommand(metadb.Channel{ChannelID: "g1", ChannelType: 2, Ban: c39Small("ban"), Disband: c39Small("disband")})
	case 2:
		return EncodeAddSubscribersCommand("g1", 2, []string{uid})
	default:
		return EncodeRemoveSubscribersCommand("g1", 2, []string{uid})
	}
}

func c39Machine(path string, slot uint64, owned []uint16) (*stateMachine, *metadb.DB) {
	db, err := metadb.Open(path)
	zzsym.Assume(err == nil)
	sm, err := NewStateMachineWithHashSlots(db, slot, owned)
	zzsym.Assume(err == nil)
	return sm.(*stateMachine), db
}

func c39SameStores(a, b string) bool {
	ka, va := metadb.ZZC39Dump(a)
	kb, vb := metadb.ZZC39Dump(b)
	if len(ka) != len(kb) {
		return false
	}
	same := true
	for i := range ka {
		if len(ka[i]) != len(kb[i]) || len(va[i]) != len(vb[i]) {
			return false
		}
		for j := range ka[i] {
			same = same && ka[i][j] == kb[i][j]
		}
		for j := range va[i] {
			same = same && va[i][j] == vb[i][j]
		}
	}
	return same
}

// Harness_C39_DeltaAppliedOnce: a write forwarded as a delta (source slot, source index, hash slot)
// is applied once on the target even when the same delta is replayed — in a later batch, in the
// same batch, or after a restart of the target — and a second, different delta is still applied.
func Harness_C39_DeltaAppliedOnce() {
	metadb.ZZC39ResetStores()
	ctx := context.Background()
	w1, w2 := c39Write(), c39Write()
	srcIndex := uint64(1 + zzsym.Choice("source.index", 2))
	d1 := EncodeApplyDeltaCommand(1, srcIndex, 1, w1)
	d2 := EncodeApplyDeltaCommand(1, srcIndex+1, 1, w2)
	// reference target: each delta once
	ref, _ := c39Machine("c39-ref", 2, []uint16{1})
	_, errRef := ref.ApplyBatch(ctx, []multiraft.Command{{SlotID: 2, HashSlot: 1, Index: 1, Term: 1, Data: d1}, {SlotID: 2, HashSlot: 1, Index: 2, Term: 1, Data: d2}})
	zzsym.Assume(errRef == nil)
	// target under replay
	tgt, db := c39Machine("c39-tgt", 2, []uint16{1})
	var err error
	// the replay of d1 arrives AFTER d2, so that re-applying it would be visible whenever d2 undid
	// or overwrote d1's effect (remove after add, second upsert of the same row, ...)
	c := func(index uint64, data []byte) multiraft.Command {
		return multiraft.Command{SlotID: 2, HashSlot: 1, Index: index, Term: 1, Data: data}
	}
	switch zzsym.Choice("replay", 3) {
	case 0: // replay in a later batch (in-memory replay cache)
		_, err = tgt.ApplyBatch(ctx, []multiraft.Command{c(1, d1), c(2, d2)})
		zzsym.Assume(err == nil)
		_, err = tgt.ApplyBatch(ctx, []multiraft.Command{c(3, d1)})
	case 1: // replay inside one batch (pending-records map)
		_, err = tgt.ApplyBatch(ctx, []multiraft.Command{c(1, d1), c(2, d2), c(3, d1)})
	default: // replay after a restart of the target (cache lost, durable applied-delta record kept)
		_, err = tgt.ApplyBatch(ctx, []multiraft.Command{c(1, d1), c(2, d2)})
		zzsym.Assume(err == nil)
		zzsym.Assume(db.Close() == nil)
		tgt, _ = c39Machine("c39-tgt", 2, []uint16{1})
		_, err = tgt.ApplyBatch(ctx, []multiraft.Command{c(3, d1)})
	}
	zzsym.Reach("delta-replayed")
	zzsym.Assert(err == nil, "a replayed delta makes the target fail")
	// same content except the applied-index watermark: compare after aligning the watermark
	_, errA := ref.ApplyBatch(ctx, []multiraft.Command{{SlotID: 2, HashSlot: 1, Index: 3, Term: 1, Data: EncodeNoopCommand()}})
	zzsym.Assume(errA == nil)
	zzsym.Assert(c39SameStores("c39-ref", "c39-tgt"), "a replayed delta was applied twice (or a delta was lost)")
}

// Harness_C39_DeltaEqualsDirectWrite: a write applied on the source slot and the same write
// forwarded as a delta to the target produce the same metadata rows for the hash slot.
func Harness_C39_DeltaEqualsDirectWrite() {
	metadb.ZZC39ResetStores()
	ctx := context.Background()
	w := c39Write()
	src, _ := c39Machine("c39-src", 2, []uint16{1})
	_, errS := src.ApplyBatch(ctx, []multiraft.Command{{SlotID: 2, HashSlot: 1, Index: 1, Term: 1, Data: w}})
	tgt, _ := c39Machine("c39-tgt", 2, []uint16{1})
	_, errT := tgt.ApplyBatch(ctx, []multiraft.Command{{SlotID: 2, HashSlot: 1, Index: 1, Term: 1, Data: EncodeApplyDeltaCommand(1, 7, 1, w)}})
	zzsym.Reach("delta-vs-direct")
	zzsym.Assert((errS == nil) == (errT == nil), "a write accepted directly is refused as a delta (or the reverse)")
	if errS != nil || errT != nil {
		return
	}
	// the target additionally holds the applied-delta record: remove it by replaying nothing and
	// comparing the domain rows through the store getters
	su, eu := src.db.ForHashSlot(1).GetUser(ctx, "u1")
	tu, fu := tgt.db.ForHashSlot(1).GetUser(ctx, "u1")
	zzsym.Assert((eu == nil) == (fu == nil) && su == tu, "user row differs between direct write and delta")
	su2, eu2 := src.db.ForHashSlot(1).GetUser(ctx, "u2")
	tu2, fu2 := tgt.db.ForHashSlot(1).GetUser(ctx, "u2")
	zzsym.Assert((eu2 == nil) == (fu2 == nil) && su2 == tu2, "user row differs between direct write and delta")
	sc, ec := src.db.ForHashSlot(1).GetChannel(ctx, "g1", 2)
	tc, fc := tgt.db.ForHashSlot(1).GetChannel(ctx, "g1", 2)
	zzsym.Assert((ec == nil) == (fc == nil) && sc == tc, "channel row differs between direct write and delta")
}

// Harness_C39_ForeignSlotWriteRefused: while hash slot 1 belongs to another slot, ordinary writes
// for it are refused by a slot that does not own it and leave its store untouched.
func Harness_C39_ForeignSlotWriteRefused() {
	metadb.ZZC39ResetStores()
	ctx := context.Background()
	other, _ := c39Machine("c39-other", 3, []uint16{2})
	kb, vb := metadb.ZZC39Dump("c39-other")
	_, err := other.ApplyBatch(ctx, []multiraft.Command{{SlotID: 3, HashSlot: 1, Index: 1, Term: 1, Data: c39Write()}})
	zzsym.Reach("foreign-write")
	zzsym.Assert(err != nil, "an ordinary write for a hash slot the slot does not own was accepted")
	ka, va := metadb.ZZC39Dump("c39-other")
	zzsym.Assert(len(ka) == len(kb) && len(va) == len(vb), "a refused write changed the store")
}
