package conversation

import (
	"context"
	"time"

	"github.com/WuKongIM/WuKongIM/internal/zzsym"
	metadb "github.com/WuKongIM/WuKongIM/pkg/db/meta"
)

// ---------------------------------------------------------------- reference (harness side)

// c34ReadPoint is the effective read point of the property statement:
// max(join-1, deletedTo, retention, readSeq, ownLastSend). join-1 saturates at 0, so no
// sub-expression can wrap.
func c34ReadPoint(join, deletedTo, retention, readSeq, ownSend uint64) uint64 {
	p := uint64(0)
	if join > 0 {
		p = join - 1
	}
	if deletedTo > p {
		p = deletedTo
	}
	if retention > p {
		p = retention
	}
	if readSeq > p {
		p = readSeq
	}
	if ownSend > p {
		p = ownSend
	}
	return p
}

// c34Unread is max(0, last - readPoint) with explicit saturation.
func c34Unread(last, readPoint uint64) uint64 {
	if last <= readPoint {
		return 0
	}
	return last - readPoint
}

func c34SymRow() metadb.UserChannelMembership {
	return metadb.UserChannelMembership{
		UID:           "u1",
		ChannelID:     "g1",
		ChannelType:   2,
		JoinSeq:       zzsym.U64("row.join"),
		ReadSeq:       zzsym.U64("row.read"),
		DeletedToSeq:  zzsym.U64("row.deleted"),
		ActivatedAt:   zzsym.I64("row.activated"),
		Tombstone:     zzsym.Bool("row.tombstone"),
		TombstoneAt:   zzsym.I64("row.tombstoneAt"),
		SourceVersion: zzsym.U64("row.srcver"),
		UpdatedAt:     zzsym.I64("row.updated"),
	}
}

func c34SymHead(withMessage bool) HydrationResult {
	h := HydrationResult{
		Key:                    ConversationKey{ChannelID: "g1", ChannelType: 2},
		Outcome:                HydrationOutcome(zzsym.U8("head.outcome")),
		LastCommittedSeq:       zzsym.U64("head.last"),
		RetentionThroughSeq:    zzsym.U64("head.retention"),
		CurrentUserLastSendSeq: zzsym.U64("head.ownsend"),
	}
	if withMessage {
		h.LastMessage = &LastMessage{
			MessageID:         zzsym.U64("msg.id"),
			MessageSeq:        zzsym.U64("msg.seq"),
			FromUID:           "u2",
			ClientMsgNo:       "c1",
			ServerTimestampMS: zzsym.I64("msg.ts"),
			Payload:           zzsym.Bytes("msg.payload", 2),
		}
	}
	return h
}

// ---------------------------------------------------------------- entry 1: the pure projection

// Harness_C34_Projection: conversationFromMembership on fully symbolic 64-bit rows and heads.
func Harness_C34_Projection() {
	row := c34SymRow()
	withMessage := zzsym.Choice("withMessage", 2) == 1
	head := c34SymHead(withMessage)

	conv, ok := conversationFromMembership(row, head)
	if !ok {
		zzsym.Reach("omitted")
		// an omitted row shows nothing at all
		zzsym.Assert(conv.LastMessage == nil && conv.Unread == 0, "an omitted conversation carries a last message or an unread count")
		return
	}
	zzsym.Reach("returned")

	readPoint := c34ReadPoint(row.JoinSeq, row.DeletedToSeq, head.RetentionThroughSeq, row.ReadSeq, head.CurrentUserLastSendSeq)
	want := c34Unread(head.LastCommittedSeq, readPoint)
	zzsym.Assert(conv.Unread == want, "Unread != max(0, LastCommittedSeq - max(join-1, deletedTo, retention, readSeq, ownLastSend))")
	// "never negative": the unsigned count never exceeds the number of committed messages
	zzsym.Assert(conv.Unread <= head.LastCommittedSeq, "Unread exceeds LastCommittedSeq (wrapped / negative)")
	// the count covers only messages after every single component of the read point
	zzsym.Assert(conv.Unread == 0 || head.LastCommittedSeq-conv.Unread >= row.ReadSeq, "unread counts messages at or below ReadSeq")
	zzsym.Assert(conv.Unread == 0 || head.LastCommittedSeq-conv.Unread >= row.DeletedToSeq, "unread counts messages at or below DeletedToSeq")
	zzsym.Assert(conv.Unread == 0 || head.LastCommittedSeq-conv.Unread >= head.RetentionThroughSeq, "unread counts messages at or below the retention boundary")
	zzsym.Assert(conv.Unread == 0 || head.LastCommittedSeq-conv.Unread >= head.CurrentUserLastSendSeq, "unread counts messages at or below the user's own last send")
	zzsym.Assert(conv.Unread == 0 || row.JoinSeq == 0 || head.LastCommittedSeq-conv.Unread >= row.JoinSeq-1, "unread counts messages before the join point")
	if conv.Unread > 0 {
		zzsym.Reach("unread-positive")
	} else {
		zzsym.Reach("unread-zero")
	}

	// the row's own cursors are reported unchanged
	zzsym.Assert(conv.JoinSeq == row.JoinSeq && conv.ReadSeq == row.ReadSeq && conv.DeletedToSeq == row.DeletedToSeq, "row cursors are not passed through")

	if conv.LastMessage != nil {
		zzsym.Reach("last-message-shown")
		zzsym.Assert(withMessage, "a last message appeared although the head had none")
		seq := conv.LastMessage.MessageSeq
		zzsym.Assert(seq == head.LastMessage.MessageSeq && conv.LastMessage.MessageID == head.LastMessage.MessageID, "the shown last message is not the hydrated one")
		zzsym.Assert(seq >= row.JoinSeq, "last message is from before the user joined")
		zzsym.Assert(seq > row.DeletedToSeq, "last message is at or below the delete-to boundary")
		zzsym.Assert(seq > head.RetentionThroughSeq, "last message is at or below the retention boundary")
		zzsym.Assert(len(conv.LastMessage.Payload) == 2 && conv.LastMessage.Payload[0] == head.LastMessage.Payload[0] && conv.LastMessage.Payload[1] == head.LastMessage.Payload[1], "payload of the shown last message differs")
		zzsym.Observe("last", seq, conv.LastMessage.MessageID)
	} else {
		zzsym.Reach("last-message-hidden")
	}
	zzsym.Observe("conv", conv.Unread, conv.ReadSeq, conv.DeletedToSeq, conv.JoinSeq, uint64(conv.ActiveAt))
}

// ---------------------------------------------------------------- fake ports

type c34PortErr struct{ which uint8 }

func (e *c34PortErr) Error() string { return "c34 port error" }

// c34Store is a fake MembershipMutationStore + HeadHydrator. What it returns is symbolic, what
// it is asked to write is recorded. Its write side follows the port's documented contract
// ("monotonically advance"): it never lowers a cursor.
type c34Store struct {
	row      metadb.UserChannelMembership
	found    bool
	getErr   bool
	heads    []HydrationResult
	hydErr   bool
	writeErr bool

	gets, hydrates     int
	advances, hides    int
	activations        int
	advancedTo, hidTo  uint64
	writeUID, writeCh  string
	writeType, writeAt int64
	hydratedRows       int
	hydratedRead       uint64
}

func (s *c34Store) GetUserChannelMembership(ctx context.Context, uid, channelID string, channelType int64) (metadb.UserChannelMembership, bool, error) {
	s.gets++
	if s.getErr {
		return metadb.UserChannelMembership{}, false, &c34PortErr{1}
	}
	if !s.found {
		return metadb.UserChannelMembership{}, false, nil
	}
	return s.row, true, nil
}

func (s *c34Store) AdvanceUserChannelMembershipReadSeq(ctx context.Context, uid, channelID string, channelType int64, readSeq uint64, updatedAt int64) error {
	s.advances++
	s.advancedTo = readSeq
	s.writeUID, s.writeCh, s.writeType, s.writeAt = uid, channelID, channelType, updatedAt
	if s.writeErr {
		return &c34PortErr{2}
	}
	return nil
}

func (s *c34Store) HideUserChannelMembership(ctx context.Context, uid, channelID string, channelType int64, deletedToSeq uint64, updatedAt int64) error {
	s.hides++
	s.hidTo = deletedToSeq
	s.writeUID, s.writeCh, s.writeType, s.writeAt = uid, channelID, channelType, updatedAt
	if s.writeErr {
		return &c34PortErr{3}
	}
	return nil
}

func (s *c34Store) ActivateUserChannelMembership(ctx context.Context, uid, channelID string, channelType int64, activatedAt, updatedAt int64) error {
	s.activations++
	return nil
}

func (s *c34Store) HydrateConversationHeads(ctx context.Context, uid string, memberships []metadb.UserChannelMembership) ([]HydrationResult, error) {
	s.hydrates++
	s.hydratedRows = len(memberships)
	if len(memberships) > 0 {
		s.hydratedRead = memberships[0].ReadSeq
	}
	if s.hydErr {
		return nil, &c34PortErr{4}
	}
	return s.heads, nil
}

const c34Now = int64(1700000000123456789)

func c34NewApp() (*App, *c34Store) {
	s := &c34Store{
		row:      c34SymRow(),
		found:    zzsym.Bool("store.found"),
		getErr:   zzsym.Bool("store.getErr"),
		hydErr:   zzsym.Bool("store.hydErr"),
		writeErr: zzsym.Bool("store.writeErr"),
	}
	// the hydrator answers with 0, 1 or 2 heads (only 1 is aligned); the first one is symbolic
	n := zzsym.Choice("heads.len", 3)
	withMessage := zzsym.Choice("withMessage", 2) == 1
	for i := 0; i < n; i++ {
		s.heads = append(s.heads, c34SymHead(withMessage))
	}
	app := New(Options{Hydrator: s, MembershipMutations: s, Now: func() time.Time { return time.Unix(0, c34Now) }})
	return app, s
}

// c34Recompute projects the row as the store holds it after the recorded write.
func c34Recompute(s *c34Store) (Conversation, bool) {
	row := s.row
	if s.advances > 0 && s.advancedTo > row.ReadSeq {
		row.ReadSeq = s.advancedTo
	}
	if s.hides > 0 {
		if s.hidTo > row.DeletedToSeq {
			row.DeletedToSeq = s.hidTo
		}
		row.ActivatedAt = 0
	}
	return conversationFromMembership(row, s.heads[0])
}

func c34CommonWriteChecks(s *c34Store, err error) {
	zzsym.Assert(s.advances+s.hides <= 1 && s.activations == 0, "more than one store write for one command")
	if s.advances+s.hides == 1 {
		zzsym.Reach("store-written")
		zzsym.Assert(s.gets == 1 && s.hydrates == 1 && s.found && !s.getErr && !s.hydErr && !s.row.Tombstone, "store written without a live membership and a hydrated head")
		zzsym.Assert(len(s.heads) == 1 && (s.heads[0].Outcome == HydrationOK || s.heads[0].Outcome == HydrationNoVisibleMessage), "store written for a head that is not OK / no-visible-message")
		zzsym.Assert(s.writeUID == "u1" && s.writeCh == "g1" && s.writeType == 2 && s.writeAt == c34Now, "write addressed to a different membership or time")
		zzsym.Assert(s.hydratedRows == 1 && s.hydratedRead == s.row.ReadSeq, "head hydrated for a different row")
		zzsym.Assert((err != nil) == s.writeErr, "store write error not propagated exactly")
	}
}

// ---------------------------------------------------------------- entry 2: ClearUnread

func Harness_C34_ClearUnread() {
	app, s := c34NewApp()
	err := app.ClearUnread(context.Background(), ClearUnreadCommand{UID: "u1", ChannelID: "g1", ChannelType: 2})
	c34CommonWriteChecks(s, err)
	zzsym.Assert(s.hides == 0, "ClearUnread hid the conversation")
	if s.advances == 1 {
		zzsym.Reach("clear-advanced")
		zzsym.Assert(s.advancedTo >= s.row.ReadSeq, "ClearUnread passed a read cursor below ReadSeq")
		zzsym.Assert(s.advancedTo <= s.heads[0].LastCommittedSeq, "ClearUnread marked uncommitted sequences as read")
	}
	if err != nil {
		zzsym.Reach("clear-error")
		zzsym.Observe("clear-err", uint64(s.advances), uint64(s.gets), uint64(s.hydrates))
		return
	}
	zzsym.Reach("clear-ok")
	zzsym.Assert(s.found && !s.row.Tombstone && len(s.heads) == 1, "ClearUnread succeeded without a live membership / aligned head")
	conv, ok := c34Recompute(s)
	if ok {
		zzsym.Reach("clear-recomputed")
		zzsym.Assert(conv.Unread == 0, "unread is not zero after ClearUnread")
	}
	zzsym.Observe("clear", uint64(s.advances), s.advancedTo, conv.Unread, zzsym.B2U(ok))
}

// ---------------------------------------------------------------- entry 3: SetUnread(N)

// Harness_C34_SetUnread: which commands reach the store, with every port answer symbolic
// (missing / tombstoned membership, port errors, misaligned or non-OK heads, negative N), and
// the cursor handed to the store. The value reached by the cursor is Harness_C34_SetUnreadValue.
func Harness_C34_SetUnread() {
	app, s := c34NewApp()
	n := zzsym.Int("cmd.unread")
	err := app.SetUnread(context.Background(), SetUnreadCommand{UID: "u1", ChannelID: "g1", ChannelType: 2, Unread: n})
	c34CommonWriteChecks(s, err)
	zzsym.Assert(s.hides == 0, "SetUnread hid the conversation")
	if n < 0 {
		zzsym.Reach("set-negative")
		zzsym.Assert(err != nil && s.advances == 0 && s.gets == 0, "negative unread target accepted")
		return
	}
	if s.advances == 1 {
		zzsym.Reach("set-advanced")
		zzsym.Assert(s.advancedTo >= s.row.ReadSeq, "SetUnread passed a read cursor below ReadSeq")
	}
	if err != nil {
		zzsym.Reach("set-error")
		zzsym.Observe("set-err", uint64(s.advances), uint64(s.gets), uint64(s.hydrates))
		return
	}
	zzsym.Reach("set-ok")
	zzsym.Assert(s.found && !s.row.Tombstone && len(s.heads) == 1, "SetUnread succeeded without a live membership / aligned head")
	zzsym.Observe("set", uint64(s.advances), s.advancedTo)
}

// Harness_C34_SetUnreadValue: a live membership, an aligned usable head, working ports; row, head
// and N fully symbolic. After SetUnread(N) the unread count recomputed from the row as the store
// now holds it is at most N.
func Harness_C34_SetUnreadValue() {
	s := &c34Store{row: c34SymRow(), found: true}
	zzsym.Assume(!s.row.Tombstone)
	s.heads = []HydrationResult{c34SymHead(zzsym.Thorough() && zzsym.Choice("withMessage", 2) == 1)}
	if zzsym.Thorough() {
		zzsym.Assume(s.heads[0].Outcome == HydrationOK || s.heads[0].Outcome == HydrationNoVisibleMessage)
	} else {
		zzsym.Assume(s.heads[0].Outcome == HydrationOK)
	}
	app := New(Options{Hydrator: s, MembershipMutations: s, Now: func() time.Time { return time.Unix(0, c34Now) }})
	n := zzsym.Int("cmd.unread")
	zzsym.Assume(n >= 0)
	err := app.SetUnread(context.Background(), SetUnreadCommand{UID: "u1", ChannelID: "g1", ChannelType: 2, Unread: n})
	zzsym.Assert(err == nil, "SetUnread failed on a live membership with working ports")
	if s.advances == 1 {
		zzsym.Reach("value-advanced")
		zzsym.Assert(s.advancedTo >= s.row.ReadSeq, "SetUnread passed a read cursor below ReadSeq (value)")
	} else {
		zzsym.Reach("value-unchanged")
	}
	conv, ok := c34Recompute(s)
	if ok {
		zzsym.Reach("set-recomputed")
		zzsym.Assert(conv.Unread <= uint64(n), "unread exceeds N after SetUnread(N)")
		// witness that the bound is tight for some N > 0 (one fork only)
		if zzsym.B2U(conv.Unread == uint64(n))&zzsym.B2U(n > 0) == 1 {
			zzsym.Reach("set-exactly-n")
		}
	}
	zzsym.Observe("setvalue", uint64(s.advances), s.advancedTo, conv.Unread, zzsym.B2U(ok))
}

// ---------------------------------------------------------------- entry 4: DeleteConversation

func Harness_C34_Delete() {
	app, s := c34NewApp()
	err := app.DeleteConversation(context.Background(), DeleteConversationCommand{UID: "u1", ChannelID: "g1", ChannelType: 2})
	c34CommonWriteChecks(s, err)
	zzsym.Assert(s.advances == 0, "DeleteConversation moved the read cursor")
	if s.hides == 1 {
		zzsym.Reach("delete-hidden")
		zzsym.Assert(s.hidTo == s.heads[0].LastCommittedSeq, "DeleteConversation does not hide through the latest committed message")
	}
	if err != nil {
		zzsym.Reach("delete-error")
		zzsym.Observe("delete-err", uint64(s.hides), uint64(s.gets), uint64(s.hydrates))
		return
	}
	zzsym.Reach("delete-ok")
	zzsym.Assert(s.hides == 1, "DeleteConversation succeeded without a store write")
	conv, ok := c34Recompute(s)
	// every committed message is now at or below the delete-to boundary: nothing may be shown
	zzsym.Assert(!ok || (conv.LastMessage == nil && conv.Unread == 0), "a deleted conversation still shows a last message or unread messages")
	zzsym.Observe("delete", uint64(s.hides), s.hidTo, conv.Unread, zzsym.B2U(ok))
}

// ---------------------------------------------------------------- entry 5: rejected targets

// Harness_C34_InvalidTarget: an empty uid / channel id / zero channel type never reaches the store.
func Harness_C34_InvalidTarget() {
	app, s := c34NewApp()
	uid, ch, ct := "u1", "g1", uint8(2)
	switch zzsym.Choice("invalid", 3) {
	case 0:
		uid = ""
	case 1:
		ch = ""
	default:
		ct = 0
	}
	var err error
	switch zzsym.Choice("op", 3) {
	case 0:
		err = app.ClearUnread(context.Background(), ClearUnreadCommand{UID: uid, ChannelID: ch, ChannelType: ct})
	case 1:
		err = app.SetUnread(context.Background(), SetUnreadCommand{UID: uid, ChannelID: ch, ChannelType: ct, Unread: zzsym.Int("cmd.unread")})
	default:
		err = app.DeleteConversation(context.Background(), DeleteConversationCommand{UID: uid, ChannelID: ch, ChannelType: ct})
	}
	zzsym.Reach("invalid-target")
	zzsym.Assert(err != nil && s.gets == 0 && s.hydrates == 0 && s.advances+s.hides+s.activations == 0, "an invalid target reached the store")
}
