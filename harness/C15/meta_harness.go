package meta

import (
	"github.com/WuKongIM/WuKongIM/internal/zzsym"
)

// ---------------------------------------------------------------------------
// C15 — Channel routing metadata never regresses.
//
// Every entry builds symbolic rows and calls the real, unmodified
// resolveMonotonicChannelRuntimeMeta (and through it normalizeChannelRuntimeMeta,
// normalizeUint64Set, preserveRuntimeMetaState, bumpRuntimeRoute, runtimeRouteChanged,
// nextChannelRouteGeneration). The oracle predicates below are written from the
// property statement, not from the code.
//
// "stored" row = a canonical row: what decodeChannelRuntimeMetaValue returns and what
// resolveMonotonicChannelRuntimeMeta itself returns (closure is asserted in every step:
// normalize(result) == result).
// ---------------------------------------------------------------------------

func c15ListMax() int {
	if zzsym.Thorough() {
		return 3
	}
	return 2
}

// c15List returns a list of exactly n fully symbolic node ids (nil when n == 0).
func c15List(name string, n int) []uint64 {
	if n == 0 {
		return nil
	}
	out := make([]uint64, n)
	for i := 0; i < n; i++ {
		out[i] = zzsym.U64(name)
	}
	return out
}

func c15StrictlySorted(l []uint64) bool {
	ok := true
	for i := 1; i < len(l); i++ {
		if l[i-1] >= l[i] {
			ok = false
		}
	}
	return ok
}

func c15Token(name string) string {
	switch zzsym.Choice(name, 3) {
	case 1:
		return "a"
	case 2:
		return "b"
	}
	return ""
}

// c15Row builds a row whose integer fields are all fully symbolic; the fence token is one
// fully symbolic byte (any two tokens may be equal or different). The identity
// (ChannelID, ChannelType) is supplied by the caller: both rows of one upsert are addressed
// by the same primary key. Lists are nil; callers fill them in.
func c15Row(tag string, channelType int64) ChannelRuntimeMeta {
	return ChannelRuntimeMeta{
		ChannelID:            "c",
		ChannelType:          channelType,
		ChannelEpoch:         zzsym.U64(tag + ".channelEpoch"),
		LeaderEpoch:          zzsym.U64(tag + ".leaderEpoch"),
		RouteGeneration:      zzsym.U64(tag + ".routeGeneration"),
		Leader:               zzsym.U64(tag + ".leader"),
		MinISR:               zzsym.I64(tag + ".minISR"),
		Status:               zzsym.U8(tag + ".status"),
		Features:             zzsym.U64(tag + ".features"),
		LeaseUntilMS:         zzsym.I64(tag + ".leaseUntil"),
		RetentionThroughSeq:  zzsym.U64(tag + ".retentionSeq"),
		RetentionUpdatedAtMS: zzsym.I64(tag + ".retentionAt"),
		WriteFenceToken:      zzsym.String(tag+".fenceToken", 1),
		WriteFenceVersion:    zzsym.U64(tag + ".fenceVersion"),
		WriteFenceReason:     zzsym.U8(tag + ".fenceReason"),
		WriteFenceUntilMS:    zzsym.I64(tag + ".fenceUntil"),
		DirectoryGeneration:  zzsym.U64(tag + ".directoryGeneration"),
	}
}

// c15Canonical states that a row is canonical the way every stored row is.
func c15Canonical(m ChannelRuntimeMeta) bool {
	return m.RouteGeneration != 0 &&
		(m.ChannelType != 1 || m.DirectoryGeneration != 0) &&
		c15StrictlySorted(m.Replicas) && c15StrictlySorted(m.ISR)
}

func c15SameList(a, b []uint64) bool {
	if len(a) != len(b) {
		return false
	}
	same := true
	for i := 0; i < len(a); i++ {
		if a[i] != b[i] {
			same = false
		}
	}
	return same
}

// c15SameRow is field-by-field equality of two rows (nil and empty lists are equal).
func c15SameRow(a, b ChannelRuntimeMeta) bool {
	scalars := a.ChannelID == b.ChannelID &&
		a.ChannelType == b.ChannelType &&
		a.ChannelEpoch == b.ChannelEpoch &&
		a.LeaderEpoch == b.LeaderEpoch &&
		a.RouteGeneration == b.RouteGeneration &&
		a.Leader == b.Leader &&
		a.MinISR == b.MinISR &&
		a.Status == b.Status &&
		a.Features == b.Features &&
		a.LeaseUntilMS == b.LeaseUntilMS &&
		a.RetentionThroughSeq == b.RetentionThroughSeq &&
		a.RetentionUpdatedAtMS == b.RetentionUpdatedAtMS &&
		a.WriteFenceToken == b.WriteFenceToken &&
		a.WriteFenceVersion == b.WriteFenceVersion &&
		a.WriteFenceReason == b.WriteFenceReason &&
		a.WriteFenceUntilMS == b.WriteFenceUntilMS &&
		a.DirectoryGeneration == b.DirectoryGeneration
	return scalars && c15SameList(a.Replicas, b.Replicas) && c15SameList(a.ISR, b.ISR)
}

func c15SameFence(a, b ChannelRuntimeMeta) bool {
	return a.WriteFenceToken == b.WriteFenceToken &&
		a.WriteFenceVersion == b.WriteFenceVersion &&
		a.WriteFenceReason == b.WriteFenceReason &&
		a.WriteFenceUntilMS == b.WriteFenceUntilMS
}

// c15StatementChange is the change predicate of the property statement: "every change of
// leader, replicas, ISR, status, lease, retention or fence" (a subset of the code's own
// runtimeRouteChanged, which additionally counts the two epochs and MinISR).
func c15StatementChange(a, b ChannelRuntimeMeta) bool {
	return a.Leader != b.Leader ||
		!c15SameList(a.Replicas, b.Replicas) ||
		!c15SameList(a.ISR, b.ISR) ||
		a.Status != b.Status ||
		a.LeaseUntilMS != b.LeaseUntilMS ||
		a.RetentionThroughSeq != b.RetentionThroughSeq ||
		a.RetentionUpdatedAtMS != b.RetentionUpdatedAtMS ||
		!c15SameFence(a, b)
}

func c15PairLess(ce1, le1, ce2, le2 uint64) bool {
	return ce1 < ce2 || (ce1 == ce2 && le1 < le2)
}

// c15CheckStep states every C15 obligation for one monotonic upsert step.
// stored = the row as it is stored (normalize(existing)), cand = the candidate as passed in,
// got/res = what the real decision function returned. Obligations are implications
// (no branching in the oracle).
func c15CheckStep(stored, cand, got ChannelRuntimeMeta, res MonotonicResult) {
	zzsym.Assert(res == MonotonicApplied || res == MonotonicIgnoredStale || res == MonotonicConflict,
		"C15: outcome is not one of applied/stale/conflict")
	refused := res != MonotonicApplied

	// (1) the stored pair (channel epoch, leader epoch) never decreases lexicographically
	zzsym.Assert(!c15PairLess(got.ChannelEpoch, got.LeaderEpoch, stored.ChannelEpoch, stored.LeaderEpoch),
		"C15: (channel epoch, leader epoch) decreased")
	// a candidate carrying an older pair is reported stale
	candOlder := c15PairLess(cand.ChannelEpoch, cand.LeaderEpoch, stored.ChannelEpoch, stored.LeaderEpoch)
	zzsym.Assert(!candOlder || res == MonotonicIgnoredStale, "C15: candidate with an older epoch pair not reported stale")

	// (2) a same-epoch write cannot switch leaders, (3) or shorten the leader lease
	samePair := got.ChannelEpoch == stored.ChannelEpoch && got.LeaderEpoch == stored.LeaderEpoch
	zzsym.Assert(!samePair || got.Leader == stored.Leader, "C15: leader switched without an epoch advance")
	zzsym.Assert(!samePair || got.LeaseUntilMS >= stored.LeaseUntilMS, "C15: lease shortened without an epoch advance")
	switching := cand.ChannelEpoch == stored.ChannelEpoch && cand.LeaderEpoch == stored.LeaderEpoch && cand.Leader != stored.Leader
	zzsym.Assert(!switching || refused, "C15: same-epoch leader switch was applied")
	// the only documented reason for refusing it as "stale" instead is an explicitly older route generation
	zzsym.Assert(!switching || res == MonotonicConflict || (cand.RouteGeneration != 0 && cand.RouteGeneration < stored.RouteGeneration),
		"C15: same-epoch leader switch not reported as conflict")

	// (4) retention boundary never decreases; at an equal boundary its timestamp never decreases
	zzsym.Assert(got.RetentionThroughSeq >= stored.RetentionThroughSeq, "C15: retention boundary decreased")
	zzsym.Assert(got.RetentionThroughSeq != stored.RetentionThroughSeq || got.RetentionUpdatedAtMS >= stored.RetentionUpdatedAtMS,
		"C15: retention timestamp decreased at an equal boundary")

	// (5) fence version never decreases; the fence is replaced only by a higher version
	zzsym.Assert(got.WriteFenceVersion >= stored.WriteFenceVersion, "C15: write-fence version decreased")
	zzsym.Assert(got.WriteFenceVersion != stored.WriteFenceVersion || c15SameFence(got, stored),
		"C15: write fence replaced without a higher version")

	// (6) stale / conflict outcomes leave the stored row unchanged
	zzsym.Assert(!refused || c15SameRow(got, stored), "C15: stale/conflict outcome returned a row different from the stored one")

	// (7) the route generation never decreases, and strictly increases with every route change
	zzsym.Assert(got.RouteGeneration >= stored.RouteGeneration, "C15: route generation decreased")
	saturated := stored.RouteGeneration == ^uint64(0)
	codeChange := runtimeRouteChanged(stored, got)
	stmtChange := c15StatementChange(stored, got)
	zzsym.Assert(saturated || !codeChange || got.RouteGeneration > stored.RouteGeneration,
		"C15: route changed (runtimeRouteChanged) without a higher route generation")
	zzsym.Assert(saturated || !stmtChange || got.RouteGeneration > stored.RouteGeneration,
		"C15: leader/replicas/ISR/status/lease/retention/fence changed without a higher route generation")

	// closure: what is returned (and then stored) is canonical again
	zzsym.Assert(c15Canonical(got), "C15: returned row is not canonical")

	zzsym.Observe("c15.step", uint64(res), got.ChannelEpoch, got.LeaderEpoch, got.RouteGeneration, got.Leader,
		uint64(got.LeaseUntilMS), got.RetentionThroughSeq, uint64(got.RetentionUpdatedAtMS), got.WriteFenceVersion,
		uint64(len(got.Replicas)), uint64(len(got.ISR)), uint64(len(got.WriteFenceToken)),
		zzsym.B2U(codeChange), zzsym.B2U(stmtChange))
}

// c15WitnessAll: every outcome and the interesting sub-cases must be reachable (the branches
// are placed last in an entry: they end the path).
func c15WitnessAll(stored, cand, got ChannelRuntimeMeta, res MonotonicResult) {
	switch res {
	case MonotonicApplied:
		zzsym.Reach("applied")
		if c15StatementChange(stored, got) {
			zzsym.Reach("applied-with-change")
		} else if !runtimeRouteChanged(stored, got) {
			zzsym.Reach("applied-without-change")
		}
	case MonotonicIgnoredStale:
		zzsym.Reach("stale")
		if cand.ChannelEpoch == stored.ChannelEpoch && cand.LeaderEpoch == stored.LeaderEpoch && cand.Leader != stored.Leader {
			zzsym.Reach("stale-same-pair-other-leader")
		}
	case MonotonicConflict:
		zzsym.Reach("conflict")
	}
}

// c15WitnessNoConflict: for entries whose candidate keeps pair and leader.
func c15WitnessNoConflict(stored, got ChannelRuntimeMeta, res MonotonicResult) {
	switch res {
	case MonotonicApplied:
		zzsym.Reach("applied")
		if c15StatementChange(stored, got) {
			zzsym.Reach("applied-with-change")
		} else if !runtimeRouteChanged(stored, got) {
			zzsym.Reach("applied-without-change")
		}
	case MonotonicIgnoredStale:
		zzsym.Reach("stale")
	}
}

// Harness_C15_Scalars: every integer field of both rows fully symbolic, symbolic fence tokens,
// symbolic (shared) channel type; the stored row is canonical; lists empty.
func Harness_C15_Scalars() {
	ct := zzsym.I64("channelType")
	existing := c15Row("existing", ct)
	cand := c15Row("candidate", ct)
	zzsym.Assume(c15Canonical(existing))
	stored := normalizeChannelRuntimeMeta(existing)
	zzsym.Assert(c15SameRow(stored, existing), "C15: normalize changed a canonical row")
	got, res := resolveMonotonicChannelRuntimeMeta(existing, true, cand)
	c15CheckStep(stored, cand, got, res)
	c15WitnessAll(stored, cand, got, res)
}

// Harness_C15_Legacy: the row handed in as "existing" is NOT canonical (route generation 0,
// as a row written before the column existed; person channel without directory generation).
// All obligations are relative to normalize(existing), which is what the function documents.
func Harness_C15_Legacy() {
	ct := zzsym.I64("channelType")
	existing := c15Row("existing", ct)
	cand := c15Row("candidate", ct)
	existing.RouteGeneration = 0
	stored := normalizeChannelRuntimeMeta(existing)
	got, res := resolveMonotonicChannelRuntimeMeta(existing, true, cand)
	c15CheckStep(stored, cand, got, res)
	c15WitnessAll(stored, cand, got, res)
}

// Harness_C15_FenceTokens: fence tokens among {"", "a", "b"} on both sides; everything but the
// fence and the route generation is equal on both rows (same pair, same leader).
func Harness_C15_FenceTokens() {
	ct := zzsym.I64("channelType")
	existing := c15Row("existing", ct)
	existing.WriteFenceToken = c15Token("existing.token")
	zzsym.Assume(c15Canonical(existing))
	cand := existing
	cand.RouteGeneration = zzsym.U64("candidate.routeGeneration")
	cand.WriteFenceToken = c15Token("candidate.token")
	cand.WriteFenceVersion = zzsym.U64("candidate.fenceVersion")
	cand.WriteFenceReason = zzsym.U8("candidate.fenceReason")
	cand.WriteFenceUntilMS = zzsym.I64("candidate.fenceUntil")
	stored := normalizeChannelRuntimeMeta(existing)
	got, res := resolveMonotonicChannelRuntimeMeta(existing, true, cand)
	c15CheckStep(stored, cand, got, res)
	c15WitnessNoConflict(stored, got, res)
}

// c15ListsStep: the candidate differs from the stored row only in replicas, ISR, MinISR, status and
// route generation (same pair, same leader, same lease/retention/fence), so the decision is
// driven by the lists. Stored lists are canonical (strictly sorted); candidate lists are in
// arbitrary order with arbitrary duplicates.
func c15ListsStep(exRep, exISR, caRep, caISR int) {
	ct := zzsym.I64("channelType")
	existing := c15Row("existing", ct)
	existing.Replicas = c15List("existing.replicas", exRep)
	existing.ISR = c15List("existing.isr", exISR)
	zzsym.Assume(c15Canonical(existing))
	cand := existing
	cand.RouteGeneration = zzsym.U64("candidate.routeGeneration")
	cand.MinISR = zzsym.I64("candidate.minISR")
	cand.Status = zzsym.U8("candidate.status")
	cand.Replicas = c15List("candidate.replicas", caRep)
	cand.ISR = c15List("candidate.isr", caISR)
	stored := normalizeChannelRuntimeMeta(existing)
	zzsym.Assert(c15SameRow(stored, existing), "C15: normalize changed a canonical row")
	got, res := resolveMonotonicChannelRuntimeMeta(existing, true, cand)
	c15CheckStep(stored, cand, got, res)
	c15WitnessNoConflict(stored, got, res)
}

// Harness_C15_Replicas: replica lists of length 0..2 (0..3 thorough) on both sides, ISR empty.
func Harness_C15_Replicas() {
	max := c15ListMax()
	c15ListsStep(zzsym.Choice("existing.replicas.len", max+1), 0, zzsym.Choice("candidate.replicas.len", max+1), 0)
}

// Harness_C15_ISR: ISR lists of length 0..2 (0..3 thorough) on both sides, replicas empty.
func Harness_C15_ISR() {
	max := c15ListMax()
	c15ListsStep(0, zzsym.Choice("existing.isr.len", max+1), 0, zzsym.Choice("candidate.isr.len", max+1))
}

// Harness_C15_ReplicasAndISR: both lists non-trivial at once: length 0..1 (0..2 thorough) each.
func Harness_C15_ReplicasAndISR() {
	max := c15ListMax() - 1
	c15ListsStep(zzsym.Choice("existing.replicas.len", max+1), zzsym.Choice("existing.isr.len", max+1),
		zzsym.Choice("candidate.replicas.len", max+1), zzsym.Choice("candidate.isr.len", max+1))
}

// Harness_C15_Create: an upsert on an absent row stores exactly the canonical candidate, and
// canonicalisation is idempotent (so created rows satisfy the "stored rows are canonical" premise).
func Harness_C15_Create() {
	ct := zzsym.I64("channelType")
	cand := c15Row("candidate", ct)
	cand.Replicas = c15List("candidate.replicas", zzsym.Choice("candidate.replicas.len", c15ListMax()+1))
	cand.ISR = c15List("candidate.isr", zzsym.Choice("candidate.isr.len", c15ListMax()+1))
	// the "existing" argument is meaningless when exists==false; it must be ignored
	garbage := c15Row("existing", ct)
	got, res := resolveMonotonicChannelRuntimeMeta(garbage, false, cand)
	zzsym.Reach("created")
	want := normalizeChannelRuntimeMeta(cand)
	zzsym.Assert(res == MonotonicApplied, "C15: create on an absent row not applied")
	zzsym.Assert(c15SameRow(got, want), "C15: created row is not the canonical candidate")
	zzsym.Assert(c15Canonical(got), "C15: created row is not canonical")
	zzsym.Assert(got.ChannelEpoch == cand.ChannelEpoch && got.LeaderEpoch == cand.LeaderEpoch && got.Leader == cand.Leader &&
		got.LeaseUntilMS == cand.LeaseUntilMS && got.RetentionThroughSeq == cand.RetentionThroughSeq &&
		got.WriteFenceVersion == cand.WriteFenceVersion && got.WriteFenceToken == cand.WriteFenceToken,
		"C15: canonicalisation changed an authority field of the created row")
	zzsym.Assert(cand.RouteGeneration == 0 || got.RouteGeneration == cand.RouteGeneration, "C15: canonicalisation changed an explicit route generation")
	zzsym.Observe("c15.create", uint64(res), got.ChannelEpoch, got.LeaderEpoch, got.RouteGeneration, uint64(len(got.Replicas)), uint64(len(got.ISR)))
}
