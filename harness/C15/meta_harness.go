package meta

import (
	"context"
	"errors"

	"github.com/WuKongIM/WuKongIM/internal/zzsym"
	"github.com/WuKongIM/WuKongIM/pkg/db/internal/dberrors"
	"github.com/WuKongIM/WuKongIM/pkg/db/internal/engine"
)

// ---------------------------------------------------------------------------
// C15 — Channel routing metadata never regresses.
//
// Every entry builds symbolic rows and calls the real, unmodified
// resolveMonotonicChannelRuntimeMeta (and through it normalizeChannelRuntimeMeta,
// normalizeUint64Set, preserveRuntimeMetaState, bumpRuntimeRoute, runtimeRouteChanged,
// nextChannelRouteGeneration). The oracle predicates below are written from the
// property statement, not from the code.
//
// "stored" row = a canonical row: what decodeChannelRuntimeMetaValue returns and what
// resolveMonotonicChannelRuntimeMeta itself returns (closure is asserted in every step:
// normalize(result) == result).
// ---------------------------------------------------------------------------

func c15ListMax() int {
	if zzsym.Thorough() {
		return 3
	}
	return 2
}

// c15List returns a list of exactly n fully symbolic node ids (nil when n == 0).
func c15List(name string, n int) []uint64 {
	if n == 0 {
		return nil
	}
	out := make([]uint64, n)
	for i := 0; i < n; i++ {
		out[i] = zzsym.U64(name)
	}
	return out
}

func c15StrictlySorted(l []uint64) bool {
	ok := true
	for i := 1; i < len(l); i++ {
		if l[i-1] >= l[i] {
			ok = false
		}
	}
	return ok
}

func c15Token(name string) string {
	switch zzsym.Choice(name, 3) {
	case 1:
		return "a"
	case 2:
		return "b"
	}
	return ""
}

// c15Row builds a row whose integer fields are all fully symbolic; the fence token is one
// fully symbolic byte (any two tokens may be equal or different). The identity
// (ChannelID, ChannelType) is supplied by the caller: both rows of one upsert are addressed
// by the same primary key. Lists are nil; callers fill them in.
func c15Row(tag string, channelType int64) ChannelRuntimeMeta {
	return ChannelRuntimeMeta{
		ChannelID:            "c",
		ChannelType:          channelType,
		ChannelEpoch:         zzsym.U64(tag + ".channelEpoch"),
		LeaderEpoch:          zzsym.U64(tag + ".leaderEpoch"),
		RouteGeneration:      zzsym.U64(tag + ".routeGeneration"),
		Leader:               zzsym.U64(tag + ".leader"),
		MinISR:               zzsym.I64(tag + ".minISR"),
		Status:               zzsym.U8(tag + ".status"),
		Features:             zzsym.U64(tag + ".features"),
		LeaseUntilMS:         zzsym.I64(tag + ".leaseUntil"),
		RetentionThroughSeq:  zzsym.U64(tag + ".retentionSeq"),
		RetentionUpdatedAtMS: zzsym.I64(tag + ".retentionAt"),
		WriteFenceToken:      zzsym.String(tag+".fenceToken", 1),
		WriteFenceVersion:    zzsym.U64(tag + ".fenceVersion"),
		WriteFenceReason:     zzsym.U8(tag + ".fenceReason"),
		WriteFenceUntilMS:    zzsym.I64(tag + ".fenceUntil"),
		DirectoryGeneration:  zzsym.U64(tag + ".directoryGeneration"),
	}
}

// c15Canonical states that a row is canonical the way every stored row is.
func c15Canonical(m ChannelRuntimeMeta) bool {
	return m.RouteGeneration != 0 &&
		(m.ChannelType != 1 || m.DirectoryGeneration != 0) &&
		c15StrictlySorted(m.Replicas) && c15StrictlySorted(m.ISR)
}

func c15SameList(a, b []uint64) bool {
	if len(a) != len(b) {
		return false
	}
	same := true
	for i := 0; i < len(a); i++ {
		if a[i] != b[i] {
			same = false
		}
	}
	return same
}

// c15SameRow is field-by-field equality of two rows (nil and empty lists are equal).
func c15SameRow(a, b ChannelRuntimeMeta) bool {
	scalars := a.ChannelID == b.ChannelID &&
		a.ChannelType == b.ChannelType &&
		a.ChannelEpoch == b.ChannelEpoch &&
		a.LeaderEpoch == b.LeaderEpoch &&
		a.RouteGeneration == b.RouteGeneration &&
		a.Leader == b.Leader &&
		a.MinISR == b.MinISR &&
		a.Status == b.Status &&
		a.Features == b.Features &&
		a.LeaseUntilMS == b.LeaseUntilMS &&
		a.RetentionThroughSeq == b.RetentionThroughSeq &&
		a.RetentionUpdatedAtMS == b.RetentionUpdatedAtMS &&
		a.WriteFenceToken == b.WriteFenceToken &&
		a.WriteFenceVersion == b.WriteFenceVersion &&
		a.WriteFenceReason == b.WriteFenceReason &&
		a.WriteFenceUntilMS == b.WriteFenceUntilMS &&
		a.DirectoryGeneration == b.DirectoryGeneration
	return scalars && c15SameList(a.Replicas, b.Replicas) && c15SameList(a.ISR, b.ISR)
}

func c15SameFence(a, b ChannelRuntimeMeta) bool {
	return a.WriteFenceToken == b.WriteFenceToken &&
		a.WriteFenceVersion == b.WriteFenceVersion &&
		a.WriteFenceReason == b.WriteFenceReason &&
		a.WriteFenceUntilMS == b.WriteFenceUntilMS
}

// c15StatementChange is the change predicate of the property statement: "every change of
// leader, replicas, ISR, status, lease, retention or fence" (a subset of the code's own
// runtimeRouteChanged, which additionally counts the two epochs and MinISR).
func c15StatementChange(a, b ChannelRuntimeMeta) bool {
	return a.Leader != b.Leader ||
		!c15SameList(a.Replicas, b.Replicas) ||
		!c15SameList(a.ISR, b.ISR) ||
		a.Status != b.Status ||
		a.LeaseUntilMS != b.LeaseUntilMS ||
		a.RetentionThroughSeq != b.RetentionThroughSeq ||
		a.RetentionUpdatedAtMS != b.RetentionUpdatedAtMS ||
		!c15SameFence(a, b)
}

func c15PairLess(ce1, le1, ce2, le2 uint64) bool {
	return ce1 < ce2 || (ce1 == ce2 && le1 < le2)
}

// c15CheckStep states every C15 obligation for one monotonic upsert step.
// stored = the row as it is stored (normalize(existing)), cand = the candidate as passed in,
// got/res = what the real decision function returned. Obligations are implications
// (no branching in the oracle).
func c15CheckStep(stored, cand, got ChannelRuntimeMeta, res MonotonicResult) {
	zzsym.Assert(res == MonotonicApplied || res == MonotonicIgnoredStale || res == MonotonicConflict,
		"C15: outcome is not one of applied/stale/conflict")
	refused := res != MonotonicApplied

	// (1) the stored pair (channel epoch, leader epoch) never decreases lexicographically
	zzsym.Assert(!c15PairLess(got.ChannelEpoch, got.LeaderEpoch, stored.ChannelEpoch, stored.LeaderEpoch),
		"C15: (channel epoch, leader epoch) decreased")
	// a candidate carrying an older pair is reported stale
	candOlder := c15PairLess(cand.ChannelEpoch, cand.LeaderEpoch, stored.ChannelEpoch, stored.LeaderEpoch)
	zzsym.Assert(!candOlder || res == MonotonicIgnoredStale, "C15: candidate with an older epoch pair not reported stale")

	// (2) a same-epoch write cannot switch leaders, (3) or shorten the leader lease
	samePair := got.ChannelEpoch == stored.ChannelEpoch && got.LeaderEpoch == stored.LeaderEpoch
	zzsym.Assert(!samePair || got.Leader == stored.Leader, "C15: leader switched without an epoch advance")
	zzsym.Assert(!samePair || got.LeaseUntilMS >= stored.LeaseUntilMS, "C15: lease shortened without an epoch advance")
	switching := cand.ChannelEpoch == stored.ChannelEpoch && cand.LeaderEpoch == stored.LeaderEpoch && cand.Leader != stored.Leader
	zzsym.Assert(!switching || refused, "C15: same-epoch leader switch was applied")
	// the only documented reason for refusing it as "stale" instead is an explicitly older route generation
	zzsym.Assert(!switching || res == MonotonicConflict || (cand.RouteGeneration != 0 && cand.RouteGeneration < stored.RouteGeneration),
		"C15: same-epoch leader switch not reported as conflict")

	// (4) retention boundary never decreases; at an equal boundary its timestamp never decreases
	zzsym.Assert(got.RetentionThroughSeq >= stored.RetentionThroughSeq, "C15: retention boundary decreased")
	zzsym.Assert(got.RetentionThroughSeq != stored.RetentionThroughSeq || got.RetentionUpdatedAtMS >= stored.RetentionUpdatedAtMS,
		"C15: retention timestamp decreased at an equal boundary")

	// (5) fence version never decreases; the fence is replaced only by a higher version
	zzsym.Assert(got.WriteFenceVersion >= stored.WriteFenceVersion, "C15: write-fence version decreased")
	zzsym.Assert(got.WriteFenceVersion != stored.WriteFenceVersion || c15SameFence(got, stored),
		"C15: write fence replaced without a higher version")

	// (6) stale / conflict outcomes leave the stored row unchanged
	zzsym.Assert(!refused || c15SameRow(got, stored), "C15: stale/conflict outcome returned a row different from the stored one")

	// (7) the route generation never decreases, and strictly increases with every route change
	zzsym.Assert(got.RouteGeneration >= stored.RouteGeneration, "C15: route generation decreased")
	saturated := stored.RouteGeneration == ^uint64(0)
	codeChange := runtimeRouteChanged(stored, got)
	stmtChange := c15StatementChange(stored, got)
	zzsym.Assert(saturated || !codeChange || got.RouteGeneration > stored.RouteGeneration,
		"C15: route changed (runtimeRouteChanged) without a higher route generation")
	zzsym.Assert(saturated || !stmtChange || got.RouteGeneration > stored.RouteGeneration,
		"C15: leader/replicas/ISR/status/lease/retention/fence changed without a higher route generation")

	// closure: what is returned (and then stored) is canonical again
	zzsym.Assert(c15Canonical(got), "C15: returned row is not canonical")

	zzsym.Observe("c15.step", uint64(res), got.ChannelEpoch, got.LeaderEpoch, got.RouteGeneration, got.Leader,
		uint64(got.LeaseUntilMS), got.RetentionThroughSeq, uint64(got.RetentionUpdatedAtMS), got.WriteFenceVersion,
		uint64(len(got.Replicas)), uint64(len(got.ISR)), uint64(len(got.WriteFenceToken)),
		zzsym.B2U(codeChange), zzsym.B2U(stmtChange))
}

// c15WitnessAll: every outcome and the interesting sub-cases must be reachable (the branches
// are placed last in an entry: they end the path).
func c15WitnessAll(stored, cand, got ChannelRuntimeMeta, res MonotonicResult) {
	switch res {
	case MonotonicApplied:
		zzsym.Reach("applied")
		if c15StatementChange(stored, got) {
			zzsym.Reach("applied-with-change")
		} else if !runtimeRouteChanged(stored, got) {
			zzsym.Reach("applied-without-change")
		}
	case MonotonicIgnoredStale:
		zzsym.Reach("stale")
		if cand.ChannelEpoch == stored.ChannelEpoch && cand.LeaderEpoch == stored.LeaderEpoch && cand.Leader != stored.Leader {
			zzsym.Reach("stale-same-pair-other-leader")
		}
	case MonotonicConflict:
		zzsym.Reach("conflict")
	}
}

// c15WitnessNoConflict: for entries whose candidate keeps pair and leader.
func c15WitnessNoConflict(stored, got ChannelRuntimeMeta, res MonotonicResult) {
	switch res {
	case MonotonicApplied:
		zzsym.Reach("applied")
		if c15StatementChange(stored, got) {
			zzsym.Reach("applied-with-change")
		} else if !runtimeRouteChanged(stored, got) {
			zzsym.Reach("applied-without-change")
		}
	case MonotonicIgnoredStale:
		zzsym.Reach("stale")
	}
}

// c15WitnessOutcome: the three outcomes (res is concrete on every path: no branching).
func c15WitnessOutcome(res MonotonicResult) {
	switch res {
	case MonotonicApplied:
		zzsym.Reach("applied")
	case MonotonicIgnoredStale:
		zzsym.Reach("stale")
	case MonotonicConflict:
		zzsym.Reach("conflict")
	}
}

// Harness_C15_Scalars: every integer field of both rows fully symbolic, symbolic fence tokens,
// symbolic (shared) channel type other than 1 (person channels: see Harness_C15_Person);
// the stored row is canonical; lists empty.
func Harness_C15_Scalars() {
	ct := zzsym.I64("channelType")
	zzsym.Assume(ct != 1)
	existing := c15Row("existing", ct)
	cand := c15Row("candidate", ct)
	zzsym.Assume(c15Canonical(existing))
	stored := normalizeChannelRuntimeMeta(existing)
	zzsym.Assert(c15SameRow(stored, existing), "C15: normalize changed a canonical row")
	got, res := resolveMonotonicChannelRuntimeMeta(existing, true, cand)
	c15CheckStep(stored, cand, got, res)
	c15WitnessOutcome(res)
}

// Harness_C15_Person: as Scalars for channel type 1, where canonicalisation also
// defaults the directory generation.
func Harness_C15_Person() {
	existing := c15Row("existing", 1)
	cand := c15Row("candidate", 1)
	zzsym.Assume(c15Canonical(existing))
	stored := normalizeChannelRuntimeMeta(existing)
	got, res := resolveMonotonicChannelRuntimeMeta(existing, true, cand)
	c15CheckStep(stored, cand, got, res)
	zzsym.Assert(got.DirectoryGeneration >= stored.DirectoryGeneration, "C15: directory generation decreased")
	c15WitnessOutcome(res)
}

// Harness_C15_Legacy: the row handed in as "existing" is NOT canonical (route
// generation 0, as a row written before the column existed; person channel without directory
// generation). All obligations are relative to normalize(existing), which is what the function
// documents.
func Harness_C15_Legacy() {
	ct := zzsym.I64("channelType")
	existing := c15Row("existing", ct)
	cand := c15Row("candidate", ct)
	existing.RouteGeneration = 0
	stored := normalizeChannelRuntimeMeta(existing)
	got, res := resolveMonotonicChannelRuntimeMeta(existing, true, cand)
	c15CheckStep(stored, cand, got, res)
	c15WitnessOutcome(res)
}

// Harness_C15_FenceTokens: fence tokens among {"", "a", "b"} on both sides; everything but the
// fence and the route generation is equal on both rows (same pair, same leader).
func Harness_C15_FenceTokens() {
	ct := zzsym.I64("channelType")
	existing := c15Row("existing", ct)
	existing.WriteFenceToken = c15Token("existing.token")
	zzsym.Assume(c15Canonical(existing))
	cand := existing
	cand.RouteGeneration = zzsym.U64("candidate.routeGeneration")
	cand.WriteFenceToken = c15Token("candidate.token")
	cand.WriteFenceVersion = zzsym.U64("candidate.fenceVersion")
	cand.WriteFenceReason = zzsym.U8("candidate.fenceReason")
	cand.WriteFenceUntilMS = zzsym.I64("candidate.fenceUntil")
	stored := normalizeChannelRuntimeMeta(existing)
	got, res := resolveMonotonicChannelRuntimeMeta(existing, true, cand)
	c15CheckStep(stored, cand, got, res)
	c15WitnessNoConflict(stored, got, res)
}

// c15ListsStep: the candidate differs from the stored row only in replicas, ISR, MinISR, status and
// route generation (same pair, same leader, same lease/retention/fence), so the decision is
// driven by the lists. Stored lists are canonical (strictly sorted); candidate lists are in
// arbitrary order with arbitrary duplicates.
func c15ListsStep(exRep, exISR, caRep, caISR int) {
	ct := zzsym.I64("channelType")
	existing := c15Row("existing", ct)
	existing.Replicas = c15List("existing.replicas", exRep)
	existing.ISR = c15List("existing.isr", exISR)
	zzsym.Assume(c15Canonical(existing))
	cand := existing
	cand.RouteGeneration = zzsym.U64("candidate.routeGeneration")
	cand.MinISR = zzsym.I64("candidate.minISR")
	cand.Status = zzsym.U8("candidate.status")
	cand.Replicas = c15List("candidate.replicas", caRep)
	cand.ISR = c15List("candidate.isr", caISR)
	stored := normalizeChannelRuntimeMeta(existing)
	zzsym.Assert(c15SameRow(stored, existing), "C15: normalize changed a canonical row")
	got, res := resolveMonotonicChannelRuntimeMeta(existing, true, cand)
	c15CheckStep(stored, cand, got, res)
	c15WitnessNoConflict(stored, got, res)
}

// Harness_C15_Replicas: replica lists of length 0..2 (0..3 thorough) on both sides, ISR empty.
func Harness_C15_Replicas() {
	max := c15ListMax()
	c15ListsStep(zzsym.Choice("existing.replicas.len", max+1), 0, zzsym.Choice("candidate.replicas.len", max+1), 0)
}

// Harness_C15_ISR: ISR lists of length 0..2 (0..3 thorough) on both sides, replicas empty.
func Harness_C15_ISR() {
	max := c15ListMax()
	c15ListsStep(0, zzsym.Choice("existing.isr.len", max+1), 0, zzsym.Choice("candidate.isr.len", max+1))
}

// Harness_C15_ReplicasAndISR: both lists non-trivial at once: length 0..1 (0..2 thorough) each.
func Harness_C15_ReplicasAndISR() {
	max := c15ListMax() - 1
	c15ListsStep(zzsym.Choice("existing.replicas.len", max+1), zzsym.Choice("existing.isr.len", max+1),
		zzsym.Choice("candidate.replicas.len", max+1), zzsym.Choice("candidate.isr.len", max+1))
}

// Harness_C15_Create: an upsert on an absent row stores exactly the canonical candidate, and
// canonicalisation is idempotent (so created rows satisfy the "stored rows are canonical" premise).
func Harness_C15_Create() {
	ct := zzsym.I64("channelType")
	cand := c15Row("candidate", ct)
	cand.Replicas = c15List("candidate.replicas", zzsym.Choice("candidate.replicas.len", c15ListMax()+1))
	cand.ISR = c15List("candidate.isr", zzsym.Choice("candidate.isr.len", c15ListMax()+1))
	// the "existing" argument is meaningless when exists==false; it must be ignored
	garbage := c15Row("existing", ct)
	got, res := resolveMonotonicChannelRuntimeMeta(garbage, false, cand)
	zzsym.Reach("created")
	want := normalizeChannelRuntimeMeta(cand)
	zzsym.Assert(res == MonotonicApplied, "C15: create on an absent row not applied")
	zzsym.Assert(c15SameRow(got, want), "C15: created row is not the canonical candidate")
	zzsym.Assert(c15Canonical(got), "C15: created row is not canonical")
	zzsym.Assert(got.ChannelEpoch == cand.ChannelEpoch && got.LeaderEpoch == cand.LeaderEpoch && got.Leader == cand.Leader &&
		got.LeaseUntilMS == cand.LeaseUntilMS && got.RetentionThroughSeq == cand.RetentionThroughSeq &&
		got.WriteFenceVersion == cand.WriteFenceVersion && got.WriteFenceToken == cand.WriteFenceToken,
		"C15: canonicalisation changed an authority field of the created row")
	zzsym.Assert(cand.RouteGeneration == 0 || got.RouteGeneration == cand.RouteGeneration, "C15: canonicalisation changed an explicit route generation")
	zzsym.Observe("c15.create", uint64(res), got.ChannelEpoch, got.LeaderEpoch, got.RouteGeneration, uint64(len(got.Replicas)), uint64(len(got.ISR)))
}

// ---------------------------------------------------------------------------
// Batch-staged operations. The real Batch / WriteBatch methods stage their real op closure; the
// harness runs it the way Batch.Commit's Build callback does, on a commit state whose
// runtime-meta overlay already holds the symbolic stored row (so no DB read happens), with a
// detached engine batch (writes are accepted and dropped). What the op "wrote" is read back
// from the overlay the op itself maintains for later ops of the same commit.
// ---------------------------------------------------------------------------

const c15HashSlot HashSlot = 7

type c15Env struct {
	wb    *WriteBatch
	state *batchCommitState
	key   string
}

func c15NewEnv() *c15Env {
	db := &MetaDB{}
	return &c15Env{
		wb: &WriteBatch{db: &DB{meta: db}, batch: &Batch{db: db}},
		state: &batchCommitState{
			db:               db,
			tableRows:        make(map[string]tableRowOverlay),
			tableCreates:     make(map[string]struct{}),
			runtimeMeta:      make(map[string]runtimeMetaOverlay),
			migrationTasks:   make(map[string]migrationTaskOverlay),
			subscriberRows:   make(map[string]bool),
			channelPublishes: make(map[string]Channel),
			channelDeletes:   make(map[string]struct{}),
		},
		key: string(encodeChannelRuntimeMetaRowKey(c15HashSlot, "c", c15BatchChannelType, channelRuntimeMetaPrimaryFamilyID)),
	}
}

const c15BatchChannelType int64 = 2

func (env *c15Env) seed(row ChannelRuntimeMeta, exists bool) {
	env.state.runtimeMeta[env.key] = runtimeMetaOverlay{meta: row, exists: exists}
}

func (env *c15Env) stored() (ChannelRuntimeMeta, bool) {
	o := env.state.runtimeMeta[env.key]
	return o.meta, o.exists
}

func (env *c15Env) apply() error {
	zzsym.Assert(len(env.wb.batch.ops) == 1, "C15: expected exactly one staged operation")
	return env.wb.batch.ops[0].apply(context.Background(), env.state, engine.ZZC15DetachedBatch())
}

// c15ValidRow: a row accepted by validateChannelRuntimeMeta with one replica (node id symbolic,
// non-zero), which is also the only possible ISR member and leader; fence either absent or
// well-formed. Epochs, route generation, lease, retention, status, features fully symbolic.
func c15ValidRow(tag string) ChannelRuntimeMeta {
	m := c15Row(tag, c15BatchChannelType)
	node := zzsym.U64(tag + ".node")
	m.Replicas = []uint64{node}
	m.MinISR = 1
	if zzsym.Bool(tag + ".hasLeader") {
		m.ISR = []uint64{node}
		m.Leader = node
	} else {
		m.Leader = 0
	}
	if zzsym.Bool(tag + ".fenced") {
		m.WriteFenceToken = "a"
	} else {
		m.WriteFenceToken = ""
		m.WriteFenceReason = 0
		m.WriteFenceUntilMS = 0
	}
	return m
}

// Harness_C15_BatchUpsert: Batch.UpsertChannelRuntimeMeta end to end on a stored row. The candidate
// is the stored row with symbolic epochs, route generation, lease, status and an optionally
// switched leader; retention and fence are equal on both sides (their merge is covered by Scalars).
func Harness_C15_BatchUpsert() {
	env := c15NewEnv()
	existing := c15Row("existing", c15BatchChannelType)
	node := zzsym.U64("existing.node")
	existing.Replicas = []uint64{node}
	existing.ISR = []uint64{node}
	existing.MinISR = 1
	existing.WriteFenceToken, existing.WriteFenceReason, existing.WriteFenceUntilMS = "", 0, 0
	if zzsym.Bool("existing.hasLeader") {
		existing.Leader = node
	} else {
		existing.Leader = 0
	}
	zzsym.Assume(c15Canonical(existing) && validateChannelRuntimeMeta(existing) == nil)
	cand := existing
	cand.ChannelEpoch = zzsym.U64("candidate.channelEpoch")
	cand.LeaderEpoch = zzsym.U64("candidate.leaderEpoch")
	cand.RouteGeneration = zzsym.U64("candidate.routeGeneration")
	cand.LeaseUntilMS = zzsym.I64("candidate.leaseUntil")
	cand.Status = zzsym.U8("candidate.status")
	if zzsym.Bool("candidate.hasLeader") {
		cand.Leader = node
	} else {
		cand.Leader = 0
	}
	zzsym.Assume(validateChannelRuntimeMeta(cand) == nil)
	env.seed(existing, true)
	err := env.wb.UpsertChannelRuntimeMeta(uint16(c15HashSlot), cand)
	zzsym.Assert(err == nil, "C15: staging a valid upsert failed")
	err = env.apply()
	got, ok := env.stored()
	zzsym.Assert(ok, "C15: upsert removed the row")
	stored := normalizeChannelRuntimeMeta(existing)
	if err != nil {
		zzsym.Reach("conflict")
		zzsym.Assert(errors.Is(err, dberrors.ErrConflict), "C15: upsert op failed with something else than a conflict")
		zzsym.Assert(c15SameRow(got, stored), "C15: conflicting upsert changed the stored row")
		c15CheckStep(stored, cand, got, MonotonicConflict)
		return
	}
	if c15SameRow(got, stored) {
		// stale, or applied without any change: either way nothing moved
		zzsym.Reach("unchanged")
		return
	}
	zzsym.Reach("applied")
	c15CheckStep(stored, cand, got, MonotonicApplied)
}

// Harness_C15_BatchCreate: Batch.CreateChannelRuntimeMeta never replaces an existing row.
func Harness_C15_BatchCreate() {
	env := c15NewEnv()
	existing := c15ValidRow("existing")
	zzsym.Assume(c15Canonical(existing))
	cand := c15ValidRow("candidate")
	zzsym.Assume(validateChannelRuntimeMeta(cand) == nil)
	exists := zzsym.Bool("exists")
	env.seed(existing, exists)
	res, err := env.wb.CreateChannelRuntimeMeta(uint16(c15HashSlot), cand)
	zzsym.Assert(err == nil && res != nil, "C15: staging a valid create failed")
	zzsym.Assert(!res.Created, "C15: Created set before commit")
	zzsym.Assert(env.apply() == nil, "C15: create op failed")
	got, ok := env.stored()
	zzsym.Assert(ok, "C15: create removed the row")
	if exists {
		zzsym.Reach("already-present")
		zzsym.Assert(!res.Created, "C15: create reported Created although the row existed")
		zzsym.Assert(c15SameRow(got, existing), "C15: create-if-absent replaced an existing row")
	} else {
		zzsym.Reach("created")
		zzsym.Assert(res.Created, "C15: create did not report Created")
		zzsym.Assert(c15SameRow(got, normalizeChannelRuntimeMeta(cand)) && c15Canonical(got), "C15: created row is not the canonical candidate")
	}
	zzsym.Observe("c15.batchcreate", zzsym.B2U(res.Created), got.ChannelEpoch, got.LeaderEpoch, got.RouteGeneration)
}

// Harness_C15_BatchRetention: WriteBatch.AdvanceChannelRetentionThroughSeq on a stored row.
func Harness_C15_BatchRetention() {
	env := c15NewEnv()
	existing := c15ValidRow("existing")
	zzsym.Assume(c15Canonical(existing))
	env.seed(existing, true)
	req := ChannelRetentionAdvance{
		ChannelID:            "c",
		ChannelType:          c15BatchChannelType,
		ExpectedChannelEpoch: zzsym.U64("req.channelEpoch"),
		ExpectedLeaderEpoch:  zzsym.U64("req.leaderEpoch"),
		ExpectedLeader:       zzsym.U64("req.leader"),
		ExpectedLeaseUntilMS: zzsym.I64("req.leaseUntil"),
		RetentionThroughSeq:  zzsym.U64("req.retentionSeq"),
		RetentionUpdatedAtMS: zzsym.I64("req.retentionAt"),
	}
	zzsym.Assert(env.wb.AdvanceChannelRetentionThroughSeq(uint16(c15HashSlot), req) == nil, "C15: staging retention advance failed")
	err := env.apply()
	got, ok := env.stored()
	zzsym.Assert(ok, "C15: retention advance removed the row")
	guardOK := existing.ChannelEpoch == req.ExpectedChannelEpoch && existing.LeaderEpoch == req.ExpectedLeaderEpoch &&
		existing.Leader == req.ExpectedLeader && existing.LeaseUntilMS == req.ExpectedLeaseUntilMS
	// mismatching guard => conflict, nothing written
	zzsym.Assert(guardOK || (errors.Is(err, dberrors.ErrConflict) && c15SameRow(got, existing)), "C15: retention advance with a mismatching guard did not conflict / wrote")
	zzsym.Assert(!guardOK || err == nil, "C15: retention advance with a matching guard failed")
	// smaller or equal boundary => nothing written
	zzsym.Assert(req.RetentionThroughSeq > existing.RetentionThroughSeq || c15SameRow(got, existing), "C15: retention advance to a smaller or equal boundary wrote")
	// never regresses
	zzsym.Assert(got.RetentionThroughSeq >= existing.RetentionThroughSeq, "C15: retention advance decreased the boundary")
	zzsym.Assert(got.RouteGeneration >= existing.RouteGeneration, "C15: retention advance decreased the route generation")
	advanced := guardOK && req.RetentionThroughSeq > existing.RetentionThroughSeq
	// otherwise exactly the two retention fields and the generation change
	want := existing
	want.RetentionThroughSeq = req.RetentionThroughSeq
	want.RetentionUpdatedAtMS = req.RetentionUpdatedAtMS
	want.RouteGeneration = got.RouteGeneration
	zzsym.Assert(!advanced || c15SameRow(got, want), "C15: retention advance changed something besides retention and route generation")
	zzsym.Assert(!advanced || existing.RouteGeneration == ^uint64(0) || got.RouteGeneration > existing.RouteGeneration,
		"C15: retention advanced without a higher route generation")
	zzsym.Observe("c15.batchretention", zzsym.B2U(err == nil), got.RetentionThroughSeq, uint64(got.RetentionUpdatedAtMS), got.RouteGeneration)
	if !guardOK {
		zzsym.Reach("guard-mismatch")
	} else if advanced {
		zzsym.Reach("advanced")
	} else {
		zzsym.Reach("not-ahead")
	}
}

// Harness_C15_BatchRetentionMissing: a retention advance on an absent row reports not-found.
func Harness_C15_BatchRetentionMissing() {
	env := c15NewEnv()
	env.seed(ChannelRuntimeMeta{}, false)
	req := ChannelRetentionAdvance{ChannelID: "c", ChannelType: c15BatchChannelType, RetentionThroughSeq: zzsym.U64("req.retentionSeq")}
	zzsym.Assert(env.wb.AdvanceChannelRetentionThroughSeq(uint16(c15HashSlot), req) == nil, "C15: staging retention advance failed")
	err := env.apply()
	zzsym.Reach("missing")
	zzsym.Assert(errors.Is(err, dberrors.ErrNotFound), "C15: retention advance on an absent row did not report not-found")
	_, ok := env.stored()
	zzsym.Assert(!ok, "C15: retention advance created a row")
}

// Harness_C15_MigrationBump: the tail of WriteBatch.stageChannelMigrationTaskAndMeta. A migration
// mutator derives nextMeta from the stored meta (so it carries the stored route generation) and
// changes arbitrary fields; the tail is normalize + bumpRuntimeRoute(meta, nextMeta, true).
func Harness_C15_MigrationBump() {
	ct := zzsym.I64("channelType")
	meta := c15Row("meta", ct)
	zzsym.Assume(c15Canonical(meta))
	next := c15Row("next", ct)
	next.RouteGeneration = meta.RouteGeneration
	next = normalizeChannelRuntimeMeta(next)
	got := bumpRuntimeRoute(meta, next, true)
	zzsym.Reach("bumped")
	want := next
	want.RouteGeneration = got.RouteGeneration
	zzsym.Assert(c15SameRow(got, want), "C15: migration bump changed something besides the route generation")
	zzsym.Assert(got.RouteGeneration >= meta.RouteGeneration, "C15: migration bump decreased the route generation")
	saturated := meta.RouteGeneration == ^uint64(0)
	codeChange := runtimeRouteChanged(meta, got)
	stmtChange := c15StatementChange(meta, got) || meta.ChannelEpoch != got.ChannelEpoch || meta.LeaderEpoch != got.LeaderEpoch
	zzsym.Assert(saturated || !codeChange || got.RouteGeneration > meta.RouteGeneration, "C15: migration changed the route (runtimeRouteChanged) without a higher route generation")
	zzsym.Assert(saturated || !stmtChange || got.RouteGeneration > meta.RouteGeneration, "C15: migration changed epochs/leader/status/lease/retention/fence without a higher route generation")
	zzsym.Assert(codeChange || got.RouteGeneration == meta.RouteGeneration, "C15: migration bumped the route generation without a route change")
	zzsym.Observe("c15.migrationbump", got.RouteGeneration, zzsym.B2U(codeChange), zzsym.B2U(stmtChange))
}
