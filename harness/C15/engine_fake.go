package engine

import "github.com/cockroachdb/pebble/v2"

// ZZC15DetachedBatch returns a Batch staging into a free-standing pebble batch: no DB is opened,
// nothing can be committed; Set/Delete only append to the batch's in-memory representation.
func ZZC15DetachedBatch() *Batch { return &Batch{batch: new(pebble.Batch)} }
