#!/bin/sh
# Offline setup: build the symbolic executor and warm the Go build cache for the packages the
# checks load (go/packages -export) and replay natively (go test -overlay).
set -u
DIR="$(cd "$(dirname "$0")" && pwd)"
export GOFLAGS=-mod=mod GOPROXY=off GOSUMDB=off
(cd "$DIR/engine" && GOTOOLCHAIN=local go1.26.8 build -o symgo .) || exit 1
cd /repo || exit 1
PKGS=$(cd "$DIR" && python3 tools/harness_pkgs.py)
timeout 1500 go build $PKGS 2>&1 | tail -5
timeout 1500 go test -vet=off -count=1 -run '^$' $PKGS 2>&1 | grep -v '^ok\|no test files' | tail -5
exit 0
