package main

import (
	"encoding/base64"
	"fmt"
)

// C36: channelmembers.namespacedListChannelID builds the deny/allow list channel ids with
// fmt.Sprintf, whose generic model is an opaque constant; the permission fakes must be able to
// tell the deny list from the allow list, so for CONCRETE arguments the function is modelled by
// evaluating exactly its own body (same format string, same base64 alphabet).
func init() {
	extraIntrinsics = append(extraIntrinsics, func(p *Program) {
		p.intrinsics["github.com/WuKongIM/WuKongIM/internal/contracts/channelmembers.namespacedListChannelID"] = func(e *Exec, fr *frame, args []Value) Value {
			kind := e.strArg(args[0])
			key, ok := args[1].(Struct)
			if !ok || len(key) != 2 {
				e.unsupported(fmt.Sprintf("namespacedListChannelID: key is %T", args[1]))
			}
			id := e.strArg(key[0])
			ct, ok := key[1].(*Term)
			if !ok || !ct.IsConst() {
				e.unsupported("namespacedListChannelID: symbolic channel type")
			}
			enc := base64.RawURLEncoding.EncodeToString([]byte(id))
			return &Str{s: fmt.Sprintf("__wk_internal_memberlist__/%s/%d/%s", kind, uint8(ct.Val), enc)}
		}
	})
}
