package main

import (
	"fmt"
	"go/types"
	"strings"
)

func (e *Exec) strArg(v Value) string {
	s, ok := v.(*Str)
	if !ok {
		e.unsupported(fmt.Sprintf("expected string, got %T", v))
	}
	cs, ok := s.Concrete()
	if !ok {
		e.unsupported("expected concrete string")
	}
	return cs
}

func (e *Exec) newOpaqueErr(msg string, wrapped *Iface) Value {
	e.opaqueErrs++
	return Iface{t: e.prog.opaqueErrType, v: &opaqueErr{id: e.opaqueErrs, msg: msg, wrapped: wrapped}}
}

func boolTerm(e *Exec, b bool) *Term { return e.ts.Bool(b) }

func registerIntrinsics(p *Program) {
	I := p.intrinsics
	sp := symPkg + "."
	mkInput := func(w int) intrinsic {
		return func(e *Exec, fr *frame, args []Value) Value {
			return e.newInput(e.strArg(args[0]), w)
		}
	}
	I[sp+"Bool"] = mkInput(0)
	I[sp+"U8"] = mkInput(8)
	I[sp+"U16"] = mkInput(16)
	I[sp+"U32"] = mkInput(32)
	I[sp+"U64"] = mkInput(64)
	I[sp+"I8"] = mkInput(8)
	I[sp+"I16"] = mkInput(16)
	I[sp+"I32"] = mkInput(32)
	I[sp+"I64"] = mkInput(64)
	I[sp+"Int"] = mkInput(64)
	symBytes := func(e *Exec, name string, nT Value) []*Term {
		n := int(int64(e.concretize(e.toInt(nT), "sym.Bytes length")))
		if n < 0 || n > e.prog.cfg.MaxAlloc {
			e.unsupported("sym.Bytes length out of range")
		}
		bs := make([]*Term, n)
		for i := range bs {
			bs[i] = e.newInput(fmt.Sprintf("%s[%d]", name, i), 8)
		}
		return bs
	}
	I[sp+"Bytes"] = func(e *Exec, fr *frame, args []Value) Value {
		return e.newByteSlice(symBytes(e, e.strArg(args[0]), args[1]))
	}
	I[sp+"String"] = func(e *Exec, fr *frame, args []Value) Value {
		return e.mkStr(symBytes(e, e.strArg(args[0]), args[1]))
	}
	I[sp+"Choice"] = func(e *Exec, fr *frame, args []Value) Value {
		v := e.newInput(e.strArg(args[0]), 64)
		n := e.toInt(args[1])
		e.assume(e.ts.Cmp(OpUlt, v, n))
		c := e.concretize(v, "sym.Choice")
		return e.ts.BV(64, c)
	}
	I[sp+"Fork"] = func(e *Exec, fr *frame, args []Value) Value {
		c := e.concretize(e.toInt(args[0]), "sym.Fork")
		return e.ts.BV(64, c)
	}
	I[sp+"Thorough"] = func(e *Exec, fr *frame, args []Value) Value { return e.ts.Bool(e.prog.cfg.Thorough) }
	I[sp+"Assume"] = func(e *Exec, fr *frame, args []Value) Value {
		e.assume(args[0].(*Term))
		return nil
	}
	I[sp+"Assert"] = func(e *Exec, fr *frame, args []Value) Value {
		e.assertProp(args[0].(*Term), e.strArg(args[1]))
		return nil
	}
	I[sp+"AssertKnown"] = func(e *Exec, fr *frame, args []Value) Value {
		c := args[0].(*Term)
		msg := e.strArg(args[1])
		tag := e.strArg(args[2])
		pat := args[3].(*Term)
		e.assertKnown(c, msg, tag, pat)
		return nil
	}
	I[sp+"Reach"] = func(e *Exec, fr *frame, args []Value) Value {
		l := e.strArg(args[0])
		e.reached[l] = true
		e.observes = append(e.observes, observation{name: l})
		return nil
	}
	I[sp+"Observe"] = func(e *Exec, fr *frame, args []Value) Value {
		name := e.strArg(args[0])
		s := args[1].(Slice)
		var ts []*Term
		for i := 0; i < s.len; i++ {
			ts = append(ts, s.arr.kids[s.off+i].val.(*Term))
		}
		if ts == nil {
			ts = []*Term{}
		}
		e.observes = append(e.observes, observation{name: name, terms: ts})
		return nil
	}
	I[sp+"InterfereMonotonicU64"] = func(e *Exec, fr *frame, args []Value) Value {
		ptr := args[0].(Pointer)
		l := ptr.loc
		for l.kids != nil {
			l = l.kids[len(l.kids)-1]
		}
		if e.interf == nil {
			e.interf = map[*Loc]bool{}
		}
		e.interf[l] = true
		return nil
	}
	I[sp+"B2U"] = func(e *Exec, fr *frame, args []Value) Value {
		return e.ts.BoolToBV(args[0].(*Term), 64)
	}

	// ------------------------------------------------------------ errors / fmt
	I["fmt.Errorf"] = func(e *Exec, fr *frame, args []Value) Value {
		format := "<fmt.Errorf>"
		if s, ok := args[0].(*Str); ok {
			if cs, ok := s.Concrete(); ok {
				format = cs
			}
		}
		var wrapped *Iface
		if strings.Contains(format, "%w") {
			va := args[1].(Slice)
			for i := 0; i < va.len; i++ {
				if ifc, ok := e.loadLoc(va.arr.kids[va.off+i]).(Iface); ok && ifc.t != nil {
					if e.implementsError(ifc.t) {
						w := ifc
						wrapped = &w // last error operand; %w position is not tracked
					}
				}
			}
		}
		return e.newOpaqueErr(format, wrapped)
	}
	I["fmt.Sprintf"] = func(e *Exec, fr *frame, args []Value) Value {
		// formatting is not modelled: opaque constant (sound only where the text is not inspected)
		e.warnings["fmt.Sprintf result is an opaque constant"]++
		return &Str{s: "<fmt.Sprintf>"}
	}
	I["fmt.Sprint"] = I["fmt.Sprintf"]
	I["fmt.Sprintln"] = I["fmt.Sprintf"]
	I["fmt.Println"] = func(e *Exec, fr *frame, args []Value) Value {
		return Tuple{e.ts.BV(64, 0), Iface{}}
	}
	I["fmt.Printf"] = I["fmt.Println"]
	I["errors.New"] = func(e *Exec, fr *frame, args []Value) Value {
		msg := "<errors.New>"
		if s, ok := args[0].(*Str); ok {
			if cs, ok := s.Concrete(); ok {
				msg = cs
			}
		}
		return e.newOpaqueErr(msg, nil)
	}
	I["errors.Is"] = func(e *Exec, fr *frame, args []Value) Value {
		return e.ts.Bool(e.errorsIs(fr, args[0].(Iface), args[1].(Iface), 0))
	}
	I["errors.Unwrap"] = func(e *Exec, fr *frame, args []Value) Value {
		return e.errUnwrap(fr, args[0].(Iface))
	}
	I["errors.As"] = func(e *Exec, fr *frame, args []Value) Value {
		err := args[0].(Iface)
		tgt := args[1].(Iface)
		pt, ok := tgt.t.(*types.Pointer)
		if !ok {
			e.goPanicStr("errors: target must be a non-nil pointer")
		}
		want := pt.Elem()
		for depth := 0; err.t != nil && depth < 16; depth++ {
			match := false
			if it, isI := want.Underlying().(*types.Interface); isI {
				match = types.Implements(err.t, it) || e.prog.opaqueImplements(err.t, it)
			} else {
				match = types.Identical(err.t, want)
			}
			if match {
				if _, isI := want.Underlying().(*types.Interface); isI {
					e.store(tgt.v.(Pointer), err)
				} else {
					e.store(tgt.v.(Pointer), err.v)
				}
				return e.ts.Bool(true)
			}
			err = e.errUnwrap(fr, err).(Iface)
		}
		return e.ts.Bool(false)
	}
	I["errors.Join"] = func(e *Exec, fr *frame, args []Value) Value {
		va := args[0].(Slice)
		var first *Iface
		n := 0
		for i := 0; i < va.len; i++ {
			if ifc, ok := e.loadLoc(va.arr.kids[va.off+i]).(Iface); ok && ifc.t != nil {
				n++
				if first == nil {
					w := ifc
					first = &w
				}
			}
		}
		if n == 0 {
			return Iface{}
		}
		if n > 1 {
			e.warnings["errors.Join with >1 errors keeps only the first for Is/As"]++
		}
		return e.newOpaqueErr("<errors.Join>", first)
	}

	// ------------------------------------------------------------ sync
	noop := func(e *Exec, fr *frame, args []Value) Value { return nil }
	for _, n := range []string{
		"(*sync.Mutex).Lock", "(*sync.Mutex).Unlock", "(*sync.RWMutex).Lock", "(*sync.RWMutex).Unlock",
		"(*sync.RWMutex).RLock", "(*sync.RWMutex).RUnlock", "(*sync.WaitGroup).Add", "(*sync.WaitGroup).Done",
		"(*sync.WaitGroup).Wait", "(*sync.Cond).Signal", "(*sync.Cond).Broadcast", "runtime.KeepAlive", "runtime.Gosched", "(*sync.Pool).Put",
		"runtime.SetFinalizer",
	} {
		I[n] = noop
	}
	I["(*sync.Mutex).TryLock"] = func(e *Exec, fr *frame, args []Value) Value { return e.ts.Bool(true) }
	I["(*sync.Pool).Get"] = func(e *Exec, fr *frame, args []Value) Value {
		p := args[0].(Pointer)
		// field New
		st := p.loc.typ.Underlying().(*types.Struct)
		for i := 0; i < st.NumFields(); i++ {
			if st.Field(i).Name() == "New" {
				nf, _ := e.loadLoc(p.loc.kids[i]).(*Closure)
				if nf == nil {
					return Iface{}
				}
				return e.callValue(fr, nf, nil, nil)
			}
		}
		return Iface{}
	}
	I["(*sync.Once).Do"] = func(e *Exec, fr *frame, args []Value) Value {
		p := args[0].(Pointer)
		// use the first integer leaf of the struct as the done flag (only ever touched here)
		var flag *Loc
		var findLeaf func(l *Loc)
		findLeaf = func(l *Loc) {
			if flag != nil {
				return
			}
			if l.kids != nil {
				for _, k := range l.kids {
					findLeaf(k)
				}
				return
			}
			if _, _, ok := intWidth(l.typ); ok {
				flag = l
			}
		}
		findLeaf(p.loc)
		if flag == nil {
			e.unsupported("sync.Once layout")
		}
		if t, ok := flag.val.(*Term); ok && t.IsConst() && t.Val != 0 {
			return nil
		}
		w, _, _ := intWidth(flag.typ)
		if w == 0 {
			w = 32
		}
		flag.val = e.ts.BV(w, 1)
		e.callValue(fr, args[1], nil, nil)
		return nil
	}

	// ------------------------------------------------------------ bytealg & co
	I["internal/bytealg.IndexByte"] = func(e *Exec, fr *frame, args []Value) Value {
		return e.indexByte(e.byteSliceTerms(args[0].(Slice)), args[1].(*Term))
	}
	I["internal/bytealg.IndexByteString"] = func(e *Exec, fr *frame, args []Value) Value {
		return e.indexByte(e.strBytes(args[0].(*Str)), args[1].(*Term))
	}
	I["internal/bytealg.Equal"] = func(e *Exec, fr *frame, args []Value) Value {
		return e.bytesEqual(e.byteSliceTerms(args[0].(Slice)), e.byteSliceTerms(args[1].(Slice)))
	}
	I["bytes.Equal"] = I["internal/bytealg.Equal"]
	I["internal/bytealg.Count"] = func(e *Exec, fr *frame, args []Value) Value {
		return e.countByte(e.byteSliceTerms(args[0].(Slice)), args[1].(*Term))
	}
	I["internal/bytealg.CountString"] = func(e *Exec, fr *frame, args []Value) Value {
		return e.countByte(e.strBytes(args[0].(*Str)), args[1].(*Term))
	}
	I["internal/bytealg.Compare"] = func(e *Exec, fr *frame, args []Value) Value {
		a := e.mkStr(e.byteSliceTerms(args[0].(Slice)))
		b := e.mkStr(e.byteSliceTerms(args[1].(Slice)))
		return e.compareTerm(a, b)
	}
	I["bytes.Compare"] = I["internal/bytealg.Compare"]
	I["strings.Compare"] = func(e *Exec, fr *frame, args []Value) Value {
		return e.compareTerm(args[0].(*Str), args[1].(*Str))
	}
	I["internal/stringslite.Index"] = func(e *Exec, fr *frame, args []Value) Value {
		return e.indexString(args[0].(*Str), args[1].(*Str))
	}
	I["strings.Index"] = I["internal/stringslite.Index"]
	I["internal/bytealg.IndexString"] = I["internal/stringslite.Index"]
	I["internal/bytealg.MakeNoZero"] = func(e *Exec, fr *frame, args []Value) Value {
		n := int(int64(e.concretize(e.toInt(args[0]), "MakeNoZero")))
		arr := e.newArrayLoc(types.Typ[types.Uint8], n)
		return Slice{arr: arr, len: n, cap: n}
	}
	I["strings.Clone"] = func(e *Exec, fr *frame, args []Value) Value { return args[0] }
	// strings.EqualFold, ASCII model: on a path where some byte may be >= 0x80 the call is outside the
	// model (Unicode simple folding is table driven); for ASCII strings folding is 'A'..'Z' -> +0x20 and
	// preserves length.
	I["strings.EqualFold"] = func(e *Exec, fr *frame, args []Value) Value {
		a, b := e.strBytes(args[0].(*Str)), e.strBytes(args[1].(*Str))
		ascii := e.ts.Bool(true)
		for _, x := range append(append([]*Term{}, a...), b...) {
			ascii = e.ts.And(ascii, e.ts.Cmp(OpUlt, x, e.ts.BV(8, 0x80)))
		}
		if !e.branch(ascii) {
			e.unsupported("strings.EqualFold on non-ASCII bytes (Unicode simple folding not modelled)")
		}
		if len(a) != len(b) {
			return e.ts.Bool(false)
		}
		fold := func(x *Term) *Term {
			upper := e.ts.And(e.ts.Cmp(OpUle, e.ts.BV(8, 'A'), x), e.ts.Cmp(OpUle, x, e.ts.BV(8, 'Z')))
			return e.ts.Ite(upper, e.ts.Bin(OpAdd, x, e.ts.BV(8, 0x20)), x)
		}
		r := e.ts.Bool(true)
		for i := range a {
			r = e.ts.And(r, e.ts.Eq(fold(a[i]), fold(b[i])))
		}
		return r
	}
	I["unsafe.String"] = func(e *Exec, fr *frame, args []Value) Value {
		p := args[0].(Pointer)
		n := int(int64(e.concretize(e.toInt(args[1]), "unsafe.String")))
		if n == 0 {
			return &Str{}
		}
		arr, off := e.findElem(p)
		bs := make([]*Term, n)
		for i := range bs {
			bs[i] = arr.kids[off+i].val.(*Term)
		}
		return e.mkStr(bs)
	}
	I["unsafe.SliceData"] = func(e *Exec, fr *frame, args []Value) Value {
		s := args[0].(Slice)
		if s.arr == nil || s.cap == 0 {
			return Pointer{}
		}
		return Pointer{loc: s.arr.kids[s.off]}
	}
	I["unsafe.StringData"] = func(e *Exec, fr *frame, args []Value) Value {
		s := args[0].(*Str)
		sl := e.newByteSlice(e.strBytes(s))
		if sl.len == 0 {
			return Pointer{}
		}
		return Pointer{loc: sl.arr.kids[0]}
	}
	I["unsafe.Slice"] = func(e *Exec, fr *frame, args []Value) Value {
		p := args[0].(Pointer)
		n := int(int64(e.concretize(e.toInt(args[1]), "unsafe.Slice")))
		if p.IsNil() || n == 0 {
			return Slice{}
		}
		arr, off := e.findElem(p)
		return Slice{arr: arr, off: off, len: n, cap: n}
	}

	// logging and metrics: empty bodies
	p.noopPrefixes = []string{
		"(*github.com/WuKongIM/wklog", "github.com/WuKongIM/wklog", "(github.com/WuKongIM/wklog",
		"(*go.uber.org/zap", "go.uber.org/zap", "(go.uber.org/zap",
		"(*log.Logger)", "log.Print", "(*log/slog", "log/slog",
	}
	registerStdIntrinsics(p)
	for _, f := range extraIntrinsics {
		f(p)
	}
}

// extraIntrinsics lets additional files (intr_*.go) register models from their init().
var extraIntrinsics []func(p *Program)

func (e *Exec) implementsError(t types.Type) bool {
	if t == e.prog.runtimeErrType || t == types.Type(e.prog.opaqueErrType) {
		return true
	}
	errT := types.Universe.Lookup("error").Type().Underlying().(*types.Interface)
	return types.Implements(t, errT)
}

// findElem locates the array and index a pointer-to-element refers to.
func (e *Exec) findElem(p Pointer) (*Loc, int) {
	if p.loc == nil {
		e.unsupported("findElem on nil/symbolic pointer")
	}
	root := p.loc.obj
	var found *Loc
	idx := -1
	var walk func(l *Loc)
	walk = func(l *Loc) {
		if found != nil {
			return
		}
		for i, k := range l.kids {
			if k == p.loc {
				if _, isArr := l.typ.Underlying().(*types.Array); isArr {
					found, idx = l, i
					return
				}
			}
			walk(k)
		}
	}
	walk(root)
	if found == nil {
		e.unsupported("pointer is not an array element")
	}
	return found, idx
}

func (e *Exec) errUnwrap(fr *frame, err Iface) Value {
	if err.t == nil {
		return Iface{}
	}
	if h := e.prog.opaqueMethod(err.t, "Unwrap"); h != nil {
		return h(e, fr, []Value{err.v})
	}
	ms := e.prog.ssaProg.MethodSets.MethodSet(err.t)
	for i := 0; i < ms.Len(); i++ {
		sel := ms.At(i)
		if sel.Obj().Name() == "Unwrap" {
			sig := sel.Type().(*types.Signature)
			if sig.Params().Len() == 0 && sig.Results().Len() == 1 {
				if _, isI := sig.Results().At(0).Type().Underlying().(*types.Interface); isI {
					fn := e.prog.ssaProg.MethodValue(sel)
					r := e.callFunction(fr, fn, []Value{err.v}, nil)
					e.curFrame = fr
					return r
				}
			}
		}
	}
	return Iface{}
}

func (e *Exec) errorsIs(fr *frame, err, target Iface, depth int) bool {
	for ; err.t != nil && depth < 16; depth++ {
		if types.Comparable(err.t) || err.t == types.Type(e.prog.opaqueErrType) {
			if target.t != nil && (types.Identical(err.t, target.t) || err.t == target.t) {
				if oe, ok := err.v.(*opaqueErr); ok {
					if oe == target.v.(*opaqueErr) {
						return true
					}
				} else {
					c := e.equal(err.v, target.v)
					if e.branch(c) {
						return true
					}
				}
			}
		}
		// Is method
		if err.t != types.Type(e.prog.opaqueErrType) && err.t != e.prog.runtimeErrType {
			ms := e.prog.ssaProg.MethodSets.MethodSet(err.t)
			for i := 0; i < ms.Len(); i++ {
				sel := ms.At(i)
				if sel.Obj().Name() == "Is" {
					sig := sel.Type().(*types.Signature)
					if sig.Params().Len() == 1 && sig.Results().Len() == 1 && isBool(sig.Results().At(0).Type()) {
						fn := e.prog.ssaProg.MethodValue(sel)
						r := e.callFunction(fr, fn, []Value{err.v, target}, nil)
						e.curFrame = fr
						if e.branch(r.(*Term)) {
							return true
						}
					}
				}
			}
		}
		err = e.errUnwrap(fr, err).(Iface)
	}
	return false
}

func (e *Exec) indexByte(bs []*Term, c *Term) Value {
	res := e.ts.BV(64, mask(64))
	for i := len(bs) - 1; i >= 0; i-- {
		res = e.ts.Ite(e.ts.Eq(bs[i], c), e.ts.BV(64, uint64(i)), res)
	}
	return res
}

func (e *Exec) countByte(bs []*Term, c *Term) Value {
	res := e.ts.BV(64, 0)
	for _, b := range bs {
		res = e.ts.Bin(OpAdd, res, e.ts.BoolToBV(e.ts.Eq(b, c), 64))
	}
	return res
}

func (e *Exec) bytesEqual(a, b []*Term) Value {
	if len(a) != len(b) {
		return e.ts.Bool(false)
	}
	r := e.ts.Bool(true)
	for i := range a {
		r = e.ts.And(r, e.ts.Eq(a[i], b[i]))
	}
	return r
}

func (e *Exec) compareTerm(a, b *Str) Value {
	lt, eq := e.strCompare(a, b)
	return e.ts.Ite(lt, e.ts.BV(64, mask(64)), e.ts.Ite(eq, e.ts.BV(64, 0), e.ts.BV(64, 1)))
}

func (e *Exec) indexString(s, sub *Str) Value {
	sb, tb := e.strBytes(s), e.strBytes(sub)
	res := e.ts.BV(64, mask(64))
	for i := len(sb) - len(tb); i >= 0; i-- {
		m := e.ts.Bool(true)
		for j := range tb {
			m = e.ts.And(m, e.ts.Eq(sb[i+j], tb[j]))
		}
		res = e.ts.Ite(m, e.ts.BV(64, uint64(i)), res)
	}
	return res
}

// assertKnown implements sym.AssertKnown (see zzsym).
func (e *Exec) assertKnown(c *Term, msg, tag string, pat *Term) {
	// violations outside the known pattern
	e.assertProp(e.ts.Or(c, pat), msg)
	// violations inside the known pattern
	if c.IsTrue() {
		return
	}
	bad := e.ts.And(e.ts.Not(c), pat)
	if bad.IsFalse() {
		return
	}
	if e.concrete != nil {
		if bad.IsTrue() {
			e.violations = append(e.violations, violation{Msg: msg, Known: tag})
		}
		return
	}
	res := e.checkWith(bad, e.prog.cfg.AssertTimeoutMs)
	switch res {
	case "sat":
		v := violation{Msg: msg + " [known:" + tag + "]", Known: tag, Pos: e.prog.fset.Position(e.lastPos).String()}
		v.Model, v.Inputs = e.modelOfInputs()
		e.popCheck()
		e.violations = append(e.violations, v)
		r2 := e.checkWith(c, e.prog.cfg.BranchTimeoutMs)
		e.popCheck()
		if r2 == "unsat" {
			panic(&pathEnd{kind: endDone, msg: "assertion always fails here"})
		}
		e.assertPC(c)
	case "unsat":
		e.popCheck()
		e.assertPC(c)
	default:
		e.popCheck()
		panic(&pathEnd{kind: endUnknown, msg: "solver " + res + " on known-pattern query: " + msg})
	}
}
