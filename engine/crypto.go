package main

import (
	"fmt"
	"go/types"
)

// Abstract cryptographic hashes: a digest is a vector of fresh variables constrained, pairwise
// against every earlier application on the path, to be a function of the exact byte stream
// (equal streams => equal digests) that is injective (equal digests => equal streams) and never
// the all-zero digest. This is the standard collision-freeness contract; the code around the
// hash (framing, chaining, comparison) is what gets decided.

type hashObj struct {
	kind   string // "sha256", "md5"
	stream []*Term
	id     int
}

type hashApp struct {
	kind   string
	stream []*Term
	out    []*Term // bytes
}

func hashSize(kind string) int {
	switch kind {
	case "sha256":
		return 32
	case "md5":
		return 16
	case "sha1":
		return 20
	}
	return 32
}

func (e *Exec) hashDigest(kind string, stream []*Term) []*Term {
	// identical stream (syntactically)?
	for _, a := range e.hashApps {
		if a.kind != kind || len(a.stream) != len(stream) {
			continue
		}
		same := true
		for i := range stream {
			if a.stream[i] != stream[i] {
				same = false
				break
			}
		}
		if same {
			return a.out
		}
	}
	n := hashSize(kind)
	idx := len(e.hashApps)
	var words []*Term
	out := make([]*Term, 0, n)
	for w := 0; w*8 < n; w++ {
		width := 64
		if n-w*8 < 8 {
			width = (n - w*8) * 8
		}
		v := e.newInput(fmt.Sprintf("hash.%s.%d.w%d", kind, idx, w), width)
		words = append(words, v)
		for b := 0; b < width/8; b++ {
			hi := width - 1 - 8*b
			out = append(out, e.ts.Extract(v, hi, hi-7))
		}
	}
	// never the zero digest
	nz := e.ts.Bool(false)
	for _, w := range words {
		nz = e.ts.Or(nz, e.ts.Not(e.ts.Eq(w, e.ts.BV(w.W, 0))))
	}
	e.assertPC(nz)
	for _, a := range e.hashApps {
		if a.kind != kind {
			continue
		}
		deq := e.ts.Bool(true)
		for i := range out {
			deq = e.ts.And(deq, e.ts.Eq(out[i], a.out[i]))
		}
		if len(a.stream) != len(stream) {
			e.assertPC(e.ts.Not(deq))
			continue
		}
		seq := e.ts.Bool(true)
		for i := range stream {
			seq = e.ts.And(seq, e.ts.Eq(stream[i], a.stream[i]))
		}
		e.assertPC(e.ts.Eq(deq, seq))
	}
	e.hashApps = append(e.hashApps, hashApp{kind: kind, stream: append([]*Term{}, stream...), out: out})
	return out
}

var hashNamed *types.Named

func (p *Program) hashType() types.Type {
	p.pdmu.Lock()
	defer p.pdmu.Unlock()
	if hashNamed == nil {
		zp := types.NewPackage("zzopaque", "zzopaque")
		hashNamed = types.NewNamed(types.NewTypeName(0, zp, "abstractHash", nil), types.NewStruct(nil, nil), nil)
	}
	return hashNamed
}

func hashMethod(name string) intrinsic {
	switch name {
	case "Write":
		return func(e *Exec, fr *frame, args []Value) Value {
			h := args[0].(*hashObj)
			s := args[1].(Slice)
			if e.spec > 0 && h.id <= e.specObjStart {
				e.abortSpec("hash write")
			}
			if s.len > 0 {
				h.stream = append(h.stream, e.byteSliceTerms(s)...)
			}
			return Tuple{e.ts.BV(64, uint64(s.len)), Iface{}}
		}
	case "Sum":
		return func(e *Exec, fr *frame, args []Value) Value {
			h := args[0].(*hashObj)
			b := args[1].(Slice)
			d := e.hashDigest(h.kind, h.stream)
			vals := make([]Value, len(d))
			for i, t := range d {
				vals[i] = t
			}
			return e.appendValues(b, vals, types.Typ[types.Uint8])
		}
	case "Reset":
		return func(e *Exec, fr *frame, args []Value) Value {
			args[0].(*hashObj).stream = nil
			return nil
		}
	case "Size":
		return func(e *Exec, fr *frame, args []Value) Value {
			return e.ts.BV(64, uint64(hashSize(args[0].(*hashObj).kind)))
		}
	case "BlockSize":
		return func(e *Exec, fr *frame, args []Value) Value { return e.ts.BV(64, 64) }
	}
	return nil
}

func init() {
	extraIntrinsics = append(extraIntrinsics, func(p *Program) {
		I := p.intrinsics
		newHash := func(kind string) intrinsic {
			return func(e *Exec, fr *frame, args []Value) Value {
				e.objID++
				return Iface{t: e.prog.hashType(), v: &hashObj{kind: kind, id: e.objID}}
			}
		}
		I["crypto/sha256.New"] = newHash("sha256")
		I["crypto/md5.New"] = newHash("md5")
		I["crypto/sha1.New"] = newHash("sha1")
		sumArr := func(kind string) intrinsic {
			return func(e *Exec, fr *frame, args []Value) Value {
				s := args[0].(Slice)
				d := e.hashDigest(kind, e.byteSliceTerms(s))
				arr := make(Array, len(d))
				for i, t := range d {
					arr[i] = t
				}
				return arr
			}
		}
		I["crypto/sha256.Sum256"] = sumArr("sha256")
		I["crypto/md5.Sum"] = sumArr("md5")
		I["crypto/sha1.Sum"] = sumArr("sha1")
	})
}
