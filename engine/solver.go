package main

import (
	"bufio"
	"fmt"
	"io"
	"os"
	"os/exec"
	"strconv"
	"strings"
	"time"
)

// Solver wraps one long-lived `z3 -in` process.
type Solver struct {
	bin     string
	args    []string
	cmd     *exec.Cmd
	in      io.WriteCloser
	out     *bufio.Reader
	log     io.Writer
	Queries int
	Time    time.Duration
	Errors  []string
	Dead    bool
	Kills   int
}

func NewSolver(bin string, args []string, log io.Writer) (*Solver, error) {
	s := &Solver{bin: bin, args: args, log: log}
	if err := s.start(); err != nil {
		return nil, err
	}
	return s, nil
}

func (s *Solver) start() error {
	s.cmd = exec.Command(s.bin, s.args...)
	var err error
	s.in, err = s.cmd.StdinPipe()
	if err != nil {
		return err
	}
	o, err := s.cmd.StdoutPipe()
	if err != nil {
		return err
	}
	s.cmd.Stderr = os.Stderr
	s.out = bufio.NewReaderSize(o, 1<<20)
	if err := s.cmd.Start(); err != nil {
		return err
	}
	s.Send("(set-option :print-success false)\n(set-option :produce-models true)\n")
	if strings.Contains(s.bin, "z3") {
		// after the first pop z3's combined solver only uses its weak incremental core: let it fall
		// back to the full bit-vector tactic solver after 100 ms
		s.Send("(set-option :combined_solver.solver2_timeout 100)\n(set-option :combined_solver.solver2_unknown 2)\n")
	}
	return nil
}

func (s *Solver) Close() {
	if s.cmd != nil {
		s.in.Close()
		s.cmd.Process.Kill()
		s.cmd.Wait()
		s.cmd = nil
	}
}

func (s *Solver) restart() {
	s.Close()
	if err := s.start(); err != nil {
		panic(err)
	}
}

func (s *Solver) Send(text string) {
	if s.Dead {
		return
	}
	if s.log != nil {
		io.WriteString(s.log, text)
	}
	if _, err := io.WriteString(s.in, text); err != nil {
		panic(fmt.Sprintf("solver write: %v", err))
	}
}

func (s *Solver) readLine() string {
	line, err := s.out.ReadString('\n')
	if err != nil {
		panic(fmt.Sprintf("solver read: %v (%q)", err, line))
	}
	return strings.TrimSpace(line)
}

// CheckSat issues (check-sat) and returns "sat", "unsat" or "unknown". Any (error line makes it "error".
// A watchdog kills a solver that overshoots its timeout; the caller must then Resync.
func (s *Solver) CheckSat(timeoutMs int) string {
	t0 := time.Now()
	s.Send(fmt.Sprintf("(set-option :timeout %d)\n(check-sat)\n", timeoutMs))
	s.Queries++
	type ans struct {
		res string
		err interface{}
	}
	ch := make(chan ans, 1)
	go func() {
		defer func() {
			if r := recover(); r != nil {
				ch <- ans{"unknown", r}
			}
		}()
		res := ""
		for {
			l := s.readLine()
			if l == "" {
				continue
			}
			if strings.HasPrefix(l, "(error") {
				if strings.Contains(l, "canceled") {
					// a timeout that fired outside check-sat (z3 reports it as an error)
					if res == "" {
						res = "unknown"
					}
					continue
				}
				s.Errors = append(s.Errors, l)
				res = "error"
				continue
			}
			if l == "sat" || l == "unsat" || l == "unknown" || l == "timeout" {
				if res == "" {
					res = l
				}
				if res == "timeout" {
					res = "unknown"
				}
				break
			}
			s.Errors = append(s.Errors, "unexpected: "+l)
			res = "error"
		}
		ch <- ans{res, nil}
	}()
	defer func() {
		if !s.Dead {
			// the timeout option also applies to later push/assert commands: lift it again
			s.Send("(set-option :timeout 4294967295)\n")
		}
	}()
	grace := time.Duration(timeoutMs)*time.Millisecond + time.Duration(timeoutMs/2)*time.Millisecond + 3*time.Second
	var a ans
	select {
	case a = <-ch:
	case <-time.After(grace):
		s.cmd.Process.Kill()
		a = <-ch
		a.res = "unknown"
		s.Dead = true
		s.Kills++
	}
	if a.err != nil {
		s.Dead = true
		a.res = "unknown"
	}
	s.Time += time.Since(t0)
	return a.res
}

// Revive restarts a dead solver process (the caller re-sends its context).
func (s *Solver) Revive() {
	s.Close()
	s.Dead = false
	if err := s.start(); err != nil {
		panic(err)
	}
}

// readSexp reads one balanced s-expression.
func (s *Solver) readSexp() string {
	var sb strings.Builder
	depth := 0
	started := false
	for {
		b, err := s.out.ReadByte()
		if err != nil {
			panic("solver read sexp: " + err.Error())
		}
		if !started {
			if b == ' ' || b == '\n' || b == '\r' || b == '\t' {
				continue
			}
			started = true
			if b != '(' {
				// atom: read to end of line
				rest, _ := s.out.ReadString('\n')
				return string(b) + strings.TrimSpace(rest)
			}
		}
		sb.WriteByte(b)
		if b == '(' {
			depth++
		} else if b == ')' {
			depth--
			if depth == 0 {
				return sb.String()
			}
		}
	}
}

// GetValues returns values of named constants (bit-vectors or Bools) after a sat answer.
func (s *Solver) GetValues(names []string) (map[string]uint64, error) {
	res := map[string]uint64{}
	for i := 0; i < len(names); i += 200 {
		j := i + 200
		if j > len(names) {
			j = len(names)
		}
		s.Send("(get-value (" + strings.Join(names[i:j], " ") + "))\n")
		sx := s.readSexp()
		if strings.HasPrefix(sx, "(error") {
			return nil, fmt.Errorf("get-value: %s", sx)
		}
		toks := tokenize(sx)
		// ( ( name val ) ( name val ) ... ) ; val may be (_ bvN W)
		p := 1
		for p < len(toks) && toks[p] == "(" {
			name := toks[p+1]
			p += 2
			var v uint64
			if toks[p] == "(" { // (_ bv123 64)
				bv := toks[p+2]
				n, err := strconv.ParseUint(strings.TrimPrefix(bv, "bv"), 10, 64)
				if err != nil {
					return nil, fmt.Errorf("parse %q", bv)
				}
				v = n
				for toks[p] != ")" {
					p++
				}
				p++
			} else {
				t := toks[p]
				p++
				switch {
				case t == "true":
					v = 1
				case t == "false":
					v = 0
				case strings.HasPrefix(t, "#x"):
					n, err := strconv.ParseUint(t[2:], 16, 64)
					if err != nil {
						return nil, err
					}
					v = n
				case strings.HasPrefix(t, "#b"):
					n, err := strconv.ParseUint(t[2:], 2, 64)
					if err != nil {
						return nil, err
					}
					v = n
				default:
					return nil, fmt.Errorf("unknown value token %q", t)
				}
			}
			if toks[p] != ")" {
				return nil, fmt.Errorf("expected ) got %q", toks[p])
			}
			p++
			res[name] = v
		}
	}
	return res, nil
}

func tokenize(s string) []string {
	var toks []string
	i := 0
	for i < len(s) {
		c := s[i]
		switch {
		case c == '(' || c == ')':
			toks = append(toks, string(c))
			i++
		case c == ' ' || c == '\n' || c == '\t' || c == '\r':
			i++
		case c == '|':
			j := strings.IndexByte(s[i+1:], '|')
			toks = append(toks, s[i:i+j+2])
			i += j + 2
		default:
			j := i
			for j < len(s) && !strings.ContainsRune("() \n\t\r", rune(s[j])) {
				j++
			}
			toks = append(toks, s[i:j])
			i = j
		}
	}
	return toks
}
