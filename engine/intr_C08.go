package main

// C08: hash/maphash as an uninterpreted function.
//
// The idempotency membership filter hashes keys with maphash.Bytes under two process-random seeds
// (maphash.MakeSeed at package init). Its soundness must not depend on any property of the hash, so the
// model is the weakest one: every application returns a fresh, completely unconstrained 64-bit input; an
// application whose (seed, byte terms) are syntactically identical to an earlier application on the same
// path returns the same variable (functional consistency for the same key object). Applications on
// different term sequences are unrelated even if the bytes happen to be equal in a model — that only adds
// behaviours (over-approximation: sound for proving).
//
// maphash.MakeSeed returns distinct concrete seeds (1, 2, ... per path) so that the two filter hashes are
// independent functions.
//
// Natively the real maphash runs, with other values. Entries whose name contains "EnvHash" therefore name
// the hash inputs "env.maphash#k": the engine treats env.* inputs as environment values that cannot be
// injected into a native run (their samples are left out of the native self-test and a counterexample is
// reported with its model instead of being replayed). All other entries get "maphash#k" and must keep
// Assume/Reach/Observe independent of the hash values.

import (
	"strings"
	"sync"
	"weak"
)

type c08HashApp struct {
	seed *Term
	args []*Term
	out  *Term
}

type c08HashState struct {
	apps  []c08HashApp
	seeds int
}

var c08Hash struct {
	mu sync.Mutex
	st map[weak.Pointer[Exec]]*c08HashState
	n  int
}

func c08State(e *Exec) *c08HashState {
	wp := weak.Make(e)
	c08Hash.mu.Lock()
	defer c08Hash.mu.Unlock()
	c08Hash.n++
	if c08Hash.n%1024 == 0 {
		for k := range c08Hash.st {
			if k.Value() == nil {
				delete(c08Hash.st, k)
			}
		}
	}
	s := c08Hash.st[wp]
	if s == nil {
		s = &c08HashState{}
		c08Hash.st[wp] = s
	}
	return s
}

func c08Apply(e *Exec, seedV Value, bs []*Term) Value {
	var seed *Term
	if st, ok := seedV.(Struct); ok && len(st) == 1 {
		seed, _ = st[0].(*Term)
	}
	if seed == nil {
		e.unsupported("hash/maphash: seed is not a struct of one scalar")
	}
	// Store-level entries (Harness_C08_Store*): the filter layers have the constructor's size there (64/128
	// words), where symbolic probe positions are intractable, so the hash is instantiated with two concrete
	// extremes instead of being uninterpreted: an ordinary hash (FNV-1a over seed and bytes: distinct keys
	// practically never collide, the filter answers "absent" for fresh keys) and, for entries named
	// *Collide, a constant hash (every key probes the same bits: after the first add the filter answers
	// "possibly present" for EVERY key, so every validation takes the durable point-read path).
	if strings.Contains(e.entryName, "Harness_C08_Store") && seed.IsConst() {
		if strings.Contains(e.entryName, "Collide") {
			return e.ts.BV(64, 0x5bd1e9955bd1e995)
		}
		if h, ok := c07ConcreteHash(seed.Val, bs); ok {
			return e.ts.BV(64, h)
		}
	}
	s := c08State(e)
	for _, a := range s.apps {
		if a.seed != seed || len(a.args) != len(bs) {
			continue
		}
		same := true
		for i := range bs {
			if a.args[i] != bs[i] {
				same = false
				break
			}
		}
		if same {
			return a.out
		}
	}
	name := "maphash"
	if strings.Contains(e.entryName, "EnvHash") {
		name = "env.maphash"
	}
	out := e.newInput(name, 64)
	s.apps = append(s.apps, c08HashApp{seed: seed, args: append([]*Term(nil), bs...), out: out})
	return out
}

func init() {
	c08Hash.st = map[weak.Pointer[Exec]]*c08HashState{}
	extraIntrinsics = append(extraIntrinsics, func(p *Program) {
		if p.check == nil || p.check.Property != "C08" {
			return
		}
		p.intrinsics["hash/maphash.MakeSeed"] = func(e *Exec, fr *frame, args []Value) Value {
			s := c08State(e)
			s.seeds++
			return Struct{e.ts.BV(64, uint64(s.seeds))}
		}
		p.intrinsics["hash/maphash.Bytes"] = func(e *Exec, fr *frame, args []Value) Value {
			sl, ok := args[1].(Slice)
			if !ok {
				e.unsupported("hash/maphash.Bytes: argument is not a slice")
			}
			return c08Apply(e, args[0], e.byteSliceTerms(sl))
		}
		p.intrinsics["hash/maphash.String"] = func(e *Exec, fr *frame, args []Value) Value {
			st, ok := args[1].(*Str)
			if !ok {
				e.unsupported("hash/maphash.String: argument is not a string")
			}
			return c08Apply(e, args[0], e.strBytes(st))
		}
	})
}
