package main

// Models needed by the C24 (JSON-RPC frame bridge) harness.
func init() {
	extraIntrinsics = append(extraIntrinsics, func(p *Program) {
		// strconv's error constructors (syntaxError, rangeError) copy the offending input with
		// internal/stringslite.Clone = make+copy+unsafe.String(&b[0], n). Strings are immutable values in
		// the executor, so the copy is the string itself (same model as strings.Clone).
		p.intrinsics["internal/stringslite.Clone"] = func(e *Exec, fr *frame, args []Value) Value { return args[0] }
	})
}
