package main

// Models needed by the C27 (internal cluster codecs) harness.
func init() {
	extraIntrinsics = append(extraIntrinsics, func(p *Program) {
		// (*strings.Builder).copyCheck only guards against copying a non-zero Builder by value; it goes
		// through internal/abi.NoEscape(unsafe.Pointer), which the executor has no memory model for.
		// strings.Join / strings.Builder are otherwise executed from source.
		p.intrinsics["(*strings.Builder).copyCheck"] = func(e *Exec, fr *frame, args []Value) Value { return nil }
		// (*strings.Builder).String is unsafe.String(unsafe.SliceData(b.buf), len(b.buf)); the SSA builtins
		// SliceData/String are not dispatched by callBuiltin. Model: the string of the bytes of b.buf
		// (struct Builder { addr *Builder; buf []byte }).
		p.intrinsics["(*strings.Builder).String"] = func(e *Exec, fr *frame, args []Value) Value {
			ptr := args[0].(Pointer)
			if ptr.loc == nil || len(ptr.loc.kids) != 2 {
				e.unsupported("(*strings.Builder).String: unexpected receiver layout")
			}
			buf, ok := e.loadLoc(ptr.loc.kids[1]).(Slice)
			if !ok {
				e.unsupported("(*strings.Builder).String: buf is not a slice")
			}
			if buf.arr == nil || buf.len == 0 {
				return &Str{}
			}
			return e.mkStr(e.byteSliceTerms(buf))
		}
	})
}
