package main

// C09: hash/maphash for the crash-atomicity entries (real MessageDB / ChannelLog on the in-memory
// engine overlay). Same model as the store-level entries of C07 (intr_C07.go): the append path
// consults the idempotency membership filter, which hashes the concrete index key with two
// process-random seeds; for CONCRETE key bytes the hash is one concrete function (FNV-1a over seed
// and bytes) - a legitimate instance of "some hash function"; filter soundness for every hash
// function is C08's obligation, and the store's observable behaviour does not depend on which keys
// collide (a possible hit only adds a point read). Natively the real maphash runs. Symbolic key bytes
// (not produced by the C09 harness) fall back to the uninterpreted model of intr_C08.go.
// Scope: only for check.json property C09.
func init() {
	extraIntrinsics = append(extraIntrinsics, func(p *Program) {
		if p.check == nil || p.check.Property != "C09" {
			return
		}
		p.intrinsics["hash/maphash.MakeSeed"] = func(e *Exec, fr *frame, args []Value) Value {
			s := c08State(e)
			s.seeds++
			return Struct{e.ts.BV(64, uint64(s.seeds))}
		}
		apply := func(e *Exec, seedV Value, bs []*Term) Value {
			if st, ok := seedV.(Struct); ok && len(st) == 1 {
				if seed, ok := st[0].(*Term); ok && seed.IsConst() {
					if h, ok := c07ConcreteHash(seed.Val, bs); ok {
						return e.ts.BV(64, h)
					}
				}
			}
			return c08Apply(e, seedV, bs)
		}
		p.intrinsics["hash/maphash.Bytes"] = func(e *Exec, fr *frame, args []Value) Value {
			sl, ok := args[1].(Slice)
			if !ok {
				e.unsupported("hash/maphash.Bytes: argument is not a slice")
			}
			return apply(e, args[0], e.byteSliceTerms(sl))
		}
		p.intrinsics["hash/maphash.String"] = func(e *Exec, fr *frame, args []Value) Value {
			st, ok := args[1].(*Str)
			if !ok {
				e.unsupported("hash/maphash.String: argument is not a string")
			}
			return apply(e, args[0], e.strBytes(st))
		}
	})
}
