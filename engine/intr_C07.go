package main

// C07: solver-friendly exact model of hash/crc32.Update for the row VALUE codec entries
// (rowcodec envelope: CRC32C over key, header and payload).
//
// The default model redirects crc32.Update to the package's table-driven simpleUpdate; that is exact,
// but every symbolic byte becomes a 256-way table multiplexer feeding the next one, and z3 cannot decide
// "stored checksum == recomputed checksum" over ~60 symbolic bytes within any reasonable timeout.
//
// For a fixed table T built from a CRC polynomial and a fixed length n, (crc, p) -> Update(crc, T, p) is an
// affine map over GF(2) of the 32 bits of crc and the 8n bits of p:
//
//	Update(c, T, p) = Update(0, T, 0^n)  xor  XOR_i c_i * A_i  xor  XOR_{j,k} p_{j,k} * B_{j,k}
//
// with A_i = Update(1<<i, T, 0^n) xor Update(0, T, 0^n) and B_{j,k} likewise for the unit byte strings. The
// model builds exactly that term (flat: chained Update calls are composed so that every checksum is one
// constant xor a set of guarded constants over primitive bits) from coefficients computed with the real
// hash/crc32 (simpleUpdate on the table CONTENTS read from the executor's memory). The affine identity
// is validated natively against hash/crc32.Update for every (table, n) on first use (random crc and p), and
// the C07 key-binding entry Observes the stored checksum bytes, so the native self-test compares the model with
// the real CRC32C kernel on its sampled paths.
//
// For two checksum terms a, b over the same total length, the facts (a == b) <=> solved GF(2) system and
// (a == b xor 1) <=> solved system are asserted (c35CrcEqLemma): rowcodec maps the checksum 0 to 1, so
// a collision question is "a == b, or {a,b} == {0,1}", and the solved forms let the solver answer it by
// propagation. The lemmas are valid facts (equivalences derived by Gaussian elimination), not assumptions.
//
// Scope: only for check.json property C07; every other check keeps the table-driven redirect.

import (
	"fmt"
	"hash/crc32"
	"math/rand"
	"sort"
	"strings"
	"sync"
	"weak"
)

type c07CrcCall struct {
	c35CrcCall
	total   int   // bytes consumed since a constant start value
	xor     *Term // the affine form as a term; term is the variable defined by it
	defined bool  // term == xor already asserted on this path
}

var c07Crc struct {
	mu        sync.Mutex
	calls     map[weak.Pointer[Exec]][]*c07CrcCall
	ncalls    int
	validated map[string]bool
}

// c07CrcNative is the reference: hash/crc32 on a table given by contents (never pointer-equal to the
// package's IEEE/Castagnoli tables, so crc32.Update takes the generic table-driven path).
func c07CrcNative(tab *crc32.Table, crc uint32, p []byte) uint32 { return crc32.Update(crc, tab, p) }

func c07CrcValidate(tab *crc32.Table, n int) {
	key := fmt.Sprintf("%08x.%08x.%d", tab[1], tab[255], n)
	c07Crc.mu.Lock()
	done := c07Crc.validated[key]
	c07Crc.mu.Unlock()
	if done {
		return
	}
	zero := make([]byte, n)
	k0 := c07CrcNative(tab, 0, zero)
	var a [32]uint32
	for i := range a {
		a[i] = c07CrcNative(tab, 1<<uint(i), zero) ^ k0
	}
	b := make([][8]uint32, n)
	buf := make([]byte, n)
	for j := 0; j < n; j++ {
		for k := 0; k < 8; k++ {
			buf[j] = 1 << uint(k)
			b[j][k] = c07CrcNative(tab, 0, buf) ^ k0
			buf[j] = 0
		}
	}
	rng := rand.New(rand.NewSource(int64(n)*7919 + int64(tab[1])))
	for it := 0; it < 4000; it++ {
		c := rng.Uint32()
		rng.Read(buf)
		r := k0
		for i := 0; i < 32; i++ {
			if c&(1<<uint(i)) != 0 {
				r ^= a[i]
			}
		}
		for j, v := range buf {
			for k := 0; k < 8; k++ {
				if v&(1<<uint(k)) != 0 {
					r ^= b[j][k]
				}
			}
		}
		if r != c07CrcNative(tab, c, buf) {
			panic(fmt.Sprintf("intr_C07: affine CRC model disagrees with hash/crc32.Update (table[1]=%08x, n=%d, crc=%08x, p=% x)", tab[1], n, c, buf))
		}
	}
	c07Crc.mu.Lock()
	c07Crc.validated[key] = true
	c07Crc.mu.Unlock()
}

func init() {
	c07Crc.calls = map[weak.Pointer[Exec]][]*c07CrcCall{}
	c07Crc.validated = map[string]bool{}
	extraIntrinsics = append(extraIntrinsics, func(p *Program) {
		if p.check == nil || p.check.Property != "C07" {
			return
		}
		old := p.intrinsics["hash/crc32.Update"]
		p.intrinsics["hash/crc32.Update"] = func(e *Exec, fr *frame, args []Value) Value {
			crc, okc := args[0].(*Term)
			tp, okt := args[1].(Pointer)
			sl, oks := args[2].(Slice)
			if !okc || !okt || !oks || tp.loc == nil {
				return old(e, fr, args)
			}
			bs := e.byteSliceTerms(sl)
			n := len(bs)
			if n == 0 {
				return crc
			}
			allConst := crc.IsConst()
			for _, b := range bs {
				if b.W != 8 {
					return old(e, fr, args)
				}
				if !b.IsConst() {
					allConst = false
				}
			}
			tv, okArr := e.load(tp).(Array)
			if !okArr || len(tv) != 256 {
				return old(e, fr, args)
			}
			var tab crc32.Table
			for i, v := range tv {
				t, isT := v.(*Term)
				if !isT || !t.IsConst() {
					return old(e, fr, args)
				}
				tab[i] = uint32(t.Val)
			}
			if allConst {
				buf := make([]byte, n)
				for i, b := range bs {
					buf[i] = byte(b.Val)
				}
				return e.ts.BV(32, uint64(c07CrcNative(&tab, uint32(crc.Val), buf)))
			}
			c07CrcValidate(&tab, n)
			zero := make([]byte, n)
			k0 := c07CrcNative(&tab, 0, zero)
			lin := func(c uint32) uint32 { return c07CrcNative(&tab, c, zero) ^ k0 } // A * c

			// previous call producing the crc argument (flat form known)?
			wp := weak.Make(e)
			c07Crc.mu.Lock()
			prevCalls := append([]*c07CrcCall(nil), c07Crc.calls[wp]...)
			c07Crc.mu.Unlock()
			var src *c07CrcCall
			if !crc.IsConst() {
				for _, o := range prevCalls {
					if o.term == crc {
						src = o
						break
					}
				}
			}
			call := &c07CrcCall{total: n}
			idx := map[int]int{}
			var addVar func(bit *Term, coef uint32)
			addVar = func(bit *Term, coef uint32) {
				if coef == 0 {
					return
				}
				// the form is linear: constants, xor and complement of 1-bit terms are decomposed
				if bit.IsConst() {
					if bit.Val != 0 {
						call.konst ^= coef
					}
					return
				}
				if bit.Op == OpBvXor && len(bit.Args) == 2 {
					addVar(bit.Args[0], coef)
					addVar(bit.Args[1], coef)
					return
				}
				if bit.Op == OpBvNot && len(bit.Args) == 1 {
					call.konst ^= coef
					addVar(bit.Args[0], coef)
					return
				}
				if j, dup := idx[bit.ID]; dup {
					call.coef[j] ^= coef
					return
				}
				idx[bit.ID] = len(call.vars)
				call.vars = append(call.vars, bit)
				call.coef = append(call.coef, coef)
			}
			switch {
			case crc.IsConst():
				call.konst = c07CrcNative(&tab, uint32(crc.Val), zero)
			case src != nil:
				call.konst = c07CrcNative(&tab, src.konst, zero)
				call.total += src.total
				for j, v := range src.vars {
					addVar(v, lin(src.coef[j]))
				}
			default:
				call.konst = k0
				call.total = -1 // unknown history: never paired
				for i := 0; i < 32; i++ {
					bit := e.ts.Extract(crc, i, i)
					if bit.IsConst() {
						if bit.Val != 0 {
							call.konst ^= lin(1 << uint(i))
						}
						continue
					}
					addVar(bit, lin(1<<uint(i)))
				}
			}
			buf := make([]byte, n)
			for j, b := range bs {
				for k := 0; k < 8; k++ {
					buf[j] = 1 << uint(k)
					co := c07CrcNative(&tab, 0, buf) ^ k0
					buf[j] = 0
					if b.IsConst() {
						if b.Val&(1<<uint(k)) != 0 {
							call.konst ^= co
						}
						continue
					}
					bit := e.ts.Extract(b, k, k)
					if bit.IsConst() {
						if bit.Val != 0 {
							call.konst ^= co
						}
						continue
					}
					addVar(bit, co)
				}
			}
			// canonical order (by term id) so that equal affine forms are the same term
			ord := make([]int, len(call.vars))
			for i := range ord {
				ord[i] = i
			}
			sort.Slice(ord, func(x, y int) bool { return call.vars[ord[x]].ID < call.vars[ord[y]].ID })
			vars := make([]*Term, 0, len(ord))
			coef := make([]uint32, 0, len(ord))
			for _, i := range ord {
				if call.coef[i] != 0 {
					vars = append(vars, call.vars[i])
					coef = append(coef, call.coef[i])
				}
			}
			call.vars, call.coef = vars, coef
			t := e.ts.BV(32, uint64(call.konst))
			for j, v := range call.vars {
				sel := e.ts.Ite(e.ts.Eq(v, e.ts.BV(1, 1)), e.ts.BV(32, uint64(call.coef[j])), e.ts.BV(32, 0))
				t = e.ts.Bin(OpBvXor, t, sel)
			}
			if e.concrete != nil || t.IsConst() {
				return t
			}
			// The checksum is handed out as a named 32-bit variable DEFINED by the xor network (the executor's
			// simplifier would otherwise push the byte extractions of PutUint32 through the network and the solver
			// would have to prove two differently sliced parity networks equal). Equal affine forms (the
			// checksum written by the encoder and the one recomputed by the decoder over the same bytes) get the
			// same variable.
			call.xor = t
			for _, o := range prevCalls {
				if o.xor == t {
					return o.term
				}
			}
			// (registered as an input only so that its value is part of every path model: the self-test
			// evaluates Observed terms under the model; natively the name is never asked for)
			call.term = e.newInput("crc32.checksum", 32)
			// The defining equation is asserted lazily, when a second, different checksum over the same number of
			// bytes appears on the path (only then can the VALUE matter: collision questions). Until then the
			// variable is unconstrained, which over-approximates the checksum (sound for proving; identical forms
			// still share one variable), and keeps the parity network out of every later query of a round trip.
			c07Crc.mu.Lock()
			c07Crc.ncalls++
			if c07Crc.ncalls%512 == 0 {
				for k := range c07Crc.calls {
					if k.Value() == nil {
						delete(c07Crc.calls, k)
					}
				}
			}
			c07Crc.calls[wp] = append(c07Crc.calls[wp], call)
			c07Crc.mu.Unlock()
			// Values only matter for collision questions: the key-binding entry. The store-level entries write and
			// re-read their own rows (identical streams share one variable), so checksums of different rows stay
			// unrelated unconstrained values there (over-approximation) and no parity network reaches the solver.
			pairUp := strings.Contains(e.entryName, "ValueBoundToKey")
			for _, o := range prevCalls {
				if !pairUp || o.term == call.term || o.total != call.total || o.total < 0 {
					continue
				}
				for _, c := range []*c07CrcCall{o, call} {
					if !c.defined {
						c.defined = true
						e.assertPC(e.ts.Eq(c.term, c.xor))
					}
				}
				// d = o xor call with the shared bits cancelled; (o == call) <=> (d == 0)
				d := &c35CrcCall{konst: o.konst, term: o.term}
				seen := map[int]int{}
				for j, v := range o.vars {
					seen[v.ID] = len(d.vars)
					d.vars = append(d.vars, v)
					d.coef = append(d.coef, o.coef[j])
				}
				for j, v := range call.vars {
					if k, ok := seen[v.ID]; ok {
						d.coef[k] ^= call.coef[j]
					} else {
						d.vars = append(d.vars, v)
						d.coef = append(d.coef, call.coef[j])
					}
				}
				dv, dc := d.vars[:0:0], d.coef[:0:0]
				for j := range d.vars {
					if d.coef[j] != 0 {
						dv = append(dv, d.vars[j])
						dc = append(dc, d.coef[j])
					}
				}
				d.vars, d.coef = dv, dc
				// o.term == call.term  <=>  konst(o) xor SUM d == konst(call)
				if lemma := c35CrcEqLemma(e, d, &c35CrcCall{konst: call.konst, term: call.term}); lemma != nil {
					e.assertPC(lemma)
				}
				// o.term == call.term xor 1 (the envelope maps checksum 0 to 1)
				if lemma := c35CrcEqLemma(e, d, &c35CrcCall{konst: call.konst ^ 1, term: e.ts.Bin(OpBvXor, call.term, e.ts.BV(32, 1))}); lemma != nil {
					e.assertPC(lemma)
				}
			}
			return call.term
		}
	})
}

// ---------------------------------------------------------------------------------------------------
// hash/maphash for the store-level entries of C07 (the append path consults the idempotency membership
// filter, which hashes the index key with two process-random seeds). The store-level claim is about the
// log, not the filter, and the filter's layers have the constructor's size there (64/128 words), where
// symbolic probe positions are intractable (see harness/C08). So for CONCRETE key bytes the hash is
// one concrete function (FNV-1a over seed and bytes): a legitimate instance of "some hash function" —
// filter soundness for EVERY hash function is C08's obligation. Natively the real maphash runs; the
// store's observable behaviour does not depend on which keys collide (a possible hit only adds a point
// read). Symbolic key bytes fall back to the uninterpreted model of intr_C08.go.
func c07ConcreteHash(seed uint64, bs []*Term) (uint64, bool) {
	h := uint64(14695981039346656037)
	mix := func(b byte) {
		h ^= uint64(b)
		h *= 1099511628211
	}
	for i := 0; i < 8; i++ {
		mix(byte(seed >> uint(8*i)))
	}
	for _, b := range bs {
		if !b.IsConst() {
			return 0, false
		}
		mix(byte(b.Val))
	}
	return h, true
}

func init() {
	extraIntrinsics = append(extraIntrinsics, func(p *Program) {
		if p.check == nil || p.check.Property != "C07" {
			return
		}
		p.intrinsics["hash/maphash.MakeSeed"] = func(e *Exec, fr *frame, args []Value) Value {
			s := c08State(e)
			s.seeds++
			return Struct{e.ts.BV(64, uint64(s.seeds))}
		}
		apply := func(e *Exec, seedV Value, bs []*Term) Value {
			if st, ok := seedV.(Struct); ok && len(st) == 1 {
				if seed, ok := st[0].(*Term); ok && seed.IsConst() {
					if h, ok := c07ConcreteHash(seed.Val, bs); ok {
						return e.ts.BV(64, h)
					}
				}
			}
			return c08Apply(e, seedV, bs)
		}
		p.intrinsics["hash/maphash.Bytes"] = func(e *Exec, fr *frame, args []Value) Value {
			sl, ok := args[1].(Slice)
			if !ok {
				e.unsupported("hash/maphash.Bytes: argument is not a slice")
			}
			return apply(e, args[0], e.byteSliceTerms(sl))
		}
		p.intrinsics["hash/maphash.String"] = func(e *Exec, fr *frame, args []Value) Value {
			st, ok := args[1].(*Str)
			if !ok {
				e.unsupported("hash/maphash.String: argument is not a string")
			}
			return apply(e, args[0], e.strBytes(st))
		}
	})
}
