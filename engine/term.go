package main

import (
	"fmt"
	"math/bits"
	"strings"
)

// Op is the operator of an SMT term.
type Op uint8

const (
	OpConst Op = iota
	OpVar
	OpNot
	OpAnd
	OpOr
	OpIte
	OpEq
	OpUlt
	OpUle
	OpSlt
	OpSle
	OpAdd
	OpSub
	OpMul
	OpUdiv
	OpUrem
	OpSdiv
	OpSrem
	OpBvAnd
	OpBvOr
	OpBvXor
	OpBvNot
	OpNeg
	OpShl
	OpLshr
	OpAshr
	OpConcat
	OpExtract
	OpZext
	OpSext
	OpApp // uninterpreted function application; name = function symbol
)

var opNames = map[Op]string{
	OpNot: "not", OpAnd: "and", OpOr: "or", OpIte: "ite", OpEq: "=",
	OpUlt: "bvult", OpUle: "bvule", OpSlt: "bvslt", OpSle: "bvsle",
	OpAdd: "bvadd", OpSub: "bvsub", OpMul: "bvmul", OpUdiv: "bvudiv", OpUrem: "bvurem",
	OpSdiv: "bvsdiv", OpSrem: "bvsrem", OpBvAnd: "bvand", OpBvOr: "bvor", OpBvXor: "bvxor",
	OpBvNot: "bvnot", OpNeg: "bvneg", OpShl: "bvshl", OpLshr: "bvlshr", OpAshr: "bvashr",
	OpConcat: "concat",
}

// Term is a hash-consed SMT term. W == 0 means Bool, otherwise a bit-vector of width W (<= 64).
type Term struct {
	Op   Op
	W    int
	Args []*Term
	Val  uint64 // OpConst
	Name string // OpVar / OpApp
	Hi   int    // OpExtract hi, OpZext/OpSext extra bits
	Lo   int
	ID   int
}

// TermStore hash-conses terms for one path.
type TermStore struct {
	tab    map[string]*Term
	ktab   map[termKey]*Term
	nextID int
	vars   []*Term
	funs   map[string]string // uninterpreted function name -> declaration
	funOrd []string
}

func NewTermStore() *TermStore {
	return &TermStore{tab: map[string]*Term{}, ktab: map[termKey]*Term{}, funs: map[string]string{}}
}

func mask(w int) uint64 {
	if w >= 64 {
		return ^uint64(0)
	}
	return (uint64(1) << uint(w)) - 1
}

type termKey struct {
	op         Op
	w          int
	val        uint64
	hi, lo     int
	name       string
	a0, a1, a2 int
	n          int
}

func (ts *TermStore) intern(t *Term) *Term {
	if len(t.Args) <= 3 {
		k := termKey{op: t.Op, w: t.W, val: t.Val, hi: t.Hi, lo: t.Lo, name: t.Name, n: len(t.Args)}
		switch len(t.Args) {
		case 3:
			k.a2 = t.Args[2].ID
			fallthrough
		case 2:
			k.a1 = t.Args[1].ID
			fallthrough
		case 1:
			k.a0 = t.Args[0].ID
		}
		if o, ok := ts.ktab[k]; ok {
			return o
		}
		ts.nextID++
		t.ID = ts.nextID
		ts.ktab[k] = t
		return t
	}
	var sb strings.Builder
	fmt.Fprintf(&sb, "%d:%d:%d:%d:%d:%s", t.Op, t.W, t.Val, t.Hi, t.Lo, t.Name)
	for _, a := range t.Args {
		fmt.Fprintf(&sb, ",%d", a.ID)
	}
	k := sb.String()
	if o, ok := ts.tab[k]; ok {
		return o
	}
	ts.nextID++
	t.ID = ts.nextID
	ts.tab[k] = t
	return t
}

func (t *Term) IsConst() bool { return t.Op == OpConst }
func (t *Term) IsBool() bool  { return t.W == 0 }
func (t *Term) IsTrue() bool  { return t.Op == OpConst && t.W == 0 && t.Val == 1 }
func (t *Term) IsFalse() bool { return t.Op == OpConst && t.W == 0 && t.Val == 0 }

func (ts *TermStore) Bool(b bool) *Term {
	v := uint64(0)
	if b {
		v = 1
	}
	return ts.intern(&Term{Op: OpConst, W: 0, Val: v})
}

func (ts *TermStore) BV(w int, v uint64) *Term {
	if w <= 0 || w > 64 {
		panic(fmt.Sprintf("bad width %d", w))
	}
	return ts.intern(&Term{Op: OpConst, W: w, Val: v & mask(w)})
}

func (ts *TermStore) Var(name string, w int) *Term {
	t := &Term{Op: OpVar, W: w, Name: name}
	n := ts.nextID
	r := ts.intern(t)
	if ts.nextID != n {
		ts.vars = append(ts.vars, r)
	}
	return r
}

// DeclareFun registers an uninterpreted function symbol.
func (ts *TermStore) DeclareFun(name string, argW []int, resW int) {
	if _, ok := ts.funs[name]; ok {
		return
	}
	var sb strings.Builder
	fmt.Fprintf(&sb, "(declare-fun %s (", name)
	for i, w := range argW {
		if i > 0 {
			sb.WriteByte(' ')
		}
		sb.WriteString(sortStr(w))
	}
	fmt.Fprintf(&sb, ") %s)", sortStr(resW))
	ts.funs[name] = sb.String()
	ts.funOrd = append(ts.funOrd, name)
}

func (ts *TermStore) App(name string, resW int, args ...*Term) *Term {
	return ts.intern(&Term{Op: OpApp, W: resW, Name: name, Args: args})
}

func sortStr(w int) string {
	if w == 0 {
		return "Bool"
	}
	return fmt.Sprintf("(_ BitVec %d)", w)
}

func (ts *TermStore) Not(a *Term) *Term {
	if a.W != 0 {
		panic("Not on non-bool")
	}
	if a.IsConst() {
		return ts.Bool(a.Val == 0)
	}
	if a.Op == OpNot {
		return a.Args[0]
	}
	return ts.intern(&Term{Op: OpNot, Args: []*Term{a}})
}

func (ts *TermStore) And(a, b *Term) *Term {
	if a.IsConst() {
		if a.Val == 0 {
			return a
		}
		return b
	}
	if b.IsConst() {
		if b.Val == 0 {
			return b
		}
		return a
	}
	if a == b {
		return a
	}
	if (a.Op == OpNot && a.Args[0] == b) || (b.Op == OpNot && b.Args[0] == a) {
		return ts.Bool(false)
	}
	if a.ID > b.ID {
		a, b = b, a
	}
	return ts.intern(&Term{Op: OpAnd, Args: []*Term{a, b}})
}

func (ts *TermStore) Or(a, b *Term) *Term {
	if a.IsConst() {
		if a.Val == 1 {
			return a
		}
		return b
	}
	if b.IsConst() {
		if b.Val == 1 {
			return b
		}
		return a
	}
	if a == b {
		return a
	}
	if (a.Op == OpNot && a.Args[0] == b) || (b.Op == OpNot && b.Args[0] == a) {
		return ts.Bool(true)
	}
	if a.ID > b.ID {
		a, b = b, a
	}
	return ts.intern(&Term{Op: OpOr, Args: []*Term{a, b}})
}

func (ts *TermStore) Implies(a, b *Term) *Term { return ts.Or(ts.Not(a), b) }

func (ts *TermStore) Ite(c, a, b *Term) *Term {
	if a.W != b.W {
		panic(fmt.Sprintf("ite width mismatch %d %d", a.W, b.W))
	}
	if c.IsConst() {
		if c.Val == 1 {
			return a
		}
		return b
	}
	if a == b {
		return a
	}
	if a.W == 0 {
		if a.IsConst() && b.IsConst() {
			if a.Val == 1 {
				return c
			}
			return ts.Not(c)
		}
		if a.IsTrue() {
			return ts.Or(c, b)
		}
		if a.IsFalse() {
			return ts.And(ts.Not(c), b)
		}
		if b.IsTrue() {
			return ts.Or(ts.Not(c), a)
		}
		if b.IsFalse() {
			return ts.And(c, a)
		}
	}
	if c.Op == OpNot {
		return ts.Ite(c.Args[0], b, a)
	}
	return ts.intern(&Term{Op: OpIte, W: a.W, Args: []*Term{c, a, b}})
}

func (ts *TermStore) Eq(a, b *Term) *Term {
	if a.W != b.W {
		panic(fmt.Sprintf("eq width mismatch %d %d", a.W, b.W))
	}
	if a == b {
		return ts.Bool(true)
	}
	if a.IsConst() && b.IsConst() {
		return ts.Bool(a.Val == b.Val)
	}
	if a.W == 0 {
		if a.IsConst() {
			a, b = b, a
		}
		if b.IsConst() {
			if b.Val == 1 {
				return a
			}
			return ts.Not(a)
		}
	}
	// (ite c k1 k2) == k  with constants
	if b.IsConst() && a.Op == OpIte && a.Args[1].IsConst() && a.Args[2].IsConst() {
		t1 := a.Args[1].Val == b.Val
		t2 := a.Args[2].Val == b.Val
		switch {
		case t1 && t2:
			return ts.Bool(true)
		case t1:
			return a.Args[0]
		case t2:
			return ts.Not(a.Args[0])
		default:
			return ts.Bool(false)
		}
	}
	if a.IsConst() && b.Op == OpIte && b.Args[1].IsConst() && b.Args[2].IsConst() {
		return ts.Eq(b, a)
	}
	// zext(x) == const
	if b.IsConst() && a.Op == OpZext {
		x := a.Args[0]
		if b.Val > mask(x.W) {
			return ts.Bool(false)
		}
		return ts.Eq(x, ts.BV(x.W, b.Val))
	}
	if a.IsConst() && b.Op == OpZext {
		return ts.Eq(b, a)
	}
	if a.ID > b.ID {
		a, b = b, a
	}
	return ts.intern(&Term{Op: OpEq, Args: []*Term{a, b}})
}

func sext64(v uint64, w int) int64 {
	if w >= 64 {
		return int64(v)
	}
	sh := uint(64 - w)
	return int64(v<<sh) >> sh
}

func (ts *TermStore) Cmp(op Op, a, b *Term) *Term {
	if a.W != b.W || a.W == 0 {
		panic("cmp width mismatch")
	}
	if a.IsConst() && b.IsConst() {
		var r bool
		switch op {
		case OpUlt:
			r = a.Val < b.Val
		case OpUle:
			r = a.Val <= b.Val
		case OpSlt:
			r = sext64(a.Val, a.W) < sext64(b.Val, b.W)
		case OpSle:
			r = sext64(a.Val, a.W) <= sext64(b.Val, b.W)
		}
		return ts.Bool(r)
	}
	if a == b {
		return ts.Bool(op == OpUle || op == OpSle)
	}
	if op == OpUlt && b.IsConst() && b.Val == 0 {
		return ts.Bool(false)
	}
	if op == OpUle && a.IsConst() && a.Val == 0 {
		return ts.Bool(true)
	}
	if op == OpUle && b.IsConst() && b.Val == mask(b.W) {
		return ts.Bool(true)
	}
	// zext(x) < const beyond range
	if (op == OpUlt || op == OpUle) && b.IsConst() && a.Op == OpZext && b.Val > mask(a.Args[0].W) {
		return ts.Bool(true)
	}
	if (op == OpSlt || op == OpSle) && a.Op == OpZext && b.IsConst() && sext64(b.Val, b.W) >= 0 && b.Val > mask(a.Args[0].W) {
		return ts.Bool(true)
	}
	if (op == OpSlt) && a.Op == OpZext && b.IsConst() && sext64(b.Val, b.W) <= 0 {
		return ts.Bool(false)
	}
	if (op == OpSle) && b.Op == OpZext && a.IsConst() && sext64(a.Val, a.W) <= 0 {
		return ts.Bool(true)
	}
	if (op == OpSlt) && b.Op == OpZext && a.IsConst() && sext64(a.Val, a.W) < 0 {
		return ts.Bool(true)
	}
	return ts.intern(&Term{Op: op, Args: []*Term{a, b}})
}

func (ts *TermStore) Bin(op Op, a, b *Term) *Term {
	if a.W != b.W || a.W == 0 {
		panic(fmt.Sprintf("bin width mismatch op=%d %d %d", op, a.W, b.W))
	}
	w := a.W
	m := mask(w)
	if a.IsConst() && b.IsConst() {
		x, y := a.Val, b.Val
		var r uint64
		switch op {
		case OpAdd:
			r = x + y
		case OpSub:
			r = x - y
		case OpMul:
			r = x * y
		case OpUdiv:
			if y == 0 {
				r = m
			} else {
				r = x / y
			}
		case OpUrem:
			if y == 0 {
				r = x
			} else {
				r = x % y
			}
		case OpSdiv:
			sx, sy := sext64(x, w), sext64(y, w)
			if sy == 0 {
				if sx < 0 {
					r = 1
				} else {
					r = m
				}
			} else if sy == -1 {
				r = uint64(-sx)
			} else {
				r = uint64(sx / sy)
			}
		case OpSrem:
			sx, sy := sext64(x, w), sext64(y, w)
			if sy == 0 {
				r = x
			} else if sy == -1 {
				r = 0
			} else {
				r = uint64(sx % sy)
			}
		case OpBvAnd:
			r = x & y
		case OpBvOr:
			r = x | y
		case OpBvXor:
			r = x ^ y
		case OpShl:
			if y >= uint64(w) {
				r = 0
			} else {
				r = x << y
			}
		case OpLshr:
			if y >= uint64(w) {
				r = 0
			} else {
				r = x >> y
			}
		case OpAshr:
			sx := sext64(x, w)
			if y >= uint64(w) {
				if sx < 0 {
					r = m
				} else {
					r = 0
				}
			} else {
				r = uint64(sx >> y)
			}
		default:
			panic("bad binop")
		}
		return ts.BV(w, r)
	}
	// identities
	switch op {
	case OpAdd:
		if a.IsConst() && a.Val == 0 {
			return b
		}
		if b.IsConst() && b.Val == 0 {
			return a
		}
		if a.IsConst() {
			a, b = b, a
		}
		// (x + c1) + c2
		if b.IsConst() && a.Op == OpAdd && a.Args[1].IsConst() {
			return ts.Bin(OpAdd, a.Args[0], ts.BV(w, a.Args[1].Val+b.Val))
		}
	case OpSub:
		if b.IsConst() && b.Val == 0 {
			return a
		}
		if a == b {
			return ts.BV(w, 0)
		}
		if b.IsConst() {
			return ts.Bin(OpAdd, a, ts.BV(w, -b.Val))
		}
	case OpMul:
		if a.IsConst() {
			a, b = b, a
		}
		if b.IsConst() {
			if b.Val == 0 {
				return b
			}
			if b.Val == 1 {
				return a
			}
			if bits.OnesCount64(b.Val) == 1 {
				return ts.Bin(OpShl, a, ts.BV(w, uint64(bits.TrailingZeros64(b.Val))))
			}
		}
	case OpUdiv:
		if b.IsConst() && b.Val == 1 {
			return a
		}
		if b.IsConst() && bits.OnesCount64(b.Val) == 1 {
			return ts.Bin(OpLshr, a, ts.BV(w, uint64(bits.TrailingZeros64(b.Val))))
		}
	case OpUrem:
		if b.IsConst() && b.Val == 1 {
			return ts.BV(w, 0)
		}
		if b.IsConst() && bits.OnesCount64(b.Val) == 1 {
			return ts.Bin(OpBvAnd, a, ts.BV(w, b.Val-1))
		}
	case OpBvAnd:
		if a.IsConst() {
			a, b = b, a
		}
		if b.IsConst() {
			if b.Val == 0 {
				return b
			}
			if b.Val == m {
				return a
			}
			// and(zext(x), c) where c covers x's width
			if a.Op == OpZext && b.Val&mask(a.Args[0].W) == mask(a.Args[0].W) {
				return a
			}
			// low-bit mask => zext(extract)
			if b.Val&(b.Val+1) == 0 { // 2^k-1
				k := bits.Len64(b.Val)
				if k < w {
					return ts.Zext(ts.Extract(a, k-1, 0), w-k)
				}
			}
		}
		if a == b {
			return a
		}
	case OpBvOr:
		if a.IsConst() {
			a, b = b, a
		}
		if b.IsConst() {
			if b.Val == 0 {
				return a
			}
			if b.Val == m {
				return b
			}
		}
		if a == b {
			return a
		}
		if r := ts.orDisjoint(a, b); r != nil {
			return r
		}
	case OpBvXor:
		if a.IsConst() {
			a, b = b, a
		}
		if b.IsConst() && b.Val == 0 {
			return a
		}
		if a == b {
			return ts.BV(w, 0)
		}
	case OpShl, OpLshr, OpAshr:
		if b.IsConst() && b.Val == 0 {
			return a
		}
		if a.IsConst() && a.Val == 0 {
			return a
		}
		if b.IsConst() && b.Val >= uint64(w) && op != OpAshr {
			return ts.BV(w, 0)
		}
		if b.IsConst() && op == OpLshr {
			k := int(b.Val)
			return ts.Zext(ts.Extract(a, w-1, k), k)
		}
		if b.IsConst() && op == OpShl {
			k := int(b.Val)
			return ts.Concat(ts.Extract(a, w-1-k, 0), ts.BV(k, 0))
		}
	}
	if (op == OpAdd || op == OpMul || op == OpBvAnd || op == OpBvOr || op == OpBvXor) && !b.IsConst() && a.ID > b.ID {
		a, b = b, a
	}
	return ts.intern(&Term{Op: op, W: w, Args: []*Term{a, b}})
}

// bitChunk is a slice of a term in MSB-to-LSB chunk decompositions; t == nil means zero bits.
type bitChunk struct {
	t *Term
	w int
}

// chunksOf decomposes concat / zero-extend / zero-constant structure (MSB first).
func (ts *TermStore) chunksOf(t *Term, out []bitChunk) []bitChunk {
	switch {
	case t.Op == OpConcat:
		out = ts.chunksOf(t.Args[0], out)
		return ts.chunksOf(t.Args[1], out)
	case t.Op == OpZext:
		out = append(out, bitChunk{nil, t.Hi})
		return ts.chunksOf(t.Args[0], out)
	case t.IsConst() && t.Val == 0:
		return append(out, bitChunk{nil, t.W})
	}
	return append(out, bitChunk{t, t.W})
}

// orDisjoint rewrites a|b into a concatenation when, chunk by chunk, at most one side is non-zero
// (the shape produced by big/little-endian byte assembly: zext(b0)<<24 | zext(b1)<<16 | ...).
func (ts *TermStore) orDisjoint(a, b *Term) *Term {
	ca := ts.chunksOf(a, nil)
	cb := ts.chunksOf(b, nil)
	if len(ca) == 1 && ca[0].t != nil && len(cb) == 1 && cb[0].t != nil {
		return nil
	}
	var res []bitChunk
	i, j := 0, 0
	for i < len(ca) && j < len(cb) {
		x, y := ca[i], cb[j]
		w := x.w
		if y.w < w {
			w = y.w
		}
		if x.t != nil && y.t != nil {
			return nil
		}
		var piece *Term
		src, sw := x.t, x.w
		if src == nil {
			src, sw = y.t, y.w
		}
		if src != nil {
			piece = ts.Extract(src, sw-1, sw-w)
		}
		res = append(res, bitChunk{piece, w})
		// consume
		if x.w == w {
			i++
		} else {
			var rest *Term
			if x.t != nil {
				rest = ts.Extract(x.t, x.w-w-1, 0)
			}
			ca[i] = bitChunk{rest, x.w - w}
		}
		if y.w == w {
			j++
		} else {
			var rest *Term
			if y.t != nil {
				rest = ts.Extract(y.t, y.w-w-1, 0)
			}
			cb[j] = bitChunk{rest, y.w - w}
		}
	}
	var out *Term
	for _, c := range res {
		p := c.t
		if p == nil {
			p = ts.BV(c.w, 0)
		}
		if out == nil {
			out = p
		} else {
			out = ts.Concat(out, p)
		}
	}
	return out
}

func (ts *TermStore) BvNot(a *Term) *Term {
	if a.IsConst() {
		return ts.BV(a.W, ^a.Val)
	}
	if a.Op == OpBvNot {
		return a.Args[0]
	}
	return ts.intern(&Term{Op: OpBvNot, W: a.W, Args: []*Term{a}})
}

func (ts *TermStore) Neg(a *Term) *Term {
	if a.IsConst() {
		return ts.BV(a.W, -a.Val)
	}
	return ts.intern(&Term{Op: OpNeg, W: a.W, Args: []*Term{a}})
}

func (ts *TermStore) Extract(a *Term, hi, lo int) *Term {
	if hi < lo || hi >= a.W || lo < 0 {
		panic(fmt.Sprintf("bad extract %d %d of %d", hi, lo, a.W))
	}
	if lo == 0 && hi == a.W-1 {
		return a
	}
	w := hi - lo + 1
	if a.IsConst() {
		return ts.BV(w, a.Val>>uint(lo))
	}
	switch a.Op {
	case OpExtract:
		return ts.Extract(a.Args[0], a.Lo+hi, a.Lo+lo)
	case OpZext:
		x := a.Args[0]
		if hi < x.W {
			return ts.Extract(x, hi, lo)
		}
		if lo >= x.W {
			return ts.BV(w, 0)
		}
		return ts.Zext(ts.Extract(x, x.W-1, lo), hi-x.W+1)
	case OpSext:
		x := a.Args[0]
		if hi < x.W {
			return ts.Extract(x, hi, lo)
		}
	case OpConcat:
		h, l := a.Args[0], a.Args[1]
		if hi < l.W {
			return ts.Extract(l, hi, lo)
		}
		if lo >= l.W {
			return ts.Extract(h, hi-l.W, lo-l.W)
		}
		return ts.Concat(ts.Extract(h, hi-l.W, 0), ts.Extract(l, l.W-1, lo))
	case OpBvAnd, OpBvOr, OpBvXor:
		return ts.Bin(a.Op, ts.Extract(a.Args[0], hi, lo), ts.Extract(a.Args[1], hi, lo))
	case OpBvNot:
		return ts.BvNot(ts.Extract(a.Args[0], hi, lo))
	case OpIte:
		if a.Args[1].IsConst() && a.Args[2].IsConst() {
			return ts.Ite(a.Args[0], ts.Extract(a.Args[1], hi, lo), ts.Extract(a.Args[2], hi, lo))
		}
	case OpAdd, OpSub, OpMul:
		if lo == 0 {
			return ts.Bin(a.Op, ts.Extract(a.Args[0], hi, 0), ts.Extract(a.Args[1], hi, 0))
		}
	}
	return ts.intern(&Term{Op: OpExtract, W: w, Args: []*Term{a}, Hi: hi, Lo: lo})
}

func (ts *TermStore) Concat(hi, lo *Term) *Term {
	w := hi.W + lo.W
	if w > 64 {
		panic("concat too wide")
	}
	if hi.IsConst() && lo.IsConst() {
		return ts.BV(w, hi.Val<<uint(lo.W)|lo.Val)
	}
	if hi.IsConst() && hi.Val == 0 {
		return ts.Zext(lo, hi.W)
	}
	// concat(extract(x,h,m+1), extract(x,m,l)) = extract(x,h,l)
	if hi.Op == OpExtract && lo.Op == OpExtract && hi.Args[0] == lo.Args[0] && hi.Lo == lo.Hi+1 {
		return ts.Extract(hi.Args[0], hi.Hi, lo.Lo)
	}
	if lo.Op == OpExtract && hi.Op == OpExtract && false {
		return nil
	}
	return ts.intern(&Term{Op: OpConcat, W: w, Args: []*Term{hi, lo}})
}

func (ts *TermStore) Zext(a *Term, extra int) *Term {
	if extra == 0 {
		return a
	}
	if a.IsConst() {
		return ts.BV(a.W+extra, a.Val)
	}
	if a.Op == OpZext {
		return ts.Zext(a.Args[0], a.Hi+extra)
	}
	return ts.intern(&Term{Op: OpZext, W: a.W + extra, Args: []*Term{a}, Hi: extra})
}

func (ts *TermStore) Sext(a *Term, extra int) *Term {
	if extra == 0 {
		return a
	}
	if a.IsConst() {
		return ts.BV(a.W+extra, uint64(sext64(a.Val, a.W)))
	}
	if a.Op == OpZext {
		return ts.Zext(a.Args[0], a.Hi+extra)
	}
	return ts.intern(&Term{Op: OpSext, W: a.W + extra, Args: []*Term{a}, Hi: extra})
}

// Resize converts a bit-vector to width w, sign- or zero-extending.
func (ts *TermStore) Resize(a *Term, w int, signed bool) *Term {
	switch {
	case a.W == w:
		return a
	case a.W > w:
		return ts.Extract(a, w-1, 0)
	case signed:
		return ts.Sext(a, w-a.W)
	default:
		return ts.Zext(a, w-a.W)
	}
}

// BoolToBV converts Bool to a 1/0 bit-vector of width w.
func (ts *TermStore) BoolToBV(b *Term, w int) *Term {
	return ts.Ite(b, ts.BV(w, 1), ts.BV(w, 0))
}

// ---------------------------------------------------------------- printing

// smtPrinter emits define-funs for shared sub-terms into a solver session.
type smtPrinter struct {
	defined map[int]bool
	out     *strings.Builder
	lemmas  []string // valid bit-vector facts about freshly defined terms (help the solver, never change satisfiability)
}

func constStr(t *Term) string {
	if t.W == 0 {
		if t.Val == 1 {
			return "true"
		}
		return "false"
	}
	if t.W%4 == 0 {
		return fmt.Sprintf("#x%0*x", t.W/4, t.Val)
	}
	return fmt.Sprintf("#b%0*b", t.W, t.Val)
}

func (p *smtPrinter) ref(t *Term) string {
	switch t.Op {
	case OpConst:
		return constStr(t)
	case OpVar:
		return t.Name
	}
	return fmt.Sprintf("t!%d", t.ID)
}

// define makes sure t (and all sub-terms) are defined in the solver; returns its reference.
func (p *smtPrinter) define(t *Term) string {
	if t.Op == OpConst || t.Op == OpVar {
		return p.ref(t)
	}
	if p.defined[t.ID] {
		return p.ref(t)
	}
	// iterative post-order to avoid deep recursion
	type fr struct {
		t *Term
		i int
	}
	stack := []fr{{t, 0}}
	for len(stack) > 0 {
		f := &stack[len(stack)-1]
		if f.i < len(f.t.Args) {
			a := f.t.Args[f.i]
			f.i++
			if a.Op != OpConst && a.Op != OpVar && !p.defined[a.ID] {
				stack = append(stack, fr{a, 0})
			}
			continue
		}
		cur := f.t
		stack = stack[:len(stack)-1]
		if p.defined[cur.ID] {
			continue
		}
		p.defined[cur.ID] = true
		fmt.Fprintf(p.out, "(define-fun t!%d () %s ", cur.ID, sortStr(cur.W))
		switch cur.Op {
		case OpExtract:
			fmt.Fprintf(p.out, "((_ extract %d %d) %s)", cur.Hi, cur.Lo, p.ref(cur.Args[0]))
		case OpZext:
			fmt.Fprintf(p.out, "((_ zero_extend %d) %s)", cur.Hi, p.ref(cur.Args[0]))
		case OpSext:
			fmt.Fprintf(p.out, "((_ sign_extend %d) %s)", cur.Hi, p.ref(cur.Args[0]))
		case OpApp:
			if len(cur.Args) == 0 {
				p.out.WriteString(cur.Name)
			} else {
				fmt.Fprintf(p.out, "(%s", cur.Name)
				for _, a := range cur.Args {
					p.out.WriteByte(' ')
					p.out.WriteString(p.ref(a))
				}
				p.out.WriteByte(')')
			}
		default:
			fmt.Fprintf(p.out, "(%s", opNames[cur.Op])
			for _, a := range cur.Args {
				p.out.WriteByte(' ')
				p.out.WriteString(p.ref(a))
			}
			p.out.WriteByte(')')
		}
		p.out.WriteString(")\n")
		switch cur.Op {
		case OpUrem:
			// y != 0  =>  x urem y < y ; always x urem y <= x
			x, y := p.ref(cur.Args[0]), p.ref(cur.Args[1])
			p.lemmas = append(p.lemmas, fmt.Sprintf("(assert (or (= %s %s) (bvult t!%d %s)))\n(assert (bvule t!%d %s))\n",
				y, constStr(&Term{Op: OpConst, W: cur.W, Val: 0}), cur.ID, y, cur.ID, x))
		case OpUdiv:
			// y != 0  =>  x udiv y <= x
			x, y := p.ref(cur.Args[0]), p.ref(cur.Args[1])
			p.lemmas = append(p.lemmas, fmt.Sprintf("(assert (or (= %s %s) (bvule t!%d %s)))\n",
				y, constStr(&Term{Op: OpConst, W: cur.W, Val: 0}), cur.ID, x))
		}
	}
	return p.ref(t)
}

// Eval evaluates a term under a model (variable name -> value). Uninterpreted functions
// are looked up in funs (keyed by name + args).
func (ts *TermStore) Eval(t *Term, model map[string]uint64, memo map[int]uint64) uint64 {
	if v, ok := memo[t.ID]; ok {
		return v
	}
	var r uint64
	switch t.Op {
	case OpConst:
		r = t.Val
	case OpVar:
		r = model[t.Name] & maskOrBool(t.W)
	default:
		av := make([]*Term, len(t.Args))
		for i, a := range t.Args {
			v := ts.Eval(a, model, memo)
			if a.W == 0 {
				av[i] = ts.Bool(v == 1)
			} else {
				av[i] = ts.BV(a.W, v)
			}
		}
		var c *Term
		switch t.Op {
		case OpNot:
			c = ts.Not(av[0])
		case OpAnd:
			c = ts.And(av[0], av[1])
		case OpOr:
			c = ts.Or(av[0], av[1])
		case OpIte:
			c = ts.Ite(av[0], av[1], av[2])
		case OpEq:
			c = ts.Eq(av[0], av[1])
		case OpUlt, OpUle, OpSlt, OpSle:
			c = ts.Cmp(t.Op, av[0], av[1])
		case OpBvNot:
			c = ts.BvNot(av[0])
		case OpNeg:
			c = ts.Neg(av[0])
		case OpExtract:
			c = ts.Extract(av[0], t.Hi, t.Lo)
		case OpZext:
			c = ts.Zext(av[0], t.Hi)
		case OpSext:
			c = ts.Sext(av[0], t.Hi)
		case OpConcat:
			c = ts.Concat(av[0], av[1])
		case OpApp:
			key := t.Name
			for _, a := range av {
				key += fmt.Sprintf(",%d", a.Val)
			}
			r = model["app:"+key]
			memo[t.ID] = r
			return r
		default:
			c = ts.Bin(t.Op, av[0], av[1])
		}
		if !c.IsConst() {
			panic("eval: non-constant result")
		}
		r = c.Val
	}
	memo[t.ID] = r
	return r
}

func maskOrBool(w int) uint64 {
	if w == 0 {
		return 1
	}
	return mask(w)
}
