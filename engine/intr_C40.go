package main

import (
	"encoding/json"
	"fmt"
	"go/types"
	"reflect"
	"sort"
)

// Models needed by the C40 (message event projection) harness; the Marshal model has one special case for C18.
//
// encoding/json.Unmarshal / Marshal are reflection based and cannot be executed from source. The reducer
// under test calls them directly on the event payload (no seam), into / from small anonymous structs of
// string, integer, bool and json.RawMessage fields. The model is EXACT for concrete operands: the engine
// mirrors the go/types struct (field names and tags) with reflect.StructOf, runs the real encoding/json
// on the concrete bytes and copies the result back. Symbolic bytes / field values are refused
// (unsupported), so a harness has to choose payloads from concrete literals.
func init() {
	extraIntrinsics = append(extraIntrinsics, func(p *Program) {
		rawMessage := reflect.TypeOf(json.RawMessage{})

		// fieldType maps a supported go/types field type to its reflect twin.
		fieldType := func(e *Exec, t types.Type) reflect.Type {
			if n, ok := t.(*types.Named); ok && n.Obj().Pkg() != nil && n.Obj().Pkg().Path() == "encoding/json" && n.Obj().Name() == "RawMessage" {
				return rawMessage
			}
			switch u := t.Underlying().(type) {
			case *types.Basic:
				switch u.Kind() {
				case types.String:
					return reflect.TypeOf("")
				case types.Bool:
					return reflect.TypeOf(false)
				case types.Uint8:
					return reflect.TypeOf(uint8(0))
				case types.Uint16:
					return reflect.TypeOf(uint16(0))
				case types.Uint32:
					return reflect.TypeOf(uint32(0))
				case types.Uint64:
					return reflect.TypeOf(uint64(0))
				case types.Int8:
					return reflect.TypeOf(int8(0))
				case types.Int16:
					return reflect.TypeOf(int16(0))
				case types.Int32:
					return reflect.TypeOf(int32(0))
				case types.Int64:
					return reflect.TypeOf(int64(0))
				case types.Int:
					return reflect.TypeOf(int(0))
				}
			case *types.Slice:
				if b, ok := u.Elem().Underlying().(*types.Basic); ok && b.Kind() == types.Uint8 {
					return reflect.TypeOf([]byte(nil))
				}
			}
			e.unsupported(fmt.Sprintf("encoding/json model: unsupported field type %s", t))
			return nil
		}
		structType := func(e *Exec, st *types.Struct) reflect.Type {
			fs := make([]reflect.StructField, st.NumFields())
			for i := range fs {
				f := st.Field(i)
				if !f.Exported() || f.Embedded() {
					e.unsupported("encoding/json model: unexported or embedded field " + f.Name())
				}
				fs[i] = reflect.StructField{Name: f.Name(), Type: fieldType(e, f.Type()), Tag: reflect.StructTag(st.Tag(i))}
			}
			return reflect.StructOf(fs)
		}
		concreteBytes := func(e *Exec, s Slice, what string) []byte {
			if s.arr == nil {
				return nil
			}
			out := make([]byte, s.len)
			for i, t := range e.byteSliceTerms(s) {
				if !t.IsConst() {
					e.unsupported("encoding/json model: symbolic " + what)
				}
				out[i] = byte(t.Val)
			}
			return out
		}
		// toReflect stores the concrete engine value v into the reflect field rv.
		toReflect := func(e *Exec, rv reflect.Value, v Value) {
			switch rv.Kind() {
			case reflect.String:
				s, ok := v.(*Str)
				if !ok {
					e.unsupported("encoding/json model: string field holds a non-string")
				}
				cs, ok := s.Concrete()
				if !ok {
					e.unsupported("encoding/json model: symbolic string field")
				}
				rv.SetString(cs)
			case reflect.Bool:
				t := v.(*Term)
				if !t.IsConst() {
					e.unsupported("encoding/json model: symbolic bool field")
				}
				rv.SetBool(t.Val != 0)
			case reflect.Slice:
				b := concreteBytes(e, v.(Slice), "byte slice field")
				if b != nil {
					rv.SetBytes(b)
				}
			case reflect.Uint8, reflect.Uint16, reflect.Uint32, reflect.Uint64:
				t := v.(*Term)
				if !t.IsConst() {
					e.unsupported("encoding/json model: symbolic integer field")
				}
				rv.SetUint(t.Val)
			default:
				t := v.(*Term)
				if !t.IsConst() {
					e.unsupported("encoding/json model: symbolic integer field")
				}
				sh := uint(64 - t.W)
				rv.SetInt(int64(t.Val<<sh) >> sh)
			}
		}
		fromReflect := func(e *Exec, rv reflect.Value) Value {
			switch rv.Kind() {
			case reflect.String:
				return &Str{s: rv.String()}
			case reflect.Bool:
				return e.ts.Bool(rv.Bool())
			case reflect.Slice:
				if rv.IsNil() {
					return Slice{}
				}
				b := rv.Bytes()
				ts := make([]*Term, len(b))
				for i, c := range b {
					ts[i] = e.ts.BV(8, uint64(c))
				}
				return e.newByteSlice(ts)
			case reflect.Uint8, reflect.Uint16, reflect.Uint32, reflect.Uint64:
				return e.ts.BV(rv.Type().Bits(), rv.Uint())
			default:
				return e.ts.BV(rv.Type().Bits(), uint64(rv.Int()))
			}
		}

		p.intrinsics["encoding/json.Unmarshal"] = func(e *Exec, fr *frame, args []Value) Value {
			data := concreteBytes(e, args[0].(Slice), "input bytes")
			target, ok := args[1].(Iface)
			if !ok || target.t == nil {
				e.unsupported("encoding/json.Unmarshal model: nil target")
			}
			pt, ok := target.t.Underlying().(*types.Pointer)
			if !ok {
				e.unsupported(fmt.Sprintf("encoding/json.Unmarshal model: target %s is not a pointer", target.t))
			}
			if mt, ok := pt.Elem().Underlying().(*types.Map); ok {
				// map[string]json.RawMessage (exact, concrete operands only)
				if fieldType(e, mt.Elem()) != rawMessage || fieldType(e, mt.Key()).Kind() != reflect.String {
					e.unsupported(fmt.Sprintf("encoding/json.Unmarshal model: map target %s", target.t))
				}
				ptr := target.v.(Pointer)
				m, _ := e.load(ptr).(*MapObj)
				gm := map[string]json.RawMessage{}
				if m != nil {
					for _, en := range m.entries {
						k, ok := en.key.(*Str).Concrete()
						if !ok {
							e.unsupported("encoding/json model: symbolic map key")
						}
						gm[k] = concreteBytes(e, en.val.(Slice), "map value")
					}
				}
				wasNil := m == nil
				err := json.Unmarshal(data, &gm)
				if err != nil {
					return e.newOpaqueErr("<json.Unmarshal: "+err.Error()+">", nil)
				}
				if wasNil {
					e.unsupported("encoding/json.Unmarshal model: nil map target")
				}
				keys := make([]string, 0, len(gm))
				for k := range gm {
					keys = append(keys, k)
				}
				sort.Strings(keys)
				for _, k := range keys {
					var val Value = Slice{}
					if gm[k] != nil {
						ts := make([]*Term, len(gm[k]))
						for i, c := range gm[k] {
							ts[i] = e.ts.BV(8, uint64(c))
						}
						val = e.newByteSlice(ts)
					}
					e.mapUpdate(m, &Str{s: k}, val)
				}
				return Iface{}
			}
			st, ok := pt.Elem().Underlying().(*types.Struct)
			if !ok {
				e.unsupported(fmt.Sprintf("encoding/json.Unmarshal model: target %s is not a pointer to struct", target.t))
			}
			ptr := target.v.(Pointer)
			if ptr.loc == nil || len(ptr.loc.kids) != st.NumFields() {
				e.unsupported("encoding/json.Unmarshal model: unexpected target layout")
			}
			rt := structType(e, st)
			rp := reflect.New(rt)
			for i, k := range ptr.loc.kids {
				toReflect(e, rp.Elem().Field(i), e.loadLoc(k))
			}
			err := json.Unmarshal(data, rp.Interface())
			for i, k := range ptr.loc.kids {
				e.storeLoc(k, fromReflect(e, rp.Elem().Field(i)))
			}
			if err != nil {
				return e.newOpaqueErr("<json.Unmarshal: "+err.Error()+">", nil)
			}
			return Iface{}
		}

		p.intrinsics["encoding/json.Valid"] = func(e *Exec, fr *frame, args []Value) Value {
			return e.ts.Bool(json.Valid(concreteBytes(e, args[0].(Slice), "input bytes")))
		}

		p.intrinsics["encoding/json.Marshal"] = func(e *Exec, fr *frame, args []Value) Value {
			src, ok := args[0].(Iface)
			if !ok || src.t == nil {
				e.unsupported("encoding/json.Marshal model: nil value")
			}
			// C18: pkg/controller/state.Checksum marshals the 14-field nested checksum view of the cluster
			// state only to feed crc32 + fmt.Sprintf (itself an opaque constant in this executor). For exactly
			// that type the model is ABSTRACT: four unconstrained bytes, never an error (the real call can only
			// fail for a timestamp outside year 0..9999). No other type gets this treatment.
			if src.t.String() == "github.com/WuKongIM/WuKongIM/pkg/controller/state.checksumClusterState" {
				bs := make([]*Term, 4)
				for i := range bs {
					bs[i] = e.newInput(fmt.Sprintf("json.Marshal(checksumClusterState)[%d]", i), 8)
				}
				return Tuple{e.newByteSlice(bs), Iface{}}
			}
			emit := func(out []byte, err error) Value {
				if err != nil {
					return Tuple{Slice{}, e.newOpaqueErr("<json.Marshal: "+err.Error()+">", nil)}
				}
				ts := make([]*Term, len(out))
				for i, c := range out {
					ts[i] = e.ts.BV(8, uint64(c))
				}
				return Tuple{e.newByteSlice(ts), Iface{}}
			}
			if b, ok := src.t.Underlying().(*types.Basic); ok && b.Kind() == types.String {
				cs, ok := src.v.(*Str).Concrete()
				if !ok {
					e.unsupported("encoding/json.Marshal model: symbolic string")
				}
				return emit(json.Marshal(cs))
			}
			if mt, ok := src.t.Underlying().(*types.Map); ok {
				if fieldType(e, mt.Elem()) != rawMessage || fieldType(e, mt.Key()).Kind() != reflect.String {
					e.unsupported(fmt.Sprintf("encoding/json.Marshal model: map value %s", src.t))
				}
				m, _ := src.v.(*MapObj)
				if m == nil {
					return emit(json.Marshal(map[string]json.RawMessage(nil)))
				}
				gm := map[string]json.RawMessage{}
				for _, en := range m.entries {
					k, ok := en.key.(*Str).Concrete()
					if !ok {
						e.unsupported("encoding/json model: symbolic map key")
					}
					gm[k] = concreteBytes(e, en.val.(Slice), "map value")
				}
				return emit(json.Marshal(gm))
			}
			st, ok := src.t.Underlying().(*types.Struct)
			if !ok {
				e.unsupported(fmt.Sprintf("encoding/json.Marshal model: value %s is not a struct", src.t))
			}
			sv, ok := src.v.(Struct)
			if !ok || len(sv) != st.NumFields() {
				e.unsupported("encoding/json.Marshal model: unexpected value layout")
			}
			rt := structType(e, st)
			rp := reflect.New(rt)
			for i := range sv {
				toReflect(e, rp.Elem().Field(i), sv[i])
			}
			out, err := json.Marshal(rp.Elem().Interface())
			if err != nil {
				return Tuple{Slice{}, e.newOpaqueErr("<json.Marshal: "+err.Error()+">", nil)}
			}
			ts := make([]*Term, len(out))
			for i, c := range out {
				ts[i] = e.ts.BV(8, uint64(c))
			}
			return Tuple{e.newByteSlice(ts), Iface{}}
		}
	})
}
