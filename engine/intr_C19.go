package main

// Crash-model file system for the C19 (controller state file) harness. Registered for C19 only.
//
// pkg/controller/statefile calls the os package directly (no file-system seam), so the os functions
// it uses are modelled here against a small file system with separate volatile and durable state:
//
//	inode:      vol (what a reader sees), dur (content as of the last successful fsync), dirty
//	directory:  vol entries (name -> inode), dur entries, pending = directory operations (create,
//	            rename, remove) not yet made durable by an fsync of the directory, in order
//
// (*File).Write changes vol only; (*File).Sync makes the file content durable; os.Rename is atomic
// on the volatile directory and pending until the directory is fsynced (POSIX rename atomicity is
// the trusted assumption); fsync of a directory handle makes all pending entries durable.
// A crash point k freezes the file system before the k-th operation (a crash at a Write may leave
// any prefix of the data written); everything the code does afterwards has no effect. Recovery:
// process kill keeps the volatile view; power loss keeps the durable directory plus any PREFIX of
// the pending directory operations (ordered metadata journal) and, per file, the durable content,
// or -- if it has unsynced writes -- the volatile content or any prefix of it.
// With error injection every operation may instead fail without effect (a failed Write may have
// written a prefix). All nondeterminism of the model is explored by forking (Exec.choose).
//
// The harness drives and inspects the model through helper functions declared in the harness file
// (bodies panic("symbolic"); intrinsics below). Such runs cannot be replayed natively (the real os
// package would hit the real disk and cannot crash half-way), so the model creates one input named
// env.fs: counterexamples are reported without native replay and self-test samples are skipped, the
// engine's treatment of environment-driven paths.

import (
	"fmt"
	"path/filepath"
	"strings"
	"sync"
	"weak"
)

type c19Inode struct {
	vol, dur []*Term
	dirty    bool
}

type c19DirOp struct {
	kind int // 0 create a->ino, 1 rename a->b, 2 remove a
	a, b string
	ino  *c19Inode
}

type c19Handle struct {
	path string
	ino  *c19Inode
	dir  bool
}

type c19FS struct {
	vol, dur  map[string]*c19Inode
	pending   []c19DirOp
	handles   map[*Loc]*c19Handle
	nops      int
	crashAt   int
	inject    bool
	crashed   bool
	encoded   []*Term
	encFail   bool
	decoded   []*Term
	reads     []string
	ntmp      int
	oplog     []string
	recovered bool
}

var c19 struct {
	mu     sync.Mutex
	states map[weak.Pointer[Exec]]*c19FS
	n      int
}

func c19Of(e *Exec) *c19FS {
	wp := weak.Make(e)
	c19.mu.Lock()
	defer c19.mu.Unlock()
	c19.n++
	if c19.n%1024 == 0 {
		for k := range c19.states {
			if k.Value() == nil {
				delete(c19.states, k)
			}
		}
	}
	st := c19.states[wp]
	if st == nil {
		st = &c19FS{vol: map[string]*c19Inode{}, dur: map[string]*c19Inode{}, handles: map[*Loc]*c19Handle{}, crashAt: -1}
		c19.states[wp] = st
	}
	return st
}

func c19Apply(dir map[string]*c19Inode, op c19DirOp) {
	switch op.kind {
	case 0:
		dir[op.a] = op.ino
	case 1:
		if ino, ok := dir[op.a]; ok {
			dir[op.b] = ino
			delete(dir, op.a)
		}
	case 2:
		delete(dir, op.a)
	}
}

func (st *c19FS) dirOp(op c19DirOp) {
	c19Apply(st.vol, op)
	st.pending = append(st.pending, op)
}

// begin starts one file-system operation: active=false when the file system is frozen by the crash
// (the operation then has no effect), fail=true when error injection makes it fail.
func (st *c19FS) begin(e *Exec, what string) (active, fail bool) {
	if e.spec > 0 {
		e.abortSpec("file system operation")
	}
	if st.crashed {
		return false, false
	}
	if st.nops == st.crashAt {
		st.crashed = true
		return false, false
	}
	st.nops++
	st.oplog = append(st.oplog, what)
	if st.inject && e.choose(2) == 1 {
		st.oplog = append(st.oplog, "  failed")
		return true, true
	}
	return true, false
}

func (st *c19FS) write(e *Exec, ino *c19Inode, data []*Term, what string) (n int, failed bool) {
	if e.spec > 0 {
		e.abortSpec("file system operation")
	}
	if st.crashed || ino == nil {
		return len(data), false
	}
	if st.nops == st.crashAt {
		// crash during the write: any prefix may have been written
		m := e.choose(len(data) + 1)
		ino.vol = append(append([]*Term{}, ino.vol...), data[:m]...)
		ino.dirty = ino.dirty || m > 0
		st.crashed = true
		return len(data), false
	}
	st.nops++
	st.oplog = append(st.oplog, what)
	if st.inject && e.choose(2) == 1 {
		m := e.choose(len(data) + 1)
		ino.vol = append(append([]*Term{}, ino.vol...), data[:m]...)
		ino.dirty = ino.dirty || m > 0
		return m, true
	}
	ino.vol = append(append([]*Term{}, ino.vol...), data...)
	ino.dirty = ino.dirty || len(data) > 0
	return len(data), false
}

func c19Bool(e *Exec, v Value) bool {
	return e.concretize(v.(*Term), "c19 flag") != 0
}

func c19Bytes(e *Exec, v Value) []*Term {
	s := v.(Slice)
	if s.len == 0 {
		return nil
	}
	return e.byteSliceTerms(s)
}

func init() {
	c19.states = map[weak.Pointer[Exec]]*c19FS{}
	extraIntrinsics = append(extraIntrinsics, func(p *Program) {
		if p.check == nil || p.check.Property != "C19" {
			return
		}
		I := p.intrinsics
		ioErr := func(e *Exec, msg string) Value { return e.newOpaqueErr("c19 fs: "+msg, nil) }
		newFile := func(e *Exec, h *c19Handle) Value {
			op := e.prog.ssaProg.ImportedPackage("os")
			if op == nil || op.Type("File") == nil {
				e.unsupported("os.File type not loaded")
			}
			l := e.newLoc(op.Type("File").Type())
			c19Of(e).handles[l] = h
			return Pointer{loc: l}
		}
		handle := func(e *Exec, v Value) *c19Handle {
			ptr, ok := v.(Pointer)
			if !ok || ptr.loc == nil {
				e.goPanicStr("runtime error: invalid memory address or nil pointer dereference (nil *os.File)")
			}
			h := c19Of(e).handles[ptr.loc]
			if h == nil {
				e.unsupported("*os.File not created by the C19 file-system model")
			}
			return h
		}
		I["path/filepath.Dir"] = func(e *Exec, fr *frame, args []Value) Value {
			return &Str{s: filepath.Dir(e.strArg(args[0]))}
		}
		I["path/filepath.Base"] = func(e *Exec, fr *frame, args []Value) Value {
			return &Str{s: filepath.Base(e.strArg(args[0]))}
		}
		I["os.CreateTemp"] = func(e *Exec, fr *frame, args []Value) Value {
			st := c19Of(e)
			dir, pat := e.strArg(args[0]), e.strArg(args[1])
			prefix, suffix := pat, ""
			if i := strings.LastIndex(pat, "*"); i >= 0 {
				prefix, suffix = pat[:i], pat[i+1:]
			}
			st.ntmp++
			name := filepath.Join(dir, fmt.Sprintf("%s%09d%s", prefix, 424242000+st.ntmp, suffix))
			active, fail := st.begin(e, "createtemp "+name)
			if fail {
				return Tuple{Pointer{}, ioErr(e, "create temp")}
			}
			h := &c19Handle{path: name}
			if active {
				if _, exists := st.vol[name]; exists {
					e.unsupported("c19 fs: temp name collision")
				}
				h.ino = &c19Inode{}
				st.dirOp(c19DirOp{kind: 0, a: name, ino: h.ino})
			}
			return Tuple{newFile(e, h), Iface{}}
		}
		I["(*os.File).Name"] = func(e *Exec, fr *frame, args []Value) Value {
			return &Str{s: handle(e, args[0]).path}
		}
		I["(*os.File).Write"] = func(e *Exec, fr *frame, args []Value) Value {
			st := c19Of(e)
			h := handle(e, args[0])
			n, failed := st.write(e, h.ino, c19Bytes(e, args[1]), "write "+h.path)
			if failed {
				return Tuple{e.ts.BV(64, uint64(n)), ioErr(e, "write")}
			}
			return Tuple{e.ts.BV(64, uint64(n)), Iface{}}
		}
		I["(*os.File).Sync"] = func(e *Exec, fr *frame, args []Value) Value {
			st := c19Of(e)
			h := handle(e, args[0])
			active, fail := st.begin(e, "fsync "+h.path)
			if fail {
				return ioErr(e, "fsync")
			}
			if active {
				if h.dir {
					for _, op := range st.pending {
						c19Apply(st.dur, op)
					}
					st.pending = nil
				} else if h.ino != nil {
					h.ino.dur = append([]*Term{}, h.ino.vol...)
					h.ino.dirty = false
				}
			}
			return Iface{}
		}
		I["(*os.File).Close"] = func(e *Exec, fr *frame, args []Value) Value {
			st := c19Of(e)
			h := handle(e, args[0])
			if _, fail := st.begin(e, "close "+h.path); fail {
				return ioErr(e, "close")
			}
			return Iface{}
		}
		I["os.Remove"] = func(e *Exec, fr *frame, args []Value) Value {
			st := c19Of(e)
			name := e.strArg(args[0])
			active, fail := st.begin(e, "remove "+name)
			if fail {
				return ioErr(e, "remove")
			}
			if active {
				if _, ok := st.vol[name]; !ok {
					return ioErr(e, "remove: no such file")
				}
				st.dirOp(c19DirOp{kind: 2, a: name})
			}
			return Iface{}
		}
		I["os.Rename"] = func(e *Exec, fr *frame, args []Value) Value {
			st := c19Of(e)
			from, to := e.strArg(args[0]), e.strArg(args[1])
			active, fail := st.begin(e, "rename "+from+" -> "+to)
			if fail {
				return ioErr(e, "rename")
			}
			if active {
				if _, ok := st.vol[from]; !ok {
					return ioErr(e, "rename: no such file")
				}
				st.dirOp(c19DirOp{kind: 1, a: from, b: to})
			}
			return Iface{}
		}
		I["os.Open"] = func(e *Exec, fr *frame, args []Value) Value {
			st := c19Of(e)
			name := e.strArg(args[0])
			_, fail := st.begin(e, "open "+name)
			if fail {
				return Tuple{Pointer{}, ioErr(e, "open")}
			}
			h := &c19Handle{path: name, ino: st.vol[name]}
			if h.ino == nil {
				h.dir = true // the model has one directory level: anything that is not a file is a directory
			} else {
				st.reads = append(st.reads, name)
			}
			return Tuple{newFile(e, h), Iface{}}
		}
		I["os.WriteFile"] = func(e *Exec, fr *frame, args []Value) Value {
			// open(O_CREATE|O_TRUNC) + write + close: not atomic, nothing fsynced
			st := c19Of(e)
			name := e.strArg(args[0])
			active, fail := st.begin(e, "open-truncate "+name)
			if fail {
				return ioErr(e, "open for writing")
			}
			var ino *c19Inode
			if active {
				ino = st.vol[name]
				if ino == nil {
					ino = &c19Inode{}
					st.dirOp(c19DirOp{kind: 0, a: name, ino: ino})
				} else if len(ino.vol) > 0 {
					ino.vol = nil
					ino.dirty = true
				}
			}
			if _, failed := st.write(e, ino, c19Bytes(e, args[1]), "write "+name); failed {
				return ioErr(e, "write")
			}
			return Iface{}
		}
		I["os.ReadFile"] = func(e *Exec, fr *frame, args []Value) Value {
			st := c19Of(e)
			name := e.strArg(args[0])
			st.reads = append(st.reads, name)
			ino := st.vol[name]
			if ino == nil {
				return Tuple{Slice{}, ioErr(e, "read: no such file")}
			}
			return Tuple{e.newByteSlice(ino.vol), Iface{}}
		}
		sp := repoMod + "/pkg/controller/state."
		I[sp+"Encode"] = func(e *Exec, fr *frame, args []Value) Value {
			st := c19Of(e)
			if st.encFail {
				return Tuple{Slice{}, e.newOpaqueErr("state: encode failed", nil)}
			}
			return Tuple{e.newByteSlice(st.encoded), Iface{}}
		}
		I[sp+"Decode"] = func(e *Exec, fr *frame, args []Value) Value {
			st := c19Of(e)
			st.decoded = c19Bytes(e, args[0])
			pkg := e.prog.ssaProg.ImportedPackage(repoMod + "/pkg/controller/state")
			if pkg == nil || pkg.Type("ClusterState") == nil {
				e.unsupported("state.ClusterState type not loaded")
			}
			return Tuple{e.zero(pkg.Type("ClusterState").Type()), Iface{}}
		}

		// ---- harness-visible helpers
		hp := repoMod + "/pkg/controller/statefile."
		I[hp+"c19Reset"] = func(e *Exec, fr *frame, args []Value) Value {
			st := c19Of(e)
			e.newInput("env.fs", 8) // marks the path as environment-driven (not natively replayable)
			*st = c19FS{vol: map[string]*c19Inode{}, dur: map[string]*c19Inode{}, handles: map[*Loc]*c19Handle{}, crashAt: -1}
			if c19Bool(e, args[1]) {
				old := c19Bytes(e, args[2])
				ino := &c19Inode{vol: old, dur: old}
				st.vol[e.strArg(args[0])] = ino
				st.dur[e.strArg(args[0])] = ino
			}
			return nil
		}
		I[hp+"c19SetEncoded"] = func(e *Exec, fr *frame, args []Value) Value {
			st := c19Of(e)
			st.encoded = c19Bytes(e, args[0])
			st.encFail = c19Bool(e, args[1])
			return nil
		}
		I[hp+"c19Arm"] = func(e *Exec, fr *frame, args []Value) Value {
			st := c19Of(e)
			st.crashAt = int(int64(e.concretize(args[0].(*Term), "c19 crash point")))
			st.inject = c19Bool(e, args[1])
			return nil
		}
		I[hp+"c19Crashed"] = func(e *Exec, fr *frame, args []Value) Value {
			return e.ts.Bool(c19Of(e).crashed)
		}
		I[hp+"c19Ops"] = func(e *Exec, fr *frame, args []Value) Value {
			return e.ts.BV(64, uint64(c19Of(e).nops))
		}
		I[hp+"c19Recover"] = func(e *Exec, fr *frame, args []Value) Value {
			st := c19Of(e)
			power := c19Bool(e, args[0])
			if st.recovered {
				e.unsupported("c19Recover called twice")
			}
			st.recovered = true
			st.crashed, st.crashAt, st.inject = false, -1, false
			st.handles = map[*Loc]*c19Handle{}
			if !power {
				return nil
			}
			dir := map[string]*c19Inode{}
			for k, v := range st.dur {
				dir[k] = v
			}
			j := e.choose(len(st.pending) + 1)
			for _, op := range st.pending[:j] {
				c19Apply(dir, op)
			}
			st.pending = nil
			// content of every surviving file, in a fixed (sorted) order
			names := make([]string, 0, len(dir))
			for k := range dir {
				names = append(names, k)
			}
			sortStrings(names)
			done := map[*c19Inode]bool{}
			for _, k := range names {
				ino := dir[k]
				if done[ino] {
					continue
				}
				done[ino] = true
				if ino.dirty {
					// 0: nothing flushed; 1: everything flushed; 2+m: the first m bytes flushed (m < len)
					switch c := e.choose(2 + len(ino.vol)); {
					case c == 0:
						ino.vol = ino.dur
					case c == 1:
					default:
						ino.vol = append([]*Term{}, ino.vol[:c-2]...)
					}
				}
				ino.dur, ino.dirty = ino.vol, false
			}
			st.vol = dir
			st.dur = map[string]*c19Inode{}
			for k, v := range dir {
				st.dur[k] = v
			}
			return nil
		}
		I[hp+"c19Read"] = func(e *Exec, fr *frame, args []Value) Value {
			ino := c19Of(e).vol[e.strArg(args[0])]
			if ino == nil {
				return Tuple{Slice{}, e.ts.Bool(false)}
			}
			return Tuple{e.newByteSlice(ino.vol), e.ts.Bool(true)}
		}
		I[hp+"c19TempFiles"] = func(e *Exec, fr *frame, args []Value) Value {
			n := 0
			for k := range c19Of(e).vol {
				if k != e.strArg(args[0]) {
					n++
				}
			}
			return e.ts.BV(64, uint64(n))
		}
		I[hp+"c19ForeignReads"] = func(e *Exec, fr *frame, args []Value) Value {
			n := 0
			for _, r := range c19Of(e).reads {
				if r != e.strArg(args[0]) {
					n++
				}
			}
			return e.ts.BV(64, uint64(n))
		}
		I[hp+"c19ResetReads"] = func(e *Exec, fr *frame, args []Value) Value {
			c19Of(e).reads = nil
			return nil
		}
		I[hp+"c19LastDecoded"] = func(e *Exec, fr *frame, args []Value) Value {
			return e.newByteSlice(c19Of(e).decoded)
		}
	})
}

func sortStrings(a []string) {
	for i := 1; i < len(a); i++ {
		for j := i; j > 0 && a[j] < a[j-1]; j-- {
			a[j], a[j-1] = a[j-1], a[j]
		}
	}
}
