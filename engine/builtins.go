package main

import (
	"fmt"
	"go/types"
	"strings"

	"golang.org/x/tools/go/ssa"
)

func (e *Exec) callBuiltin(fr *frame, b *ssa.Builtin, args []Value, cc *ssa.CallCommon) Value {
	switch b.Name() {
	case "len":
		switch x := args[0].(type) {
		case *Str:
			return e.ts.BV(64, uint64(x.Len()))
		case Slice:
			return e.ts.BV(64, uint64(x.len))
		case Array:
			return e.ts.BV(64, uint64(len(x)))
		case Pointer:
			if x.loc == nil {
				// len of nil *array is the array length (type-level); rare
				e.unsupported("len(nil *array)")
			}
			return e.ts.BV(64, uint64(len(x.loc.kids)))
		case *MapObj:
			if x == nil {
				return e.ts.BV(64, 0)
			}
			return e.ts.BV(64, uint64(len(x.entries)))
		case *ChanObj:
			if x == nil {
				return e.ts.BV(64, 0)
			}
			return e.ts.BV(64, uint64(len(x.buf)))
		}
	case "cap":
		switch x := args[0].(type) {
		case Slice:
			return e.ts.BV(64, uint64(x.cap))
		case Array:
			return e.ts.BV(64, uint64(len(x)))
		case Pointer:
			return e.ts.BV(64, uint64(len(x.loc.kids)))
		case *ChanObj:
			if x == nil {
				return e.ts.BV(64, 0)
			}
			return e.ts.BV(64, uint64(x.cap))
		}
	case "append":
		s := args[0].(Slice)
		var add []Value
		switch a := args[1].(type) {
		case Slice:
			for i := 0; i < a.len; i++ {
				add = append(add, e.loadLoc(a.arr.kids[a.off+i]))
			}
		case *Str:
			for _, t := range e.strBytes(a) {
				add = append(add, t)
			}
		}
		if len(add) == 0 {
			return s
		}
		var et types.Type
		if cc != nil {
			et = cc.Args[0].Type().Underlying().(*types.Slice).Elem()
		} else if s.arr != nil {
			et = s.arr.typ.Underlying().(*types.Array).Elem()
		}
		return e.appendValues(s, add, et)
	case "copy":
		dst := args[0].(Slice)
		var src []Value
		switch a := args[1].(type) {
		case Slice:
			for i := 0; i < a.len; i++ {
				src = append(src, e.loadLoc(a.arr.kids[a.off+i]))
			}
		case *Str:
			for _, t := range e.strBytes(a) {
				src = append(src, t)
			}
		}
		n := len(src)
		if dst.len < n {
			n = dst.len
		}
		for i := 0; i < n; i++ {
			e.storeLoc(dst.arr.kids[dst.off+i], src[i])
		}
		return e.ts.BV(64, uint64(n))
	case "delete":
		m, _ := args[0].(*MapObj)
		if m != nil {
			e.mapDelete(m, args[1])
		}
		return nil
	case "clear":
		if e.spec > 0 {
			e.abortSpec("clear")
		}
		switch x := args[0].(type) {
		case *MapObj:
			if x != nil {
				x.entries = nil
			}
		case Slice:
			for i := 0; i < x.len; i++ {
				l := x.arr.kids[x.off+i]
				e.storeLoc(l, e.zero(l.typ))
			}
		}
		return nil
	case "close":
		if e.spec > 0 {
			e.abortSpec("close")
		}
		ch, _ := args[0].(*ChanObj)
		if ch == nil {
			e.goPanicStr("close of nil channel")
		}
		if ch.closed {
			e.goPanicStr("close of closed channel")
		}
		ch.closed = true
		return nil
	case "panic":
		if e.spec > 0 {
			e.abortSpec("panic")
		}
		panic(&goPanic{val: args[0], descr: e.describePanic(args[0])})
	case "recover":
		if e.spec > 0 {
			e.abortSpec("recover")
		}
		// recover() is only effective when called directly by a deferred function
		caller := fr.caller
		if caller != nil && caller.panicking != nil && !caller.recovered {
			caller.recovered = true
			return caller.panicking.val
		}
		return Iface{}
	case "print", "println":
		return nil
	case "min", "max":
		res := args[0]
		var t0 types.Type
		if cc != nil {
			t0 = cc.Args[0].Type()
		}
		for _, a := range args[1:] {
			rt, ok1 := res.(*Term)
			at, ok2 := a.(*Term)
			if !ok1 || !ok2 {
				e.unsupported("min/max on non-integers")
			}
			_, signed, _ := intWidth(t0)
			var lt *Term
			if signed {
				lt = e.ts.Cmp(OpSlt, at, rt)
			} else {
				lt = e.ts.Cmp(OpUlt, at, rt)
			}
			if b.Name() == "max" {
				lt = e.ts.And(e.ts.Not(lt), e.ts.Not(e.ts.Eq(at, rt)))
			}
			res = e.ts.Ite(lt, at, rt)
		}
		return res
	case "ssa:wrapnilchk":
		p, ok := args[0].(Pointer)
		if ok && p.IsNil() {
			e.goPanicStr("value method called using nil pointer")
		}
		return args[0]
	}
	e.unsupported("builtin " + b.Name() + fmt.Sprintf(" on %T", args[0]))
	return nil
}

// appendValues implements append with Go-like growth (fresh backing array when capacity is exceeded).
func (e *Exec) appendValues(s Slice, add []Value, et types.Type) Slice {
	need := s.len + len(add)
	if s.arr != nil && need <= s.cap {
		for i, v := range add {
			e.storeLoc(s.arr.kids[s.off+s.len+i], copyVal(v))
		}
		return Slice{arr: s.arr, off: s.off, len: need, cap: s.cap}
	}
	ncap := s.cap * 2
	if ncap < need {
		ncap = need
	}
	if ncap > e.prog.cfg.MaxAlloc {
		panic(&pathEnd{kind: endUnwind, msg: "append exceeds MaxAlloc"})
	}
	if et == nil {
		e.unsupported("append: unknown element type")
	}
	arr := e.newArrayLoc(et, ncap)
	for i := 0; i < s.len; i++ {
		e.storeLoc(arr.kids[i], e.loadLoc(s.arr.kids[s.off+i]))
	}
	for i, v := range add {
		e.storeLoc(arr.kids[s.len+i], copyVal(v))
	}
	return Slice{arr: arr, off: 0, len: need, cap: ncap}
}

// sliceValues reads the elements of a slice.
func (e *Exec) sliceValues(s Slice) []Value {
	r := make([]Value, s.len)
	for i := 0; i < s.len; i++ {
		r[i] = e.loadLoc(s.arr.kids[s.off+i])
	}
	return r
}

func (e *Exec) byteSliceTerms(s Slice) []*Term {
	r := make([]*Term, s.len)
	for i := 0; i < s.len; i++ {
		r[i] = s.arr.kids[s.off+i].val.(*Term)
	}
	return r
}

func (e *Exec) newByteSlice(bs []*Term) Slice {
	arr := e.newArrayLoc(types.Typ[types.Uint8], len(bs))
	for i, t := range bs {
		arr.kids[i].val = t
	}
	return Slice{arr: arr, len: len(bs), cap: len(bs)}
}

func (e *Exec) callExternal(fr *frame, fn *ssa.Function, args []Value) Value {
	name := fn.String()
	if e.spec > 0 && !pureIntrinsic(name) {
		e.abortSpec("impure external " + name)
	}
	if h := e.prog.intrinsics[name]; h != nil {
		return h(e, fr, args)
	}
	// generic instantiation: try origin name
	if o := fn.Origin(); o != nil {
		if h := e.prog.intrinsics[o.String()]; h != nil {
			return h(e, fr, args)
		}
	}
	for _, pfx := range e.prog.noopPrefixes {
		if strings.HasPrefix(name, pfx) {
			return e.zeroResults(fn)
		}
	}
	if fn.Name() == "init" && fn.Signature.Recv() == nil {
		return nil
	}
	if e.inInit > 0 {
		e.warnings["init: external call skipped: "+name]++
		return e.zeroResults(fn)
	}
	e.unsupported("external function without intrinsic: " + name)
	return nil
}

func (e *Exec) zeroResults(fn *ssa.Function) Value {
	res := fn.Signature.Results()
	switch res.Len() {
	case 0:
		return nil
	case 1:
		return e.zeroOrOpaque(res.At(0).Type())
	}
	t := make(Tuple, res.Len())
	for i := range t {
		t[i] = e.zeroOrOpaque(res.At(i).Type())
	}
	return t
}

func (e *Exec) zeroOrOpaque(t types.Type) Value {
	defer func() {
		if r := recover(); r != nil {
			if pe, ok := r.(*pathEnd); ok && pe.kind == endUnsupported {
				return
			}
			panic(r)
		}
	}()
	return e.zero(t)
}

var pureIntrinsicNames = map[string]bool{
	"fmt.Errorf": true, "fmt.Sprintf": true, "fmt.Sprint": true, "errors.New": true, "errors.Is": true, "errors.Unwrap": true,
	"bytes.Equal": true, "bytes.Compare": true, "strings.Compare": true, "strings.Index": true, "strings.Clone": true,
	"reflect.DeepEqual": true, "context.Background": true, "context.TODO": true,
	symPkg + ".B2U": true, symPkg + ".Thorough": true,
	"(*sync.Mutex).Lock": true, "(*sync.Mutex).Unlock": true, "(*sync.RWMutex).Lock": true, "(*sync.RWMutex).Unlock": true,
	"(*sync.RWMutex).RLock": true, "(*sync.RWMutex).RUnlock": true, "runtime.KeepAlive": true,
}

func pureIntrinsic(name string) bool {
	if pureIntrinsicNames[name] {
		return true
	}
	for _, p := range []string{"crypto/sha256.", "crypto/md5.", "crypto/sha1.", "internal/bytealg.", "internal/stringslite.", "math/bits.", "unsafe.", "sync/atomic.Load"} {
		if strings.HasPrefix(name, p) {
			return true
		}
	}
	if strings.HasPrefix(name, "(*sync/atomic.") && strings.HasSuffix(name, ").Load") {
		return true
	}
	return false
}
