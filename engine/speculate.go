package main

import (
	"golang.org/x/tools/go/ssa"
)

// specAbort unwinds a failed speculation.
type specAbort struct{ why string }

func (e *Exec) abortSpec(why string) {
	panic(specAbort{why})
}

// postDominators returns, for each block index, the index of its immediate post-dominator
// (-1 = virtual exit).
func (p *Program) postDominators(fn *ssa.Function) []int {
	p.pdmu.Lock()
	defer p.pdmu.Unlock()
	if pd, ok := p.postdom[fn]; ok {
		return pd
	}
	n := len(fn.Blocks)
	exit := n
	// reverse graph successors: preds in reverse graph = succs in CFG
	// order: reverse post-order on the reverse CFG starting from exit
	rsuccs := make([][]int, n+1) // reverse-graph successors = CFG preds
	for _, b := range fn.Blocks {
		if len(b.Succs) == 0 {
			rsuccs[exit] = append(rsuccs[exit], b.Index)
		}
		for _, s := range b.Succs {
			rsuccs[s.Index] = append(rsuccs[s.Index], b.Index)
		}
	}
	visited := make([]bool, n+1)
	var post []int
	var dfs func(int)
	dfs = func(u int) {
		visited[u] = true
		for _, v := range rsuccs[u] {
			if !visited[v] {
				dfs(v)
			}
		}
		post = append(post, u)
	}
	dfs(exit)
	order := make([]int, n+1) // node -> postorder number
	for i := range order {
		order[i] = -1
	}
	for i, u := range post {
		order[u] = i
	}
	idom := make([]int, n+1)
	for i := range idom {
		idom[i] = -2
	}
	idom[exit] = exit
	intersect := func(a, b int) int {
		for a != b {
			for order[a] < order[b] {
				a = idom[a]
			}
			for order[b] < order[a] {
				b = idom[b]
			}
		}
		return a
	}
	changed := true
	for changed {
		changed = false
		for i := len(post) - 2; i >= 0; i-- {
			u := post[i]
			// preds of u in the reverse graph = CFG succs (or exit for terminal blocks)
			var preds []int
			if u < n {
				b := fn.Blocks[u]
				if len(b.Succs) == 0 {
					preds = append(preds, exit)
				}
				for _, s := range b.Succs {
					preds = append(preds, s.Index)
				}
			}
			ni := -2
			for _, pr := range preds {
				if order[pr] < 0 || idom[pr] == -2 {
					continue
				}
				if ni == -2 {
					ni = pr
				} else {
					ni = intersect(pr, ni)
				}
			}
			if ni != -2 && idom[u] != ni {
				idom[u] = ni
				changed = true
			}
		}
	}
	res := make([]int, n)
	for i := 0; i < n; i++ {
		if idom[i] == exit || idom[i] == -2 {
			res[i] = -1
		} else {
			res[i] = idom[i]
		}
	}
	p.postdom[fn] = res
	return res
}

const maxSpecBlocks = 48
const maxSpecSteps = 20000

// trySpeculate merges the side-effect-free region between a symbolic If and its immediate
// post-dominator into ite terms instead of forking. It returns true when it advanced the
// frame to the join block (whose phis are already evaluated).
func (e *Exec) trySpeculate(fr *frame, ins *ssa.If, c *Term) (ok bool) {
	if e.prog.cfg.NoSpeculate {
		return false
	}
	B := ins.Block()
	pd := e.prog.postDominators(fr.fn)
	j := pd[B.Index]
	var J *ssa.BasicBlock
	if j >= 0 {
		J = fr.fn.Blocks[j]
	} else if len(fr.defers) > 0 || fr.caller == nil {
		// no join before the function exit: only frames without pending defers can be merged through
		// their returns (and never the harness entry itself)
		if e.spec > 0 {
			e.abortSpec("no join")
		}
		return false
	}
	// collect the region
	inRegion := map[*ssa.BasicBlock]bool{}
	var orderRev []*ssa.BasicBlock
	state := map[*ssa.BasicBlock]int{} // 1 = visiting, 2 = done
	cyclic := false
	var dfs func(b *ssa.BasicBlock)
	dfs = func(b *ssa.BasicBlock) {
		if b == J || cyclic {
			return
		}
		if b == B {
			cyclic = true
			return
		}
		switch state[b] {
		case 1:
			cyclic = true
			return
		case 2:
			return
		}
		state[b] = 1
		inRegion[b] = true
		for _, s := range b.Succs {
			dfs(s)
		}
		state[b] = 2
		orderRev = append(orderRev, b)
	}
	for _, s := range B.Succs {
		dfs(s)
	}
	fail := func(why string) bool {
		if e.spec > 0 {
			e.abortSpec(why)
		}
		return false
	}
	if cyclic || len(orderRev) > maxSpecBlocks {
		return fail("cyclic or large region")
	}
	for b := range inRegion {
		if len(b.Succs) == 0 {
			if _, isRet := b.Instrs[len(b.Instrs)-1].(*ssa.Return); !isRet || J != nil {
				return fail("region exits function")
			}
		}
	}
	// speculative evaluation
	savedFrame := e.curFrame
	savedPrev, savedBlock := fr.prev, fr.block
	outer := e.spec == 0
	if outer {
		e.specSteps = 0
	}
	// memory created before THIS region started must not be written by its arms (both arms are
	// evaluated, so such a write would not be guarded); nested regions are stricter than outer ones.
	savedStart, savedObjStart := e.specStart, e.specObjStart
	e.specStart = e.locID
	e.specObjStart = e.objID
	e.spec++
	defer func() {
		e.spec--
		e.specStart, e.specObjStart = savedStart, savedObjStart
		if r := recover(); r != nil {
			if sa, isAbort := r.(specAbort); isAbort && outer {
				e.prog.noteFork("spec-abort: " + sa.why + " @ " + e.prog.fset.Position(e.lastPos).String())
				e.curFrame = savedFrame
				fr.prev, fr.block = savedPrev, savedBlock
				ok = false
				e.prog.stats.addSpec(false)
				return
			}
			panic(r)
		}
	}()
	type retCase struct {
		g *Term
		v Value
	}
	var rets []retCase
	type edge struct{ from, to *ssa.BasicBlock }
	edgeGuard := map[edge]*Term{}
	addEdge := func(from, to *ssa.BasicBlock, g *Term) {
		k := edge{from, to}
		if old, ok := edgeGuard[k]; ok {
			edgeGuard[k] = e.ts.Or(old, g)
		} else {
			edgeGuard[k] = g
		}
	}
	addEdge(B, B.Succs[0], c)
	addEdge(B, B.Succs[1], e.ts.Not(c))
	evalPhis := func(X *ssa.BasicBlock) {
		for _, in := range X.Instrs {
			phi, isPhi := in.(*ssa.Phi)
			if !isPhi {
				break
			}
			var res Value
			for i, p := range X.Preds {
				g, has := edgeGuard[edge{p, X}]
				if !has || g.IsFalse() {
					continue
				}
				v := e.get(fr, phi.Edges[i])
				if res == nil {
					res = v
					continue
				}
				m, mok := e.merge(g, v, res)
				if !mok {
					e.abortSpec("phi not mergeable")
				}
				res = m
			}
			if res == nil {
				e.abortSpec("phi without incoming edge")
			}
			fr.env[fr.idx[phi]] = res
		}
	}
	for i := len(orderRev) - 1; i >= 0; i-- {
		X := orderRev[i]
		guard := e.ts.Bool(false)
		for _, p := range X.Preds {
			if g, has := edgeGuard[edge{p, X}]; has {
				guard = e.ts.Or(guard, g)
			}
		}
		evalPhis(X)
		for _, in := range X.Instrs {
			switch t := in.(type) {
			case *ssa.Phi:
				continue
			case *ssa.Jump:
				addEdge(X, X.Succs[0], guard)
			case *ssa.If:
				ct := e.get(fr, t.Cond).(*Term)
				addEdge(X, X.Succs[0], e.ts.And(guard, ct))
				addEdge(X, X.Succs[1], e.ts.And(guard, e.ts.Not(ct)))
			case *ssa.Return:
				if J != nil {
					e.abortSpec("return inside a joined region")
				}
				var rv Value
				switch len(t.Results) {
				case 0:
				case 1:
					rv = copyVal(e.get(fr, t.Results[0]))
				default:
					tu := make(Tuple, len(t.Results))
					for i, r := range t.Results {
						tu[i] = copyVal(e.get(fr, r))
					}
					rv = tu
				}
				rets = append(rets, retCase{guard, rv})
			case *ssa.Panic, *ssa.Defer, *ssa.RunDefers, *ssa.Go, *ssa.Send, *ssa.MapUpdate, *ssa.Select:
				e.abortSpec("side effect in region")
			default:
				e.specSteps++
				if e.specSteps > maxSpecSteps {
					e.abortSpec("speculation budget")
				}
				fr.block = X
				e.visitInstr(fr, in)
				e.curFrame = fr
			}
		}
	}
	if J == nil {
		if len(rets) == 0 {
			e.abortSpec("no return in exit region")
		}
		var res Value
		for i, rc := range rets {
			if i == 0 {
				res = rc.v
				continue
			}
			if rc.v == nil && res == nil {
				continue
			}
			m, mok := e.merge(rc.g, rc.v, res)
			if !mok {
				e.abortSpec("return values not mergeable")
			}
			res = m
		}
		fr.result = res
		fr.specReturned = true
		fr.prev, fr.block = savedPrev, savedBlock
		if outer {
			e.prog.stats.addSpec(true)
		}
		return true
	}
	evalPhis(J)
	fr.prev, fr.block = B, J
	fr.skipPhis = true
	if outer {
		e.prog.stats.addSpec(true)
	}
	return true
}
