package main

import "golang.org/x/tools/go/ssa"

// trySpeculate merges side-effect-free diamonds below a symbolic If into ite terms
// instead of forking. Returns true when it advanced fr.block to the join block.
func (e *Exec) trySpeculate(fr *frame, ins *ssa.If, c *Term) bool {
	return false
}
