package main

import (
	"fmt"
	"go/types"

	"golang.org/x/tools/go/ssa"
)

// Value is a symbolic-execution value:
//
//	*Term      scalar (bool / intN / uintN / uintptr)
//	Float      concrete float
//	Pointer    pointer to a Loc, or symbolic element pointer, or nil
//	Slice      slice with concrete shape
//	*Str       string of concrete length, bytes possibly symbolic
//	Iface      interface with concrete dynamic type
//	Struct, Array, Tuple
//	*MapObj, *ChanObj (nil pointer = nil map/chan)
//	*Closure   (nil = nil func)
type Value interface{}

type Float float64
type Complex complex128

// Loc is an addressable memory cell, or a tree of cells for structs/arrays.
type Loc struct {
	kids   []*Loc
	val    Value
	typ    types.Type
	id     int
	global *ssa.Global
	obj    *Loc // root object this loc belongs to (for identity / debugging)
}

type symPtr struct {
	elems []*Loc
	idx   *Term // 64-bit, assumed in range
}

type Pointer struct {
	loc *Loc
	sym *symPtr
	// fn is set for pointers to functions used as opaque handles (never dereferenced)
}

func (p Pointer) IsNil() bool { return p.loc == nil && p.sym == nil }

type Slice struct {
	arr *Loc // array loc (kids are elements); nil for nil slice
	off int
	len int
	cap int
}

type Str struct {
	s string
	b []*Term // if non-nil, the string's bytes (len(b) is the length); s unused
}

type Iface struct {
	t types.Type // nil => nil interface
	v Value
}

type Struct []Value
type Array []Value
type Tuple []Value

type mapEntry struct {
	key Value
	val Value
}

type MapObj struct {
	entries []*mapEntry
	kt, vt  types.Type
	id      int
}

type ChanObj struct {
	buf    []Value
	cap    int
	closed bool
	et     types.Type
	id     int
}

type Closure struct {
	fn    *ssa.Function
	env   []Value
	bound Value         // for bound-method closures of interface methods: receiver
	intr  string        // intrinsic function name (for external funcs used as values)
	bi    *ssa.Builtin  // builtin used as value (defer/go)
	native func(e *Exec, args []Value) Value
	id    int
}

type mapIter struct {
	entries []*mapEntry
	pos     int
	str     *Str // string iteration
}

// ---------------------------------------------------------------- types helpers

func intWidth(t types.Type) (w int, signed bool, ok bool) {
	b, isB := t.Underlying().(*types.Basic)
	if !isB {
		return 0, false, false
	}
	switch b.Kind() {
	case types.Int8:
		return 8, true, true
	case types.Int16:
		return 16, true, true
	case types.Int32:
		return 32, true, true
	case types.Int64, types.Int, types.UntypedInt, types.UntypedRune:
		return 64, true, true
	case types.Uint8:
		return 8, false, true
	case types.Uint16:
		return 16, false, true
	case types.Uint32:
		return 32, false, true
	case types.Uint64, types.Uint, types.Uintptr:
		return 64, false, true
	}
	if b.Kind() == types.UntypedRune {
		return 32, true, true
	}
	return 0, false, false
}

func isBool(t types.Type) bool {
	b, ok := t.Underlying().(*types.Basic)
	return ok && b.Info()&types.IsBoolean != 0
}
func isString(t types.Type) bool {
	b, ok := t.Underlying().(*types.Basic)
	return ok && b.Info()&types.IsString != 0
}
func isFloat(t types.Type) bool {
	b, ok := t.Underlying().(*types.Basic)
	return ok && b.Info()&types.IsFloat != 0
}
func isComplex(t types.Type) bool {
	b, ok := t.Underlying().(*types.Basic)
	return ok && b.Info()&types.IsComplex != 0
}

func (e *Exec) zero(t types.Type) Value {
	switch u := t.Underlying().(type) {
	case *types.Basic:
		if u.Info()&types.IsBoolean != 0 {
			return e.ts.Bool(false)
		}
		if u.Info()&types.IsString != 0 {
			return &Str{}
		}
		if u.Info()&types.IsFloat != 0 {
			return Float(0)
		}
		if u.Info()&types.IsComplex != 0 {
			return Complex(0)
		}
		if u.Kind() == types.UnsafePointer {
			return Pointer{}
		}
		if u.Kind() == types.UntypedNil {
			return Pointer{}
		}
		w, _, ok := intWidth(t)
		if !ok {
			e.unsupported("zero of basic type " + t.String())
		}
		return e.ts.BV(w, 0)
	case *types.Pointer:
		return Pointer{}
	case *types.Slice:
		return Slice{}
	case *types.Interface:
		return Iface{}
	case *types.Struct:
		s := make(Struct, u.NumFields())
		for i := range s {
			s[i] = e.zero(u.Field(i).Type())
		}
		return s
	case *types.Array:
		a := make(Array, int(u.Len()))
		for i := range a {
			a[i] = e.zero(u.Elem())
		}
		return a
	case *types.Map:
		return (*MapObj)(nil)
	case *types.Chan:
		return (*ChanObj)(nil)
	case *types.Signature:
		return (*Closure)(nil)
	case *types.Tuple:
		tu := make(Tuple, u.Len())
		for i := range tu {
			tu[i] = e.zero(u.At(i).Type())
		}
		return tu
	case *types.TypeParam:
		e.unsupported("zero of type parameter")
	}
	e.unsupported("zero of " + t.String())
	return nil
}

// newLoc allocates a location tree of type t initialised to zero.
func (e *Exec) newLoc(t types.Type) *Loc {
	e.locID++
	l := &Loc{typ: t, id: e.locID}
	l.obj = l
	e.fillLoc(l, t, l)
	return l
}

func (e *Exec) fillLoc(l *Loc, t types.Type, root *Loc) {
	switch u := t.Underlying().(type) {
	case *types.Struct:
		l.kids = make([]*Loc, u.NumFields())
		for i := range l.kids {
			e.locID++
			k := &Loc{typ: u.Field(i).Type(), id: e.locID, obj: root}
			e.fillLoc(k, k.typ, root)
			l.kids[i] = k
		}
	case *types.Array:
		n := int(u.Len())
		l.kids = make([]*Loc, n)
		et := u.Elem()
		// fast path for scalar element types
		if _, _, ok := intWidth(et); ok {
			z := e.zero(et)
			for i := range l.kids {
				e.locID++
				l.kids[i] = &Loc{typ: et, id: e.locID, obj: root, val: z}
			}
			return
		}
		for i := range l.kids {
			e.locID++
			k := &Loc{typ: et, id: e.locID, obj: root}
			e.fillLoc(k, et, root)
			l.kids[i] = k
		}
	default:
		l.val = e.zero(t)
	}
}

// newArrayLoc allocates an array of n elements of type et.
func (e *Exec) newArrayLoc(et types.Type, n int) *Loc {
	return e.newLoc(types.NewArray(et, int64(n)))
}

func (e *Exec) loadLoc(l *Loc) Value {
	if l.kids != nil {
		switch l.typ.Underlying().(type) {
		case *types.Struct:
			s := make(Struct, len(l.kids))
			for i, k := range l.kids {
				s[i] = e.loadLoc(k)
			}
			return s
		default:
			a := make(Array, len(l.kids))
			for i, k := range l.kids {
				a[i] = e.loadLoc(k)
			}
			return a
		}
	}
	if _, isArr := l.typ.Underlying().(*types.Array); isArr {
		return Array{}
	}
	if st, isSt := l.typ.Underlying().(*types.Struct); isSt && st.NumFields() == 0 {
		return Struct{}
	}
	return l.val
}

func (e *Exec) storeLoc(l *Loc, v Value) {
	if e.spec > 0 && l.id <= e.specStart {
		e.abortSpec("store to pre-existing memory")
	}
	if l.global != nil && e.frozenGlobals {
		// writes to globals after init are allowed but recorded
		e.globalWrites++
	}
	if l.kids != nil {
		switch vv := v.(type) {
		case Struct:
			if len(vv) != len(l.kids) {
				panic(fmt.Sprintf("store struct arity %d vs %d", len(vv), len(l.kids)))
			}
			for i, k := range l.kids {
				e.storeLoc(k, vv[i])
			}
		case Array:
			for i, k := range l.kids {
				e.storeLoc(k, vv[i])
			}
		default:
			panic(fmt.Sprintf("store of %T into aggregate loc %s", v, l.typ))
		}
		return
	}
	switch v.(type) {
	case Struct, Array:
		if len(l.kids) == 0 {
			return // empty aggregate
		}
	}
	l.val = v
}

func (e *Exec) load(p Pointer) Value {
	if p.loc != nil {
		return e.loadLoc(p.loc)
	}
	if p.sym != nil {
		sp := p.sym
		vals := make([]Value, len(sp.elems))
		for i, l := range sp.elems {
			vals[i] = e.loadLoc(l)
		}
		res, ok := e.selectTree(vals, sp.idx)
		if !ok {
			e.unsupported("symbolic-index load of non-mergeable element")
		}
		return res
	}
	e.goPanicStr("runtime error: invalid memory address or nil pointer dereference")
	return nil
}

func (e *Exec) store(p Pointer, v Value) {
	if p.loc != nil {
		e.storeLoc(p.loc, v)
		return
	}
	if p.sym != nil {
		sp := p.sym
		for i, l := range sp.elems {
			c := e.ts.Eq(sp.idx, e.ts.BV(64, uint64(i)))
			old := e.loadLoc(l)
			m, ok := e.merge(c, v, old)
			if !ok {
				e.unsupported("symbolic-index store of non-mergeable element")
			}
			e.storeLoc(l, m)
		}
		return
	}
	e.goPanicStr("runtime error: invalid memory address or nil pointer dereference")
}

// merge builds ite(c, a, b) structurally; ok=false when shapes differ.
func (e *Exec) merge(c *Term, a, b Value) (Value, bool) {
	if c.IsTrue() {
		return a, true
	}
	if c.IsFalse() {
		return b, true
	}
	switch av := a.(type) {
	case *Term:
		bv, ok := b.(*Term)
		if !ok || av.W != bv.W {
			return nil, false
		}
		return e.ts.Ite(c, av, bv), true
	case Struct:
		bv, ok := b.(Struct)
		if !ok || len(av) != len(bv) {
			return nil, false
		}
		r := make(Struct, len(av))
		for i := range av {
			m, ok := e.merge(c, av[i], bv[i])
			if !ok {
				return nil, false
			}
			r[i] = m
		}
		return r, true
	case Array:
		bv, ok := b.(Array)
		if !ok || len(av) != len(bv) {
			return nil, false
		}
		r := make(Array, len(av))
		for i := range av {
			m, ok := e.merge(c, av[i], bv[i])
			if !ok {
				return nil, false
			}
			r[i] = m
		}
		return r, true
	case Tuple:
		bv, ok := b.(Tuple)
		if !ok || len(av) != len(bv) {
			return nil, false
		}
		r := make(Tuple, len(av))
		for i := range av {
			m, ok := e.merge(c, av[i], bv[i])
			if !ok {
				return nil, false
			}
			r[i] = m
		}
		return r, true
	case *Str:
		bv, ok := b.(*Str)
		if !ok || av.Len() != bv.Len() {
			return nil, false
		}
		if av.b == nil && bv.b == nil && av.s == bv.s {
			return av, true
		}
		ab, bb := e.strBytes(av), e.strBytes(bv)
		r := make([]*Term, len(ab))
		for i := range ab {
			r[i] = e.ts.Ite(c, ab[i], bb[i])
		}
		return &Str{b: r}, true
	case Pointer:
		bv, ok := b.(Pointer)
		if ok && av.loc == bv.loc && av.sym == bv.sym {
			return av, true
		}
		return nil, false
	case Slice:
		bv, ok := b.(Slice)
		if ok && av == bv {
			return av, true
		}
		return nil, false
	case Iface:
		bv, ok := b.(Iface)
		if !ok {
			return nil, false
		}
		if av.t == nil && bv.t == nil {
			return av, true
		}
		if av.t != nil && bv.t != nil && types.Identical(av.t, bv.t) {
			m, ok := e.merge(c, av.v, bv.v)
			if !ok {
				return nil, false
			}
			return Iface{t: av.t, v: m}, true
		}
		return nil, false
	case *MapObj:
		bv, ok := b.(*MapObj)
		return av, ok && av == bv
	case *ChanObj:
		bv, ok := b.(*ChanObj)
		return av, ok && av == bv
	case *Closure:
		bv, ok := b.(*Closure)
		return av, ok && av == bv
	case Float:
		bv, ok := b.(Float)
		return av, ok && av == bv
	case *opaqueErr:
		bv, ok := b.(*opaqueErr)
		return av, ok && av == bv
	case *hashObj:
		bv, ok := b.(*hashObj)
		return av, ok && av == bv
	}
	return nil, false
}

func (s *Str) Len() int {
	if s.b != nil {
		return len(s.b)
	}
	return len(s.s)
}

func (s *Str) Concrete() (string, bool) {
	if s.b == nil {
		return s.s, true
	}
	buf := make([]byte, len(s.b))
	for i, t := range s.b {
		if !t.IsConst() {
			return "", false
		}
		buf[i] = byte(t.Val)
	}
	return string(buf), true
}

func (e *Exec) strBytes(s *Str) []*Term {
	if s.b != nil {
		return s.b
	}
	r := make([]*Term, len(s.s))
	for i := 0; i < len(s.s); i++ {
		r[i] = e.ts.BV(8, uint64(s.s[i]))
	}
	return r
}

func (e *Exec) mkStr(b []*Term) *Str {
	if len(b) == 0 {
		return &Str{}
	}
	allc := true
	for _, t := range b {
		if !t.IsConst() {
			allc = false
			break
		}
	}
	if allc {
		buf := make([]byte, len(b))
		for i, t := range b {
			buf[i] = byte(t.Val)
		}
		return &Str{s: string(buf)}
	}
	return &Str{b: b}
}

// equal builds the term for a == b on Go values of static type t.
func (e *Exec) equal(a, b Value) *Term {
	switch av := a.(type) {
	case *Term:
		bv := b.(*Term)
		return e.ts.Eq(av, bv)
	case Float:
		return e.ts.Bool(av == b.(Float))
	case *Str:
		bv := b.(*Str)
		if av.Len() != bv.Len() {
			return e.ts.Bool(false)
		}
		if av.b == nil && bv.b == nil {
			return e.ts.Bool(av.s == bv.s)
		}
		ab, bb := e.strBytes(av), e.strBytes(bv)
		r := e.ts.Bool(true)
		for i := range ab {
			r = e.ts.And(r, e.ts.Eq(ab[i], bb[i]))
		}
		return r
	case Pointer:
		bv, ok := b.(Pointer)
		if !ok {
			e.unsupported(fmt.Sprintf("pointer compared with %T", b))
		}
		if av.sym != nil || bv.sym != nil {
			if av.sym != nil && bv.sym != nil && av.sym == bv.sym {
				return e.ts.Bool(true)
			}
			e.unsupported("comparison of symbolic element pointers")
		}
		return e.ts.Bool(av.loc == bv.loc)
	case Struct:
		bv := b.(Struct)
		r := e.ts.Bool(true)
		for i := range av {
			r = e.ts.And(r, e.equal(av[i], bv[i]))
		}
		return r
	case Array:
		bv := b.(Array)
		r := e.ts.Bool(true)
		for i := range av {
			r = e.ts.And(r, e.equal(av[i], bv[i]))
		}
		return r
	case Iface:
		bv, ok := b.(Iface)
		if !ok {
			e.unsupported(fmt.Sprintf("iface compared with %T", b))
		}
		if av.t == nil || bv.t == nil {
			return e.ts.Bool(av.t == nil && bv.t == nil)
		}
		if !types.Identical(av.t, bv.t) {
			return e.ts.Bool(false)
		}
		if !types.Comparable(av.t) {
			e.goPanicStr("runtime error: comparing uncomparable type " + av.t.String())
		}
		return e.equal(av.v, bv.v)
	case *MapObj:
		bv, _ := b.(*MapObj)
		return e.ts.Bool(av == bv)
	case *ChanObj:
		bv, _ := b.(*ChanObj)
		return e.ts.Bool(av == bv)
	case *Closure:
		bv, _ := b.(*Closure)
		return e.ts.Bool(av == bv)
	case *opaqueErr:
		bv, _ := b.(*opaqueErr)
		return e.ts.Bool(av == bv)
	case *hashObj:
		bv, _ := b.(*hashObj)
		return e.ts.Bool(av == bv)
	case Slice:
		bv := b.(Slice)
		// only comparison with nil is legal
		if av.arr == nil || bv.arr == nil {
			return e.ts.Bool(av.arr == nil && bv.arr == nil)
		}
		e.unsupported("slice comparison")
	}
	e.unsupported(fmt.Sprintf("equality on %T", a))
	return nil
}

// copyVal returns a value copy safe from aliasing (Structs/Arrays are Go slices).
func copyVal(v Value) Value {
	switch vv := v.(type) {
	case Struct:
		r := make(Struct, len(vv))
		for i := range vv {
			r[i] = copyVal(vv[i])
		}
		return r
	case Array:
		r := make(Array, len(vv))
		for i := range vv {
			r[i] = copyVal(vv[i])
		}
		return r
	}
	return v
}

// selectTree builds vals[idx] as a balanced ite tree over the bits of idx (idx assumed < len(vals)).
func (e *Exec) selectTree(vals []Value, idx *Term) (Value, bool) {
	n := len(vals)
	if n == 1 {
		return vals[0], true
	}
	k := 0
	for (1 << uint(k)) < n {
		k++
	}
	half := 1 << uint(k-1)
	lo, ok := e.selectTree(vals[:half], idx)
	if !ok {
		return nil, false
	}
	hi, ok := e.selectTree(vals[half:], idx)
	if !ok {
		return nil, false
	}
	bit := e.ts.Eq(e.ts.Extract(idx, k-1, k-1), e.ts.BV(1, 1))
	return e.merge(bit, hi, lo)
}
