package main

// Models used by the C15 / C16 harnesses (pkg/db/meta batch operations).
//
// The staged meta batch operations write through *engine.Batch into a *pebble.Batch. The
// harnesses hand them a free-standing zero pebble.Batch (no DB behind it) and read the
// outcome from the meta package's own commit-state overlay (batchCommitState), so the
// Pebble side only has to accept the writes: Set/Delete on a detached batch never fail
// (pebble: they only append to the batch's in-memory representation).
func init() {
	extraIntrinsics = append(extraIntrinsics, func(p *Program) {
		ok := func(e *Exec, fr *frame, args []Value) Value { return Iface{} }
		// only for the checks whose harnesses use a detached batch: anywhere else a silent no-op would
		// drop real writes
		if p.check != nil && (p.check.Property == "C15" || p.check.Property == "C16") {
			for _, path := range []string{"github.com/cockroachdb/pebble/v2", "github.com/cockroachdb/pebble"} {
				p.intrinsics["(*"+path+".Batch).Set"] = ok
				p.intrinsics["(*"+path+".Batch).Delete"] = ok
			}
		}
		// hash/crc32.MakeTable(poly): the Castagnoli path goes through sync.OnceFunc and CPU-feature
		// probes; redirect to the package's own portable simpleMakeTable (requires hash/crc32 in
		// check.json "std"). Same contents; crc32.Update/Checksum are already redirected to
		// simpleUpdate, so table identity is irrelevant. IEEE keeps returning crc32.IEEETable.
		p.intrinsics["hash/crc32.MakeTable"] = func(e *Exec, fr *frame, args []Value) Value {
			sp := e.prog.pkgs["hash/crc32"]
			if sp == nil {
				e.unsupported("hash/crc32 must be listed in check.json std")
			}
			if t, isT := args[0].(*Term); isT && t.IsConst() && t.Val == 0xedb88320 {
				return e.load(Pointer{loc: e.globalLoc(sp.Var("IEEETable"))})
			}
			r := e.callFunction(fr, sp.Func("simpleMakeTable"), []Value{args[0]}, nil)
			e.curFrame = fr
			return r
		}
		// C15 only: the runtime-meta VALUE codec (rowcodec columns: one varint per integer field, CRC32C
		// envelope) is not what C15 is about and cannot be executed on symbolic rows (every varint length
		// is a shape). In the batch-op entries the encoded value only flows into the detached Pebble
		// batch, so it is replaced by an opaque one-byte value. The codec itself belongs to C07/C27.
		if p.check != nil && p.check.Property == "C15" {
			p.intrinsics["github.com/WuKongIM/WuKongIM/pkg/db/meta.encodeChannelRuntimeMetaValue"] = func(e *Exec, fr *frame, args []Value) Value {
				return e.newByteSlice([]*Term{e.ts.BV(8, 0)})
			}
		}
	})
}
