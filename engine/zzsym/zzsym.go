// Package zzsym is the nondeterminism / assertion vocabulary of the /verif harnesses.
//
// Under the symbolic executor (symgo) every function here is intercepted by name and
// its body is never run. In a native build (replay of a solver model, translator
// self-test) the bodies below read the model from the JSON file named by
// $ZZSYM_MODEL: a map from "<name>#<k>" (k-th call with that name) to a value.
package zzsym

import (
	"encoding/json"
	"fmt"
	"os"
	"strconv"
	"sync/atomic"
)

type assumeFailed struct{ msg string }

var (
	model    map[string]uint64
	counts   map[string]int
	Failures []string
	Reached  []string
	Observed []string
	thorough bool
)

// Load reads a model file; used by generated replay tests.
func Load(path string) error {
	model = map[string]uint64{}
	counts = map[string]int{}
	Failures, Reached, Observed = nil, nil, nil
	data, err := os.ReadFile(path)
	if err != nil {
		return err
	}
	var raw struct {
		Thorough bool              `json:"thorough"`
		Values   map[string]string `json:"values"`
	}
	if err := json.Unmarshal(data, &raw); err != nil {
		return err
	}
	thorough = raw.Thorough
	for k, v := range raw.Values {
		n, err := strconv.ParseUint(v, 10, 64)
		if err != nil {
			return err
		}
		model[k] = n
	}
	return nil
}

// Run executes a harness under the loaded model and reports what happened.
// outcome: "ok", "assume-failed", "panic: ...".
func Run(h func()) (outcome string) {
	defer func() {
		if r := recover(); r != nil {
			if af, ok := r.(assumeFailed); ok {
				outcome = "assume-failed: " + af.msg
				return
			}
			outcome = fmt.Sprintf("panic: %v", r)
		}
	}()
	h()
	return "ok"
}

func next(name string) uint64 {
	if counts == nil {
		panic("zzsym: no model loaded (native run outside replay)")
	}
	k := counts[name]
	counts[name] = k + 1
	key := name + "#" + strconv.Itoa(k)
	v, ok := model[key]
	if !ok {
		// inputs the solver left unconstrained are absent from the path: default 0
		return 0
	}
	return v
}

func Bool(name string) bool     { return next(name) != 0 }
func U8(name string) uint8      { return uint8(next(name)) }
func U16(name string) uint16    { return uint16(next(name)) }
func U32(name string) uint32    { return uint32(next(name)) }
func U64(name string) uint64    { return next(name) }
func I8(name string) int8       { return int8(next(name)) }
func I16(name string) int16     { return int16(next(name)) }
func I32(name string) int32     { return int32(next(name)) }
func I64(name string) int64     { return int64(next(name)) }
func Int(name string) int       { return int(next(name)) }

// Bytes returns n nondeterministic bytes (n must be concrete).
func Bytes(name string, n int) []byte {
	b := make([]byte, n)
	for i := range b {
		b[i] = uint8(next(name + "[" + strconv.Itoa(i) + "]"))
	}
	return b
}

// String returns a nondeterministic string of exactly n bytes.
func String(name string, n int) string { return string(Bytes(name, n)) }

// Choice returns a value in [0,n) and makes the executor explore each separately.
func Choice(name string, n int) int {
	v := int(next(name))
	if v < 0 || v >= n {
		panic(assumeFailed{"choice " + name})
	}
	return v
}

// Fork makes the executor enumerate the feasible values of x (identity natively).
func Fork(x int) int { return x }

// Thorough reports whether the thorough tier is running (selects bounds).
func Thorough() bool { return thorough }

func Assume(b bool) {
	if !b {
		panic(assumeFailed{"assume"})
	}
}

func Assert(b bool, msg string) {
	if !b {
		Failures = append(Failures, msg)
	}
}

// AssertKnown is Assert for an obligation with a recorded known finding: pattern
// characterises the inputs of the finding named tag. A failure with pattern false is a
// new violation; one with pattern true is reported as KNOWN-FINDING when tag is listed
// in /verif/known_findings.json.
func AssertKnown(b bool, msg string, tag string, pattern bool) {
	if !b {
		if pattern {
			Failures = append(Failures, msg+" [known:"+tag+"]")
		} else {
			Failures = append(Failures, msg)
		}
	}
}

// Reach is a reachability witness: every label must be reachable on some path.
func Reach(label string) { Reached = append(Reached, label) }

// Observe records values for the translator self-test (native vs. symbolic must agree).
func Observe(name string, vals ...uint64) {
	s := name + "="
	for i, v := range vals {
		if i > 0 {
			s += ","
		}
		s += strconv.FormatUint(v, 10)
	}
	Observed = append(Observed, s)
}

// B2U converts a bool for Observe.
func B2U(b bool) uint64 {
	if b {
		return 1
	}
	return 0
}

// InterfereMonotonicU64 declares, for the thread-modular obligations, that other threads may
// change *p at any time but only ever increase it (the rely), and that this thread must only
// ever strictly increase it (the guarantee, checked by the executor at every write/CAS).
// Natively a no-op: interference-dependent counterexamples are not natively replayable.
func InterfereMonotonicU64(p *atomic.Uint64) {}
