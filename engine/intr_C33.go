package main

import "strconv"

// Model used by the C33 harness (internal/runtime/presence).
//
// authoritySlot.nextPendingToken() names pending routes with fmt.Sprintf("%d", s.nextID). The
// generic fmt.Sprintf model returns one opaque constant, which would give every pending route
// the same token (map key) and diverge from the native run. For C33 only: fmt.Sprintf("%d", x)
// with a single concrete integer operand returns the exact decimal text; everything else
// keeps the generic model.
func init() {
	extraIntrinsics = append(extraIntrinsics, func(p *Program) {
		if p.check == nil || p.check.Property != "C33" {
			return
		}
		prev := p.intrinsics["fmt.Sprintf"]
		p.intrinsics["fmt.Sprintf"] = func(e *Exec, fr *frame, args []Value) Value {
			if f, ok := args[0].(*Str); ok {
				if cs, ok := f.Concrete(); ok && cs == "%d" {
					if va, ok := args[1].(Slice); ok && va.len == 1 {
						if ifc, ok := e.loadLoc(va.arr.kids[va.off]).(Iface); ok && ifc.t != nil {
							if w, signed, isInt := intWidth(ifc.t); isInt {
								if t, ok := ifc.v.(*Term); ok && t.IsConst() {
									if signed {
										return &Str{s: strconv.FormatInt(sext64(t.Val, w), 10)}
									}
									return &Str{s: strconv.FormatUint(t.Val, 10)}
								}
							}
						}
					}
				}
			}
			return prev(e, fr, args)
		}
	})
}
