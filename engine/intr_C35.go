package main

// Solver-friendly exact model of hash/crc32.ChecksumIEEE for the C35 harness entries.
//
// The engine's default model redirects ChecksumIEEE to hash/crc32's table-driven simpleUpdate. That is exact,
// but comparing two such checksums (EncodePersonChannel's three-way order on CRC(left), CRC(right)) makes the
// solver reason about 256-way table multiplexers per byte, which it cannot do within the per-branch timeout.
//
// For a fixed input length n, CRC-32 is an affine map over GF(2):
//
//	crc(x) = crc(0^n)  xor  XOR over set bits (i,k) of x of ( crc(e_{i,k}) xor crc(0^n) )
//
// (e_{i,k} = the n-byte string with only bit k of byte i set). The model below builds exactly that term from
// constants computed with the real hash/crc32 of the engine process, and, for every pair of checksum terms on a
// path, asserts the solved form (Gaussian elimination over GF(2)) of "crc(a) == crc(b)" as an equivalent fact, so
// collision questions are answered by propagation instead of search. The affine identity is re-validated against
// hash/crc32 natively on first use for every length (exhaustively for <= 2 bytes, on random inputs above), and the
// harness Observes the checksums so that the native self-test compares them with the real function on every sample.
//
// Scope: only while an entry named Harness_C35_* runs; every other check keeps the table-driven redirect.

import (
	"fmt"
	"hash/crc32"
	"math/rand"
	"strings"
	"sync"
	"weak"
)

type c35CrcCall struct {
	vars  []*Term  // 1-bit terms (distinct)
	coef  []uint32 // coefficient column of vars[i]
	konst uint32
	term  *Term
}

var c35Crc struct {
	mu        sync.Mutex
	calls     map[weak.Pointer[Exec]][]*c35CrcCall
	ncalls    int
	validated map[int]bool
}

// c35CrcBasis returns crc(0^n) and the coefficient of every input bit, validated against hash/crc32.
func c35CrcBasis(n int) (uint32, [][8]uint32) {
	buf := make([]byte, n)
	zero := crc32.ChecksumIEEE(buf)
	co := make([][8]uint32, n)
	for i := 0; i < n; i++ {
		for k := 0; k < 8; k++ {
			buf[i] = 1 << uint(k)
			co[i][k] = crc32.ChecksumIEEE(buf) ^ zero
			buf[i] = 0
		}
	}
	c35Crc.mu.Lock()
	done := c35Crc.validated[n]
	c35Crc.mu.Unlock()
	if !done {
		eval := func(p []byte) uint32 {
			r := zero
			for i, b := range p {
				for k := 0; k < 8; k++ {
					if b&(1<<uint(k)) != 0 {
						r ^= co[i][k]
					}
				}
			}
			return r
		}
		check := func(p []byte) {
			if eval(p) != crc32.ChecksumIEEE(p) {
				panic(fmt.Sprintf("intr_C35: affine CRC-32 model disagrees with hash/crc32 on % x", p))
			}
		}
		if n <= 2 {
			for v := 0; v < 1<<uint(8*n); v++ {
				for i := 0; i < n; i++ {
					buf[i] = byte(v >> uint(8*i))
				}
				check(buf)
			}
		} else {
			rng := rand.New(rand.NewSource(int64(n)))
			for it := 0; it < 20000; it++ {
				rng.Read(buf)
				check(buf)
			}
		}
		c35Crc.mu.Lock()
		c35Crc.validated[n] = true
		c35Crc.mu.Unlock()
	}
	return zero, co
}

func init() {
	c35Crc.calls = map[weak.Pointer[Exec]][]*c35CrcCall{}
	c35Crc.validated = map[int]bool{}
	extraIntrinsics = append(extraIntrinsics, func(p *Program) {
		old := p.intrinsics["hash/crc32.ChecksumIEEE"]
		p.intrinsics["hash/crc32.ChecksumIEEE"] = func(e *Exec, fr *frame, args []Value) Value {
			if !strings.Contains(e.entryName, "Harness_C35_") {
				return old(e, fr, args)
			}
			sl, ok := args[0].(Slice)
			if !ok {
				return old(e, fr, args)
			}
			bs := e.byteSliceTerms(sl)
			n := len(bs)
			zero, co := c35CrcBasis(n)
			call := &c35CrcCall{konst: zero}
			idx := map[int]int{}
			for i, b := range bs {
				if b.W != 8 {
					return old(e, fr, args)
				}
				for k := 0; k < 8; k++ {
					if b.IsConst() {
						if b.Val&(1<<uint(k)) != 0 {
							call.konst ^= co[i][k]
						}
						continue
					}
					bit := e.ts.Extract(b, k, k)
					if bit.IsConst() {
						if bit.Val != 0 {
							call.konst ^= co[i][k]
						}
						continue
					}
					if j, dup := idx[bit.ID]; dup {
						call.coef[j] ^= co[i][k]
						continue
					}
					idx[bit.ID] = len(call.vars)
					call.vars = append(call.vars, bit)
					call.coef = append(call.coef, co[i][k])
				}
			}
			t := e.ts.BV(32, uint64(call.konst))
			for j, v := range call.vars {
				if call.coef[j] == 0 {
					continue
				}
				sel := e.ts.Ite(e.ts.Eq(v, e.ts.BV(1, 1)), e.ts.BV(32, uint64(call.coef[j])), e.ts.BV(32, 0))
				t = e.ts.Bin(OpBvXor, t, sel)
			}
			call.term = t
			if e.concrete != nil {
				return t
			}
			if e.spec > 0 {
				e.abortSpec("crc32 model lemma")
			}
			// z3's incremental core is weak on xor networks; let it fall back to the full QF_BV solver after
			// 100 ms (options are idempotent; they only select the decision procedure, never the answer)
			if e.solver != nil && !e.solver.Dead {
				e.solver.Send("(set-option :combined_solver.solver2_timeout 100)\n(set-option :combined_solver.solver2_unknown 2)\n")
			}
			wp := weak.Make(e)
			c35Crc.mu.Lock()
			c35Crc.ncalls++
			if c35Crc.ncalls%512 == 0 {
				for k := range c35Crc.calls {
					if k.Value() == nil {
						delete(c35Crc.calls, k)
					}
				}
			}
			prev := append([]*c35CrcCall(nil), c35Crc.calls[wp]...)
			c35Crc.calls[wp] = append(c35Crc.calls[wp], call)
			c35Crc.mu.Unlock()
			for _, o := range prev {
				if o.term == call.term {
					continue
				}
				if lemma := c35CrcEqLemma(e, o, call); lemma != nil {
					e.assertPC(lemma)
				}
				// order tautologies of two 32-bit values (exactly one of x<y, x==y, y<x): the solver does not
				// find these by itself once x and y are xor networks
				x, y := o.term, call.term
				lt, gt, eq := e.ts.Cmp(OpUlt, x, y), e.ts.Cmp(OpUlt, y, x), e.ts.Eq(x, y)
				e.assertPC(e.ts.Or(lt, e.ts.Or(eq, gt)))
				e.assertPC(e.ts.Not(e.ts.And(lt, gt)))
				e.assertPC(e.ts.Not(e.ts.And(eq, e.ts.Or(lt, gt))))
			}
			return t
		}
	})
}

// c35CrcEqLemma returns the valid fact  (a.term == b.term)  <=>  solved form of the GF(2) system
// "a.term xor b.term == 0" over the input bits of both calls.
func c35CrcEqLemma(e *Exec, a, b *c35CrcCall) *Term {
	var vars []*Term
	var col []uint32
	idx := map[int]int{}
	add := func(c *c35CrcCall) {
		for j, v := range c.vars {
			if k, ok := idx[v.ID]; ok {
				col[k] ^= c.coef[j]
				continue
			}
			idx[v.ID] = len(vars)
			vars = append(vars, v)
			col = append(col, c.coef[j])
		}
	}
	add(a)
	add(b)
	nv := len(vars)
	if nv == 0 || nv > 512 {
		return nil
	}
	words := (nv + 63) / 64
	type row struct {
		m []uint64
		c bool
	}
	rows := make([]row, 32)
	k0 := a.konst ^ b.konst
	for r := 0; r < 32; r++ {
		rows[r].m = make([]uint64, words)
		rows[r].c = k0&(1<<uint(r)) != 0
		for j := 0; j < nv; j++ {
			if col[j]&(1<<uint(r)) != 0 {
				rows[r].m[j/64] |= 1 << uint(j%64)
			}
		}
	}
	has := func(rw row, j int) bool { return rw.m[j/64]&(1<<uint(j%64)) != 0 }
	// reduced row echelon form
	pivots := []int{} // pivot column of rows[0..len(pivots))
	nr := 0
	for j := 0; j < nv && nr < 32; j++ {
		p := -1
		for r := nr; r < 32; r++ {
			if has(rows[r], j) {
				p = r
				break
			}
		}
		if p < 0 {
			continue
		}
		rows[nr], rows[p] = rows[p], rows[nr]
		for r := 0; r < 32; r++ {
			if r != nr && has(rows[r], j) {
				for w := range rows[r].m {
					rows[r].m[w] ^= rows[nr].m[w]
				}
				rows[r].c = rows[r].c != rows[nr].c
			}
		}
		pivots = append(pivots, j)
		nr++
	}
	eq := e.ts.Eq(a.term, b.term)
	// rows without a pivot are "0 == c": inconsistent when c is set
	for r := nr; r < 32; r++ {
		if rows[r].c {
			return e.ts.Not(eq)
		}
	}
	solved := e.ts.Bool(true)
	for r := 0; r < nr; r++ {
		rhs := e.ts.BV(1, 0)
		if rows[r].c {
			rhs = e.ts.BV(1, 1)
		}
		for j := 0; j < nv; j++ {
			if j != pivots[r] && has(rows[r], j) {
				rhs = e.ts.Bin(OpBvXor, rhs, vars[j])
			}
		}
		solved = e.ts.And(solved, e.ts.Eq(vars[pivots[r]], rhs))
	}
	return e.ts.And(e.ts.Implies(eq, solved), e.ts.Implies(solved, eq))
}
