package main

import (
	"fmt"
	"go/types"
	"sort"
)

// registerStdIntrinsics: models of standard-library functions whose bodies are not executed.
func registerStdIntrinsics(p *Program) {
	I := p.intrinsics

	// ---- sync/atomic typed values: plain loads/stores (single thread)
	atomicField := func(e *Exec, v Value) *Loc {
		ptr := v.(Pointer)
		if ptr.loc == nil {
			e.goPanicStr("nil atomic receiver")
		}
		l := ptr.loc
		// typed atomics are structs {_ noCopy; [_ align64;] v T}: take the last field
		for l.kids != nil {
			l = l.kids[len(l.kids)-1]
		}
		return l
	}
	for _, tn := range []string{"Int32", "Int64", "Uint32", "Uint64", "Uintptr", "Bool"} {
		tn := tn
		pre := "(*sync/atomic." + tn + ")."
		I[pre+"Load"] = func(e *Exec, fr *frame, args []Value) Value {
			e.interfere(atomicField(e, args[0]))
			v := atomicField(e, args[0]).val.(*Term)
			if tn == "Bool" {
				return e.ts.Not(e.ts.Eq(v, e.ts.BV(v.W, 0)))
			}
			return v
		}
		I[pre+"Store"] = func(e *Exec, fr *frame, args []Value) Value {
			l := atomicField(e, args[0])
			v := args[1].(*Term)
			if e.interfere(l) {
				e.guaranteeWrite(l, v, "atomic Store")
			}
			if tn == "Bool" {
				v = e.ts.BoolToBV(v, 32)
			}
			l.val = v
			return nil
		}
		I[pre+"Swap"] = func(e *Exec, fr *frame, args []Value) Value {
			l := atomicField(e, args[0])
			if e.interfere(l) {
				e.guaranteeWrite(l, args[1].(*Term), "atomic Swap")
			}
			old := l.val.(*Term)
			v := args[1].(*Term)
			if tn == "Bool" {
				l.val = e.ts.BoolToBV(v, 32)
				return e.ts.Not(e.ts.Eq(old, e.ts.BV(old.W, 0)))
			}
			l.val = v
			return old
		}
		I[pre+"Add"] = func(e *Exec, fr *frame, args []Value) Value {
			l := atomicField(e, args[0])
			if e.interfere(l) {
				e.unsupported("atomic Add on an interfered cell")
			}
			nv := e.ts.Bin(OpAdd, l.val.(*Term), args[1].(*Term))
			l.val = nv
			return nv
		}
		I[pre+"CompareAndSwap"] = func(e *Exec, fr *frame, args []Value) Value {
			l := atomicField(e, args[0])
			inter := e.interfere(l)
			cur := l.val.(*Term)
			old, nw := args[1].(*Term), args[2].(*Term)
			if tn == "Bool" {
				old, nw = e.ts.BoolToBV(old, 32), e.ts.BoolToBV(nw, 32)
			}
			eq := e.ts.Eq(cur, old)
			if inter {
				if e.branch(eq) {
					e.guaranteeWrite(l, nw, "atomic CompareAndSwap")
					return e.ts.Bool(true)
				}
				return e.ts.Bool(false)
			}
			l.val = e.ts.Ite(eq, nw, cur)
			return eq
		}
	}
	for _, w := range []string{"Int32", "Int64", "Uint32", "Uint64", "Uintptr"} {
		I["sync/atomic.Load"+w] = func(e *Exec, fr *frame, args []Value) Value { return e.load(args[0].(Pointer)) }
		I["sync/atomic.Store"+w] = func(e *Exec, fr *frame, args []Value) Value {
			e.store(args[0].(Pointer), args[1])
			return nil
		}
		I["sync/atomic.Add"+w] = func(e *Exec, fr *frame, args []Value) Value {
			nv := e.ts.Bin(OpAdd, e.load(args[0].(Pointer)).(*Term), args[1].(*Term))
			e.store(args[0].(Pointer), nv)
			return nv
		}
		I["sync/atomic.CompareAndSwap"+w] = func(e *Exec, fr *frame, args []Value) Value {
			cur := e.load(args[0].(Pointer)).(*Term)
			eq := e.ts.Eq(cur, args[1].(*Term))
			e.store(args[0].(Pointer), e.ts.Ite(eq, args[2].(*Term), cur))
			return eq
		}
	}
	// atomic.Pointer[T] / atomic.Value: generic instantiations have bodies calling these
	I["sync/atomic.LoadPointer"] = func(e *Exec, fr *frame, args []Value) Value { return e.load(args[0].(Pointer)) }
	I["sync/atomic.StorePointer"] = func(e *Exec, fr *frame, args []Value) Value {
		e.store(args[0].(Pointer), args[1])
		return nil
	}
	I["sync/atomic.SwapPointer"] = func(e *Exec, fr *frame, args []Value) Value {
		old := e.load(args[0].(Pointer))
		e.store(args[0].(Pointer), args[1])
		return old
	}
	I["sync/atomic.CompareAndSwapPointer"] = func(e *Exec, fr *frame, args []Value) Value {
		cur := e.load(args[0].(Pointer))
		eq := e.equal(cur, args[1])
		if e.branch(eq) {
			e.store(args[0].(Pointer), args[2])
			return e.ts.Bool(true)
		}
		return e.ts.Bool(false)
	}
	I["(*sync/atomic.Value).Load"] = func(e *Exec, fr *frame, args []Value) Value {
		return e.loadLoc(args[0].(Pointer).loc.kids[0])
	}
	I["(*sync/atomic.Value).Store"] = func(e *Exec, fr *frame, args []Value) Value {
		e.storeLoc(args[0].(Pointer).loc.kids[0], args[1])
		return nil
	}

	// ---- sort
	sortImpl := func(e *Exec, fr *frame, args []Value) Value {
		s, ok := args[0].(Iface)
		if !ok {
			e.unsupported("sort.Slice arg")
		}
		sl := s.v.(Slice)
		less := args[1]
		// insertion sort calling the real less closure; each comparison may fork
		for i := 1; i < sl.len; i++ {
			for j := i; j > 0; j-- {
				r := e.callValue(fr, less, []Value{e.ts.BV(64, uint64(j)), e.ts.BV(64, uint64(j-1))}, nil)
				e.curFrame = fr
				if !e.branch(r.(*Term)) {
					break
				}
				a, b := sl.arr.kids[sl.off+j], sl.arr.kids[sl.off+j-1]
				va, vb := e.loadLoc(a), e.loadLoc(b)
				e.storeLoc(a, vb)
				e.storeLoc(b, va)
			}
		}
		return nil
	}
	I["sort.Slice"] = sortImpl
	I["sort.SliceStable"] = sortImpl
	I["sort.Strings"] = func(e *Exec, fr *frame, args []Value) Value {
		sl := args[0].(Slice)
		for i := 1; i < sl.len; i++ {
			for j := i; j > 0; j-- {
				a, b := sl.arr.kids[sl.off+j], sl.arr.kids[sl.off+j-1]
				lt, _ := e.strCompare(a.val.(*Str), b.val.(*Str))
				if !e.branch(lt) {
					break
				}
				a.val, b.val = b.val, a.val
			}
		}
		return nil
	}
	intSort := func(signed bool) intrinsic {
		return func(e *Exec, fr *frame, args []Value) Value {
			sl := args[0].(Slice)
			for i := 1; i < sl.len; i++ {
				for j := i; j > 0; j-- {
					a, b := sl.arr.kids[sl.off+j], sl.arr.kids[sl.off+j-1]
					op := OpUlt
					if signed {
						op = OpSlt
					}
					if !e.branch(e.ts.Cmp(op, a.val.(*Term), b.val.(*Term))) {
						break
					}
					a.val, b.val = b.val, a.val
				}
			}
			return nil
		}
	}
	I["sort.Ints"] = intSort(true)

	// ---- context: never-cancelled contexts
	ctxVal := func(e *Exec) Value { return Iface{t: e.prog.ctxType(), v: Struct{}} }
	I["context.Background"] = func(e *Exec, fr *frame, args []Value) Value { return ctxVal(e) }
	I["context.TODO"] = I["context.Background"]
	cancelFn := &Closure{native: func(e *Exec, args []Value) Value { return nil }}
	withCancel := func(e *Exec, fr *frame, args []Value) Value { return Tuple{args[0], cancelFn} }
	I["context.WithCancel"] = withCancel
	I["context.WithTimeout"] = withCancel
	I["context.WithDeadline"] = withCancel
	I["context.WithoutCancel"] = func(e *Exec, fr *frame, args []Value) Value { return args[0] }
	I["context.WithValue"] = func(e *Exec, fr *frame, args []Value) Value { return args[0] }
	I["context.Cause"] = func(e *Exec, fr *frame, args []Value) Value { return Iface{} }

	// ---- math/bits (pure Go bodies exist, but these are hot and simple)
	I["math/bits.LeadingZeros64"] = func(e *Exec, fr *frame, args []Value) Value {
		x := args[0].(*Term)
		res := e.ts.BV(64, 64)
		for i := 0; i < 64; i++ {
			bit := e.ts.Eq(e.ts.Extract(x, i, i), e.ts.BV(1, 1))
			res = e.ts.Ite(bit, e.ts.BV(64, uint64(63-i)), res)
		}
		return res
	}
	I["math/bits.Len64"] = func(e *Exec, fr *frame, args []Value) Value {
		x := args[0].(*Term)
		res := e.ts.BV(64, 0)
		for i := 0; i < 64; i++ {
			bit := e.ts.Eq(e.ts.Extract(x, i, i), e.ts.BV(1, 1))
			res = e.ts.Ite(bit, e.ts.BV(64, uint64(i+1)), res)
		}
		return res
	}
	I["math/bits.Len32"] = func(e *Exec, fr *frame, args []Value) Value {
		x := args[0].(*Term)
		res := e.ts.BV(64, 0)
		for i := 0; i < 32; i++ {
			bit := e.ts.Eq(e.ts.Extract(x, i, i), e.ts.BV(1, 1))
			res = e.ts.Ite(bit, e.ts.BV(64, uint64(i+1)), res)
		}
		return res
	}
	I["math/bits.Len"] = I["math/bits.Len64"]
	I["math/bits.OnesCount64"] = func(e *Exec, fr *frame, args []Value) Value {
		x := args[0].(*Term)
		res := e.ts.BV(64, 0)
		for i := 0; i < 64; i++ {
			res = e.ts.Bin(OpAdd, res, e.ts.Zext(e.ts.Extract(x, i, i), 63))
		}
		return res
	}
	I["math/bits.TrailingZeros64"] = func(e *Exec, fr *frame, args []Value) Value {
		x := args[0].(*Term)
		res := e.ts.BV(64, 64)
		for i := 63; i >= 0; i-- {
			bit := e.ts.Eq(e.ts.Extract(x, i, i), e.ts.BV(1, 1))
			res = e.ts.Ite(bit, e.ts.BV(64, uint64(i)), res)
		}
		return res
	}

	// ---- reflect.DeepEqual on scalar slices / scalars
	I["reflect.DeepEqual"] = func(e *Exec, fr *frame, args []Value) Value {
		a, b := args[0].(Iface), args[1].(Iface)
		if a.t == nil || b.t == nil {
			return e.ts.Bool(a.t == nil && b.t == nil)
		}
		if !types.Identical(a.t, b.t) {
			return e.ts.Bool(false)
		}
		return e.deepEqual(a.v, b.v)
	}

	// ---- hash/crc32: the arch-specific kernels are assembly; redirect to the package's own
	// portable simpleUpdate (requires hash/crc32 loaded with bodies).
	crcSimple := func(e *Exec, fr *frame, crc Value, tab Value, p Value) Value {
		sp := e.prog.pkgs["hash/crc32"]
		if sp == nil {
			e.unsupported("hash/crc32 must be listed in check.json std")
		}
		r := e.callFunction(fr, sp.Func("simpleUpdate"), []Value{crc, tab, p}, nil)
		e.curFrame = fr
		return r
	}
	ieeeTab := func(e *Exec) Value {
		sp := e.prog.pkgs["hash/crc32"]
		if sp == nil {
			e.unsupported("hash/crc32 must be listed in check.json std")
		}
		g := sp.Var("IEEETable")
		return e.load(Pointer{loc: e.globalLoc(g)})
	}
	// optional abstraction (check.json "abstract_crc": true): CRC-32 as an uninterpreted step function
	// folded over the bytes. Equal (table, state, byte stream) => equal checksum, which is all that
	// code storing and re-verifying its own checksums needs; any property proved for every step
	// function holds for the real CRC. Counterexamples that need CRC-specific facts do not replay.
	crcAbstract := func(e *Exec, crc Value, tab Value, p Value) Value {
		e.ts.DeclareFun("crc32!step", []int{32, 32, 8}, 32)
		st := crc.(*Term)
		tabID := e.ts.BV(32, 0)
		if tp, ok := tab.(Pointer); ok && tp.loc != nil && len(tp.loc.kids) > 1 {
			if t1, ok := tp.loc.kids[1].val.(*Term); ok {
				tabID = t1
			}
		}
		var bs []*Term
		switch pv := p.(type) {
		case Slice:
			bs = e.byteSliceTerms(pv)
		case *Str:
			bs = e.strBytes(pv)
		}
		for _, b := range bs {
			st = e.ts.App("crc32!step", 32, tabID, st, b)
		}
		return st
	}
	crcSimpleReal := crcSimple
	crcSimple = func(e *Exec, fr *frame, crc Value, tab Value, p Value) Value {
		if e.prog.cfg.AbstractCRC {
			return crcAbstract(e, crc, tab, p)
		}
		return crcSimpleReal(e, fr, crc, tab, p)
	}
	I["hash/crc32.ChecksumIEEE"] = func(e *Exec, fr *frame, args []Value) Value {
		return crcSimple(e, fr, e.ts.BV(32, 0), ieeeTab(e), args[0])
	}
	I["hash/crc32.Checksum"] = func(e *Exec, fr *frame, args []Value) Value {
		return crcSimple(e, fr, e.ts.BV(32, 0), args[1], args[0])
	}
	I["hash/crc32.Update"] = func(e *Exec, fr *frame, args []Value) Value {
		return crcSimple(e, fr, args[0], args[1], args[2])
	}

	// ---- strconv (decimal formatting of concrete numbers only)
	I["strconv.Itoa"] = func(e *Exec, fr *frame, args []Value) Value {
		t := args[0].(*Term)
		if !t.IsConst() {
			e.unsupported("strconv.Itoa of symbolic value")
		}
		return &Str{s: fmt.Sprintf("%d", int64(t.Val))}
	}
}

func (p *Program) ctxType() types.Type {
	return p.RegisterOpaque("backgroundCtx", map[string]intrinsic{
		"Err":   func(e *Exec, fr *frame, args []Value) Value { return Iface{} },
		"Done":  func(e *Exec, fr *frame, args []Value) Value { return (*ChanObj)(nil) },
		"Value": func(e *Exec, fr *frame, args []Value) Value { return Iface{} },
		"Deadline": func(e *Exec, fr *frame, args []Value) Value {
			e.unsupported("context.Deadline on the modelled never-cancelled context")
			return nil
		},
	})
}

func (e *Exec) deepEqual(a, b Value) *Term {
	switch av := a.(type) {
	case Slice:
		bv := b.(Slice)
		if (av.arr == nil) != (bv.arr == nil) || av.len != bv.len {
			return e.ts.Bool(false)
		}
		r := e.ts.Bool(true)
		for i := 0; i < av.len; i++ {
			r = e.ts.And(r, e.deepEqual(e.loadLoc(av.arr.kids[av.off+i]), e.loadLoc(bv.arr.kids[bv.off+i])))
		}
		return r
	case Struct:
		bv := b.(Struct)
		r := e.ts.Bool(true)
		for i := range av {
			r = e.ts.And(r, e.deepEqual(av[i], bv[i]))
		}
		return r
	case Array:
		bv := b.(Array)
		r := e.ts.Bool(true)
		for i := range av {
			r = e.ts.And(r, e.deepEqual(av[i], bv[i]))
		}
		return r
	case Pointer:
		bv := b.(Pointer)
		if av.IsNil() || bv.IsNil() {
			return e.ts.Bool(av.IsNil() && bv.IsNil())
		}
		if av.loc == bv.loc {
			return e.ts.Bool(true)
		}
		return e.deepEqual(e.load(av), e.load(bv))
	case *MapObj:
		e.unsupported("reflect.DeepEqual on maps")
	}
	return e.equal(a, b)
}

var _ = sort.Ints

const maxInterference = 6

// interfere applies the rely of a cell registered with zzsym.InterfereMonotonicU64: before every
// access other threads may have raised it to any value >= the last value this thread saw.
func (e *Exec) interfere(l *Loc) bool {
	if e.interf == nil || !e.interf[l] {
		return false
	}
	if e.spec > 0 {
		e.abortSpec("interference")
	}
	last := l.val.(*Term)
	if e.envInputs >= maxInterference {
		return true // bound: no further interference events on this path
	}
	v := e.newInput("env.interference", last.W)
	e.assume(e.ts.Cmp(OpUle, last, v))
	l.val = v
	e.envInputs++
	return true
}

// guaranteeWrite checks the guarantee (strict increase w.r.t. the current value) and performs the write.
func (e *Exec) guaranteeWrite(l *Loc, nw *Term, what string) {
	cur := l.val.(*Term)
	e.assertProp(e.ts.Cmp(OpUlt, cur, nw), "thread-modular guarantee violated: "+what+" does not strictly increase the cell under interference")
	l.val = nw
}
