package main

import (
	"go/types"

	"golang.org/x/tools/go/ssa"
)

// Models needed by the optional C02 MessageDB entries (pkg/db/message opened on the in-memory
// engine overlay). The message DB's channel registry owns a sync.Cond that is only waited on while
// other goroutines hold leases; the single-threaded harness never blocks, so Signal/Broadcast are
// no-ops and Wait is unsupported (it would mean a deadlock).
func init() {
	extraIntrinsics = append(extraIntrinsics, func(p *Program) {
		if p.check == nil || p.check.Property != "C02" {
			return
		}
		p.intrinsics["sync.NewCond"] = func(e *Exec, fr *frame, args []Value) Value {
			var pt *types.Pointer
			for _, b := range fr.fn.Blocks {
				for _, in := range b.Instrs {
					c, ok := in.(*ssa.Call)
					if !ok {
						continue
					}
					if f := c.Call.StaticCallee(); f != nil && f.String() == "sync.NewCond" {
						pt, _ = c.Type().(*types.Pointer)
					}
				}
			}
			if pt == nil {
				e.unsupported("sync.NewCond: result type not found in caller")
			}
			l := e.newLoc(pt.Elem())
			st := pt.Elem().Underlying().(*types.Struct)
			for i := 0; i < st.NumFields(); i++ {
				if st.Field(i).Name() == "L" {
					e.storeLoc(l.kids[i], args[0])
				}
			}
			return Pointer{loc: l}
		}
		// The peer batcher / exchange server read the wall clock only for stage metrics handed to an
		// observer (nil in the harness): the clock is frozen at the zero time.Time.
		p.intrinsics["time.Now"] = func(e *Exec, fr *frame, args []Value) Value {
			sp := e.prog.pkgs["time"]
			if sp == nil {
				e.unsupported("time must be listed in check.json std")
			}
			var t types.Type = sp.Func("Now").Signature.Results().At(0).Type()
			return e.zero(t)
		}
		p.intrinsics["time.Since"] = func(e *Exec, fr *frame, args []Value) Value { return e.ts.BV(64, 0) }
		noop := func(e *Exec, fr *frame, args []Value) Value { return nil }
		p.intrinsics["(*sync.Cond).Broadcast"] = noop
		p.intrinsics["(*sync.Cond).Signal"] = noop
		p.intrinsics["(*sync.Cond).Wait"] = func(e *Exec, fr *frame, args []Value) Value {
			e.unsupported("sync.Cond.Wait in a single-threaded harness (would block forever)")
			return nil
		}
	})
}
