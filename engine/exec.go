package main

import (
	"fmt"
	"go/constant"
	"go/token"
	"go/types"
	"sort"
	"strings"
	"unicode/utf8"

	"golang.org/x/tools/go/ssa"
)

type pathEndKind int

const (
	endDone pathEndKind = iota
	endInfeasible
	endUnwind
	endUnsupported
	endUnknown // solver unknown on a deciding query
	endDeadlock
)

type pathEnd struct {
	kind pathEndKind
	msg  string
}

// goPanic is a Go-level panic propagating through interpreted frames.
type goPanic struct {
	val   Value // Iface
	descr string
}

type deferred struct {
	fn   Value
	args []Value
	call *ssa.CallCommon
}

type frame struct {
	fn           *ssa.Function
	caller       *frame
	env          []Value
	idx          map[ssa.Value]int
	block        *ssa.BasicBlock
	prev         *ssa.BasicBlock
	defers       []deferred
	result       Value
	panicking    *goPanic
	recovered    bool
	visits       []int32
	depth        int
	skipPhis     bool
	specReturned bool
}

type symInput struct {
	Key  string // name#k
	Term *Term
}

type violation struct {
	Msg    string
	Model  map[string]uint64
	Inputs []string // keys in program order
	Known  string   // tag of known finding, if matched
	Pos    string
}

type observation struct {
	name  string
	terms []*Term
}

// Exec executes one path.
type Exec struct {
	prog     *Program
	ts       *TermStore
	solver   *Solver
	printer  *smtPrinter
	declared map[string]bool

	prefix []uint64 // decisions to replay
	trace  []uint64 // decisions taken
	forced []bool

	pc            []*Term
	globals       map[*ssa.Global]*Loc
	initDone      map[*ssa.Package]bool
	inInit        int
	frozenGlobals bool
	globalWrites  int
	locID         int
	objID         int
	symCount      map[string]int
	inputs        []symInput
	steps         int
	reached       map[string]bool
	observes      []observation
	violations    []violation
	asserts       int // assertion queries discharged (unsat)
	assertsSeen   int
	warnings      map[string]int
	funcsUsed     map[*ssa.Function]bool
	unwind        int
	curFrame      *frame
	hooks         map[string]*Closure // stub redirects installed by harness
	concrete      map[string]uint64   // concrete model mode (self-test): key -> value
	timeNow       *Term
	opaqueErrs    int
	lastPos       token.Pos
	entryName     string
	tagStack      []string
	spec          int
	specStart     int
	specObjStart  int
	specSteps     int
	interf        map[*Loc]bool
	envInputs     int
	hashApps      []hashApp
	known         map[*Term]bool
	jsonBlobs     []jsonBlob
	jsonDecs      map[*Loc]*jsonDecState
}

func (e *Exec) unsupported(msg string) {
	pos := ""
	if e.curFrame != nil {
		pos = " in " + e.curFrame.fn.String() + " at " + e.prog.fset.Position(e.lastPos).String()
	}
	panic(&pathEnd{kind: endUnsupported, msg: msg + pos})
}

func (e *Exec) goPanicStr(s string) {
	if e.spec > 0 {
		e.abortSpec("panic: " + s)
	}
	panic(&goPanic{val: Iface{t: e.prog.runtimeErrType, v: &Str{s: s}}, descr: s})
}

// ---------------------------------------------------------------- solver sync

func (e *Exec) declareVar(t *Term) {
	if e.declared[t.Name] {
		return
	}
	e.declared[t.Name] = true
	e.solver.Send(fmt.Sprintf("(declare-const %s %s)\n", t.Name, sortStr(t.W)))
}

func (e *Exec) flushDecls() {
	// variables
	for _, v := range e.ts.vars {
		e.declareVar(v)
	}
	for _, n := range e.ts.funOrd {
		if !e.declared["fun:"+n] {
			e.declared["fun:"+n] = true
			e.solver.Send(e.ts.funs[n] + "\n")
		}
	}
}

func (e *Exec) defineTerm(t *Term) string {
	if e.solver.Dead {
		e.resync()
	}
	e.flushDecls()
	var sb strings.Builder
	e.printer.out = &sb
	e.printer.lemmas = e.printer.lemmas[:0]
	r := e.printer.define(t)
	if sb.Len() > 0 {
		e.solver.Send(sb.String())
	}
	for _, l := range e.printer.lemmas {
		e.solver.Send(l)
	}
	return r
}

// resync restarts a killed solver and re-sends the path context.
func (e *Exec) resync() {
	e.solver.Revive()
	e.solver.Send("(push 1)\n")
	e.declared = map[string]bool{}
	e.printer.defined = map[int]bool{}
	pcs := e.pc
	e.pc = nil
	for _, t := range pcs {
		e.assertPC(t)
	}
}

// learn records literals implied by an asserted path-condition conjunct.
func (e *Exec) learn(t *Term, val bool) {
	if e.known == nil {
		e.known = map[*Term]bool{}
	}
	e.known[t] = val
	switch {
	case t.Op == OpNot:
		e.learn(t.Args[0], !val)
	case t.Op == OpAnd && val:
		e.learn(t.Args[0], true)
		e.learn(t.Args[1], true)
	case t.Op == OpOr && !val:
		e.learn(t.Args[0], false)
		e.learn(t.Args[1], false)
	}
}

func (e *Exec) assertPC(t *Term) {
	if t.IsTrue() {
		return
	}
	e.learn(t, true)
	e.pc = append(e.pc, t)
	if e.solver == nil {
		return
	}
	r := e.defineTerm(t)
	e.solver.Send("(assert " + r + ")\n")
}

// checkWith asks whether pc ∧ t is satisfiable.
func (e *Exec) checkWith(t *Term, timeoutMs int) string {
	if t.IsFalse() {
		e.solver.Send("(push 1)\n") // keep push/pop balanced: callers always pop
		return "unsat"
	}
	r := e.defineTerm(t)
	e.solver.Send("(push 1)\n(assert " + r + ")\n")
	res := e.solver.CheckSat(timeoutMs)
	e.prog.stats.addQuery()
	if res == "error" {
		e.solver.Send("(pop 1)\n")
		panic(&pathEnd{kind: endUnknown, msg: "solver error: " + strings.Join(e.solver.Errors, "; ")})
	}
	return res // caller must call popCheck
}

func (e *Exec) popCheck() {
	if e.solver.Dead {
		return
	}
	e.solver.Send("(pop 1)\n")
}

// ---------------------------------------------------------------- decisions

// branch decides a symbolic condition for this path, forking when both sides are feasible.
func (e *Exec) branch(c *Term) bool {
	if c.IsConst() {
		return c.Val == 1
	}
	if e.concrete != nil {
		e.unsupported("non-constant branch in concrete mode")
	}
	if v, ok := e.known[c]; ok {
		return v
	}
	if e.spec > 0 {
		e.abortSpec("branch")
	}
	pos := len(e.trace)
	if pos < len(e.prefix) {
		d := e.prefix[pos]
		e.trace = append(e.trace, d)
		if d == 1 {
			e.assertPC(c)
		} else {
			e.assertPC(e.ts.Not(c))
		}
		return d == 1
	}
	// new decision point
	r1 := e.checkWith(c, e.prog.cfg.BranchTimeoutMs)
	e.popCheck()
	if r1 == "unsat" {
		// only false side feasible (path itself is feasible by invariant)
		e.trace = append(e.trace, 0)
		e.assertPC(e.ts.Not(c))
		return false
	}
	r2 := e.checkWith(e.ts.Not(c), e.prog.cfg.BranchTimeoutMs)
	e.popCheck()
	if r2 == "unsat" {
		e.trace = append(e.trace, 1)
		e.assertPC(c)
		return true
	}
	if r1 == "unknown" {
		e.prog.stats.addUnknownBranch()
	}
	if r2 == "unknown" {
		e.prog.stats.addUnknownBranch()
	}
	// both (possibly) feasible: fork
	e.prog.noteFork(e.prog.fset.Position(e.lastPos).String())
	alt := make([]uint64, pos+1)
	copy(alt, e.trace)
	alt[pos] = 0
	e.prog.push(alt)
	e.trace = append(e.trace, 1)
	e.assertPC(c)
	return true
}

// concretize picks a concrete value for t, forking over all feasible values (<= maxVals).
func (e *Exec) concretize(t *Term, why string) uint64 {
	if t.IsConst() {
		return t.Val
	}
	if e.concrete != nil {
		e.unsupported("non-constant concretisation in concrete mode")
	}
	if e.spec > 0 {
		e.abortSpec("concretize")
	}
	pos := len(e.trace)
	if pos < len(e.prefix) {
		d := e.prefix[pos]
		e.trace = append(e.trace, d)
		e.assertPC(e.ts.Eq(t, e.ts.BV(t.W, d)))
		return d
	}
	maxVals := e.prog.cfg.MaxConcretize
	var vals []uint64
	ref := e.defineTerm(t)
	e.solver.Send("(push 1)\n")
	for {
		res := e.solver.CheckSat(e.prog.cfg.AssertTimeoutMs)
		e.prog.stats.addQuery()
		if res == "unsat" {
			break
		}
		if res != "sat" {
			e.solver.Send("(pop 1)\n")
			panic(&pathEnd{kind: endUnknown, msg: "solver " + res + " while concretising " + why})
		}
		e.solver.Send("(get-value (" + ref + "))\n")
		sx := e.solver.readSexp()
		toks := tokenize(sx)
		// ((ref val))
		var v uint64
		vt := toks[3]
		if vt == "(" {
			fmt.Sscanf(strings.TrimPrefix(toks[5], "bv"), "%d", &v)
		} else if strings.HasPrefix(vt, "#x") {
			fmt.Sscanf(vt[2:], "%x", &v)
		} else if strings.HasPrefix(vt, "#b") {
			fmt.Sscanf(vt[2:], "%b", &v)
		}
		vals = append(vals, v)
		if len(vals) > maxVals {
			e.solver.Send("(pop 1)\n")
			panic(&pathEnd{kind: endUnwind, msg: fmt.Sprintf("more than %d feasible values while concretising %s", maxVals, why)})
		}
		e.solver.Send(fmt.Sprintf("(assert (not (= %s %s)))\n", ref, constStr(e.ts.BV(t.W, v))))
	}
	e.solver.Send("(pop 1)\n")
	if len(vals) == 0 {
		panic(&pathEnd{kind: endInfeasible, msg: "no feasible value"})
	}
	sort.Slice(vals, func(i, j int) bool { return vals[i] < vals[j] })
	for _, v := range vals[1:] {
		alt := make([]uint64, pos+1)
		copy(alt, e.trace)
		alt[pos] = v
		e.prog.push(alt)
	}
	e.trace = append(e.trace, vals[0])
	e.assertPC(e.ts.Eq(t, e.ts.BV(t.W, vals[0])))
	return vals[0]
}

// choose forks over n alternatives unconditionally (select cases, map orders).
func (e *Exec) choose(n int) int {
	if n <= 1 {
		return 0
	}
	if e.spec > 0 {
		e.abortSpec("choose")
	}
	pos := len(e.trace)
	if pos < len(e.prefix) {
		d := e.prefix[pos]
		e.trace = append(e.trace, d)
		return int(d)
	}
	for i := 1; i < n; i++ {
		alt := make([]uint64, pos+1)
		copy(alt, e.trace)
		alt[pos] = uint64(i)
		e.prog.push(alt)
	}
	e.trace = append(e.trace, 0)
	return 0
}

func (e *Exec) assume(c *Term) {
	if c.IsTrue() {
		return
	}
	if c.IsFalse() {
		panic(&pathEnd{kind: endInfeasible, msg: "assume false"})
	}
	if e.concrete != nil {
		e.unsupported("non-constant assume in concrete mode")
	}
	// keep the invariant "path condition is satisfiable"
	res := e.checkWith(c, e.prog.cfg.AssertTimeoutMs)
	e.popCheck()
	if res == "unsat" {
		panic(&pathEnd{kind: endInfeasible, msg: "assume infeasible"})
	}
	e.assertPC(c)
}

func (e *Exec) assertProp(c *Term, msg string) {
	e.assertsSeen++
	if c.IsTrue() {
		e.asserts++
		return
	}
	if e.concrete != nil {
		if c.IsConst() {
			e.violations = append(e.violations, violation{Msg: msg})
			return
		}
		e.unsupported("non-constant assert in concrete mode")
	}
	res := e.checkWith(e.ts.Not(c), e.prog.cfg.AssertTimeoutMs)
	switch res {
	case "unsat":
		e.popCheck()
		e.asserts++
		e.assertPC(c)
	case "sat":
		v := violation{Msg: msg, Pos: e.prog.fset.Position(e.lastPos).String()}
		v.Model, v.Inputs = e.modelOfInputs()
		e.popCheck()
		e.violations = append(e.violations, v)
		// continue on the side where the assertion holds, if any
		r2 := e.checkWith(c, e.prog.cfg.BranchTimeoutMs)
		e.popCheck()
		if r2 == "unsat" {
			panic(&pathEnd{kind: endDone, msg: "assertion always fails here"})
		}
		e.assertPC(c)
	default:
		e.popCheck()
		panic(&pathEnd{kind: endUnknown, msg: "solver " + res + " on assertion: " + msg})
	}
}

func (e *Exec) modelOfInputs() (map[string]uint64, []string) {
	names := make([]string, 0, len(e.inputs))
	keys := make([]string, 0, len(e.inputs))
	for _, in := range e.inputs {
		if in.Term.Op != OpVar {
			continue
		}
		names = append(names, in.Term.Name)
		keys = append(keys, in.Key)
	}
	m := map[string]uint64{}
	if len(names) == 0 {
		return m, keys
	}
	vals, err := e.solver.GetValues(names)
	if err != nil {
		panic(&pathEnd{kind: endUnknown, msg: "model: " + err.Error()})
	}
	for i, n := range names {
		m[keys[i]] = vals[n]
	}
	return m, keys
}

// newInput creates (or, in concrete mode, looks up) a named nondeterministic value.
func (e *Exec) newInput(name string, w int) *Term {
	k := e.symCount[name]
	e.symCount[name] = k + 1
	key := fmt.Sprintf("%s#%d", name, k)
	if e.concrete != nil {
		v, ok := e.concrete[key]
		if !ok {
			e.unsupported("concrete model lacks " + key)
		}
		if w == 0 {
			return e.ts.Bool(v != 0)
		}
		return e.ts.BV(w, v)
	}
	t := e.ts.Var("|in!"+key+"|", w)
	e.inputs = append(e.inputs, symInput{Key: key, Term: t})
	return t
}

// ---------------------------------------------------------------- running frames

func (e *Exec) get(fr *frame, v ssa.Value) Value {
	switch v := v.(type) {
	case *ssa.Const:
		return e.constValue(v)
	case *ssa.Global:
		return Pointer{loc: e.globalLoc(v)}
	case *ssa.Function:
		return e.funcValue(v)
	case *ssa.Builtin:
		return &Closure{bi: v}
	}
	if i, ok := fr.idx[v]; ok {
		return fr.env[i]
	}
	panic(fmt.Sprintf("get: no value for %T %s in %s", v, v.Name(), fr.fn))
}

func (e *Exec) funcValue(fn *ssa.Function) Value {
	return &Closure{fn: fn}
}

func (e *Exec) constValue(c *ssa.Const) Value {
	t := c.Type()
	if c.Value == nil {
		if _, isTP := t.(*types.TypeParam); isTP {
			e.unsupported("const of type param")
		}
		return e.zero(t)
	}
	switch u := t.Underlying().(type) {
	case *types.Basic:
		switch {
		case u.Info()&types.IsBoolean != 0:
			return e.ts.Bool(constant.BoolVal(c.Value))
		case u.Info()&types.IsString != 0:
			if c.Value.Kind() == constant.String {
				return &Str{s: constant.StringVal(c.Value)}
			}
			return &Str{s: string(rune(c.Int64()))}
		case u.Info()&types.IsFloat != 0:
			f, _ := constant.Float64Val(constant.ToFloat(c.Value))
			return Float(f)
		case u.Info()&types.IsComplex != 0:
			return Complex(c.Complex128())
		case u.Info()&types.IsInteger != 0:
			w, signed, _ := intWidth(t)
			if signed {
				return e.ts.BV(w, uint64(c.Int64()))
			}
			return e.ts.BV(w, c.Uint64())
		}
	}
	e.unsupported("const of type " + t.String())
	return nil
}

func (e *Exec) globalLoc(g *ssa.Global) *Loc {
	if l, ok := e.globals[g]; ok {
		return l
	}
	// a package that was not loaded from source has no init body: its variables would silently read
	// as zero values (e.g. a nil sentinel error) — refuse instead
	if g.Pkg != nil {
		if ini := g.Pkg.Func("init"); ini == nil || ini.Blocks == nil {
			// sentinel errors of packages not loaded from source: distinct opaque non-nil errors
			pt := g.Type().(*types.Pointer)
			if types.Identical(pt.Elem(), types.Universe.Lookup("error").Type()) &&
				(strings.HasPrefix(g.Name(), "Err") || g.Name() == "EOF" || g.Name() == "Canceled" || g.Name() == "DeadlineExceeded") {
				l := e.allocGlobal(g)
				l.val = e.newOpaqueErr(g.String(), nil)
				return l
			}
			e.unsupported("read of package-level variable " + g.String() + ": list its package in check.json packages/std")
		}
	}
	// run the owning package's init first (lazily)
	if g.Pkg != nil {
		e.ensureInit(g.Pkg)
		if l, ok := e.globals[g]; ok {
			return l
		}
	}
	return e.allocGlobal(g)
}

func (e *Exec) allocGlobal(g *ssa.Global) *Loc {
	if l, ok := e.globals[g]; ok {
		return l
	}
	pt := g.Type().(*types.Pointer)
	l := e.newLoc(pt.Elem())
	l.global = g
	e.globals[g] = l
	return l
}

func (e *Exec) ensureInit(p *ssa.Package) {
	if e.initDone[p] {
		return
	}
	if e.spec > 0 {
		e.abortSpec("package init")
	}
	e.initDone[p] = true
	for _, m := range p.Members {
		if g, ok := m.(*ssa.Global); ok {
			e.allocGlobal(g)
		}
	}
	initFn := p.Func("init")
	if initFn == nil || initFn.Blocks == nil {
		return
	}
	if e.prog.cfg.SkipInit[p.Pkg.Path()] {
		return
	}
	e.inInit++
	saved := e.curFrame
	func() {
		defer func() {
			e.inInit--
			e.curFrame = saved
		}()
		e.callFunction(nil, initFn, nil, nil)
	}()
}

const maxDepth = 400

func (e *Exec) callFunction(caller *frame, fn *ssa.Function, args []Value, env []Value) Value {
	// the wall clock: a frozen, zero instant unless a check installs its own model
	// (code whose behaviour depends on elapsed time must take its clock from the harness)
	if fn.Pkg != nil && fn.Pkg.Pkg.Path() == "time" && fn.Signature.Recv() == nil && e.prog.intrinsics[fn.String()] == nil {
		switch fn.Name() {
		case "Now":
			e.warnings["time.Now() is a frozen instant (2023-11-14T22:13:20Z)"]++
			z := e.zero(fn.Signature.Results().At(0).Type())
			if st, ok := z.(Struct); ok && len(st) == 3 {
				// time.Time{wall: 0, ext: seconds since year 1, loc: nil (UTC)}
				st[1] = e.ts.BV(64, 62135596800+1700000000)
			}
			return z
		case "Since", "Until":
			e.warnings["time.Since/Until return 0 (frozen clock)"]++
			return e.ts.BV(64, 0)
		}
	}
	if fn.Blocks == nil && fn.String() == "sync.NewCond" {
		pt := fn.Signature.Results().At(0).Type().(*types.Pointer)
		l := e.newLoc(pt.Elem())
		if st, ok := pt.Elem().Underlying().(*types.Struct); ok {
			for i := 0; i < st.NumFields(); i++ {
				if st.Field(i).Name() == "L" {
					e.storeLoc(l.kids[i], args[0])
				}
			}
		}
		return Pointer{loc: l}
	}
	if fn.Blocks == nil {
		return e.callExternal(caller, fn, args)
	}
	if h := e.prog.intrinsics[fn.String()]; h != nil && !e.prog.cfg.NoIntrinsic[fn.String()] {
		if e.spec > 0 && !pureIntrinsic(fn.String()) {
			e.abortSpec("impure intrinsic " + fn.String())
		}
		return h(e, caller, args)
	}
	if fn.Name() == "init" && fn.Pkg != nil && fn.Signature.Recv() == nil && len(fn.Params) == 0 && fn.Parent() == nil {
		if fn == fn.Pkg.Func("init") {
			if e.initDone[fn.Pkg] && caller != nil {
				return nil
			}
			if e.prog.cfg.SkipInit[fn.Pkg.Pkg.Path()] {
				e.initDone[fn.Pkg] = true
				return nil
			}
			e.initDone[fn.Pkg] = true
		}
	}
	e.funcsUsed[fn] = true
	info := e.prog.funcInfo(fn)
	fr := &frame{fn: fn, caller: caller, env: make([]Value, info.n), idx: info.idx}
	if caller != nil {
		fr.depth = caller.depth + 1
	}
	if fr.depth > maxDepth {
		panic(&pathEnd{kind: endUnwind, msg: "call depth exceeded in " + fn.String()})
	}
	if len(args) != len(fn.Params) {
		panic(fmt.Sprintf("call %s: %d args for %d params", fn, len(args), len(fn.Params)))
	}
	for i, p := range fn.Params {
		fr.env[fr.idx[p]] = args[i]
	}
	for i, fv := range fn.FreeVars {
		fr.env[fr.idx[fv]] = env[i]
	}
	saved := e.curFrame
	e.curFrame = fr
	e.runFrame(fr)
	e.curFrame = saved
	return fr.result
}

func (e *Exec) runFrame(fr *frame) {
	fr.block = fr.fn.Blocks[0]
	for {
		normal := e.runBlocks(fr)
		if normal {
			return
		}
		// a Go panic is propagating: fr.panicking set; defers have run.
		if fr.recovered {
			fr.panicking = nil
			fr.recovered = false
			if fr.fn.Recover != nil {
				fr.block = fr.fn.Recover
				fr.prev = nil
				continue
			}
			// no named results: return zero values
			res := fr.fn.Signature.Results()
			switch res.Len() {
			case 0:
				fr.result = nil
			case 1:
				fr.result = e.zero(res.At(0).Type())
			default:
				fr.result = e.zero(res)
			}
			return
		}
		gp := fr.panicking
		e.curFrame = fr.caller
		panic(gp)
	}
}

// runBlocks runs until return (true) or a Go panic was caught and defers were run (false).
func (e *Exec) runBlocks(fr *frame) (normal bool) {
	defer func() {
		if normal {
			return
		}
		r := recover()
		if r == nil {
			return
		}
		gp, ok := r.(*goPanic)
		if !ok {
			panic(r)
		}
		e.curFrame = fr
		fr.panicking = gp
		e.runDefers(fr)
	}()
	for {
		if fr.visits == nil {
			fr.visits = make([]int32, len(fr.fn.Blocks))
		}
		fr.visits[fr.block.Index]++
		if e.inInit == 0 && int(fr.visits[fr.block.Index]) > e.unwind {
			panic(&pathEnd{kind: endUnwind, msg: fmt.Sprintf("unwind bound %d exceeded in %s block %d", e.unwind, fr.fn, fr.block.Index)})
		}
		skip := fr.skipPhis
		fr.skipPhis = false
	instrs:
		for _, ins := range fr.block.Instrs {
			if skip {
				if _, isPhi := ins.(*ssa.Phi); isPhi {
					continue
				}
			}
			e.steps++
			if e.steps > e.prog.cfg.MaxSteps {
				panic(&pathEnd{kind: endUnwind, msg: "step budget exceeded"})
			}
			if p := ins.Pos(); p != token.NoPos {
				e.lastPos = p
			}
			switch e.visitInstr(fr, ins) {
			case kReturn:
				normal = true
				return true
			case kJump:
				break instrs
			}
		}
	}
}

func (e *Exec) runDefers(fr *frame) {
	for len(fr.defers) > 0 {
		d := fr.defers[len(fr.defers)-1]
		fr.defers = fr.defers[:len(fr.defers)-1]
		e.callValue(fr, d.fn, d.args, d.call)
	}
}

type cont int

const (
	kNext cont = iota
	kReturn
	kJump
)

// callValue calls a func value (closure / builtin / intrinsic).
func (e *Exec) callValue(fr *frame, fv Value, args []Value, cc *ssa.CallCommon) Value {
	cl, ok := fv.(*Closure)
	if !ok || cl == nil {
		e.goPanicStr("runtime error: invalid memory address or nil pointer dereference (nil func call)")
	}
	if cl.native != nil {
		return cl.native(e, args)
	}
	if cl.bi != nil {
		return e.callBuiltin(fr, cl.bi, args, cc)
	}
	if cl.bound != nil {
		args = append([]Value{cl.bound}, args...)
	}
	return e.callFunction(fr, cl.fn, args, cl.env)
}

func (e *Exec) lookupMethod(t types.Type, m *types.Func) *ssa.Function {
	ms := e.prog.ssaProg.MethodSets.MethodSet(t)
	sel := ms.Lookup(m.Pkg(), m.Name())
	if sel == nil {
		return nil
	}
	return e.prog.ssaProg.MethodValue(sel)
}

func (e *Exec) prepareCall(fr *frame, cc *ssa.CallCommon) (fv Value, args []Value) {
	if cc.IsInvoke() {
		recv := e.get(fr, cc.Value)
		ifc, ok := recv.(Iface)
		if !ok {
			panic(fmt.Sprintf("invoke on %T", recv))
		}
		if ifc.t == nil {
			e.goPanicStr("runtime error: invalid memory address or nil pointer dereference (method call on nil interface)")
		}
		if h := e.prog.opaqueMethod(ifc.t, cc.Method.Name()); h != nil {
			a := []Value{ifc.v}
			for _, x := range cc.Args {
				a = append(a, e.get(fr, x))
			}
			return &Closure{native: func(e *Exec, args []Value) Value { return h(e, fr, args) }}, a
		}
		fn := e.lookupMethod(ifc.t, cc.Method)
		if fn == nil {
			e.unsupported("no method " + cc.Method.Name() + " on " + ifc.t.String())
		}
		args = append(args, ifc.v)
		fv = &Closure{fn: fn}
	} else {
		fv = e.get(fr, cc.Value)
	}
	for _, a := range cc.Args {
		args = append(args, copyVal(e.get(fr, a)))
	}
	return
}

func (e *Exec) visitInstr(fr *frame, ins ssa.Instruction) cont {
	switch ins := ins.(type) {
	case *ssa.DebugRef:
	case *ssa.UnOp:
		fr.env[fr.idx[ins]] = e.unop(fr, ins)
	case *ssa.BinOp:
		fr.env[fr.idx[ins]] = e.binop(ins.Op, ins.X.Type(), e.get(fr, ins.X), e.get(fr, ins.Y), ins.Y.Type())
	case *ssa.Call:
		fv, args := e.prepareCall(fr, &ins.Call)
		fr.env[fr.idx[ins]] = e.callValue(fr, fv, args, &ins.Call)
		e.curFrame = fr
	case *ssa.ChangeInterface:
		fr.env[fr.idx[ins]] = e.get(fr, ins.X)
	case *ssa.ChangeType:
		fr.env[fr.idx[ins]] = e.get(fr, ins.X)
	case *ssa.Convert:
		fr.env[fr.idx[ins]] = e.convert(ins.X.Type(), ins.Type(), e.get(fr, ins.X))
	case *ssa.MultiConvert:
		e.unsupported("MultiConvert")
	case *ssa.SliceToArrayPointer:
		s := e.get(fr, ins.X).(Slice)
		at := ins.Type().(*types.Pointer).Elem().Underlying().(*types.Array)
		n := int(at.Len())
		if s.len < n {
			e.goPanicStr("runtime error: cannot convert slice to array pointer: length too short")
		}
		if s.arr == nil {
			fr.env[fr.idx[ins]] = Pointer{}
		} else {
			fr.env[fr.idx[ins]] = Pointer{loc: e.subArray(s.arr, s.off, n, at)}
		}
	case *ssa.MakeInterface:
		fr.env[fr.idx[ins]] = Iface{t: ins.X.Type(), v: copyVal(e.get(fr, ins.X))}
	case *ssa.Extract:
		fr.env[fr.idx[ins]] = e.get(fr, ins.Tuple).(Tuple)[ins.Index]
	case *ssa.Slice:
		fr.env[fr.idx[ins]] = e.sliceOp(fr, ins)
	case *ssa.Return:
		switch len(ins.Results) {
		case 0:
		case 1:
			fr.result = copyVal(e.get(fr, ins.Results[0]))
		default:
			res := make(Tuple, len(ins.Results))
			for i, r := range ins.Results {
				res[i] = copyVal(e.get(fr, r))
			}
			fr.result = res
		}
		return kReturn
	case *ssa.RunDefers:
		e.runDefers(fr)
	case *ssa.Panic:
		v := e.get(fr, ins.X)
		if e.spec > 0 {
			e.abortSpec("panic")
		}
		panic(&goPanic{val: v, descr: e.describePanic(v)})
	case *ssa.Send:
		e.chanSend(e.get(fr, ins.Chan), e.get(fr, ins.X))
	case *ssa.Store:
		e.store(e.get(fr, ins.Addr).(Pointer), copyVal(e.get(fr, ins.Val)))
	case *ssa.If:
		c := e.get(fr, ins.Cond).(*Term)
		if !c.IsConst() {
			if e.trySpeculate(fr, ins, c) {
				if fr.specReturned {
					return kReturn
				}
				return kJump
			}
		}
		succ := 1
		if e.branch(c) {
			succ = 0
		}
		fr.prev, fr.block = fr.block, fr.block.Succs[succ]
		return kJump
	case *ssa.Jump:
		fr.prev, fr.block = fr.block, fr.block.Succs[0]
		return kJump
	case *ssa.Defer:
		fv, args := e.prepareCall(fr, &ins.Call)
		fr.defers = append(fr.defers, deferred{fn: fv, args: args, call: &ins.Call})
	case *ssa.Go:
		e.unsupported("go statement")
	case *ssa.MakeChan:
		n := e.concretize(e.toInt(e.get(fr, ins.Size)), "chan size")
		e.objID++
		fr.env[fr.idx[ins]] = &ChanObj{cap: int(n), et: ins.Type().Underlying().(*types.Chan).Elem(), id: e.objID}
	case *ssa.Alloc:
		t := ins.Type().Underlying().(*types.Pointer).Elem()
		if ins.Heap {
			fr.env[fr.idx[ins]] = Pointer{loc: e.newLoc(t)}
		} else {
			// stack allocs are re-zeroed on each execution
			if old := fr.env[fr.idx[ins]]; old != nil {
				e.storeLoc(old.(Pointer).loc, e.zero(t))
			} else {
				fr.env[fr.idx[ins]] = Pointer{loc: e.newLoc(t)}
			}
		}
	case *ssa.MakeSlice:
		l := int(int64(e.concretize(e.toInt(e.get(fr, ins.Len)), "make len")))
		c := int(int64(e.concretize(e.toInt(e.get(fr, ins.Cap)), "make cap")))
		if l < 0 || c < l {
			e.goPanicStr("runtime error: makeslice: len out of range")
		}
		if c > e.prog.cfg.MaxAlloc {
			panic(&pathEnd{kind: endUnwind, msg: fmt.Sprintf("make([]T, %d) exceeds MaxAlloc", c)})
		}
		et := ins.Type().Underlying().(*types.Slice).Elem()
		e.noteAlloc(c)
		fr.env[fr.idx[ins]] = Slice{arr: e.newArrayLoc(et, c), off: 0, len: l, cap: c}
	case *ssa.MakeMap:
		mt := ins.Type().Underlying().(*types.Map)
		e.objID++
		fr.env[fr.idx[ins]] = &MapObj{kt: mt.Key(), vt: mt.Elem(), id: e.objID}
	case *ssa.Range:
		fr.env[fr.idx[ins]] = e.rangeOp(e.get(fr, ins.X))
	case *ssa.Next:
		fr.env[fr.idx[ins]] = e.nextOp(fr, ins)
	case *ssa.FieldAddr:
		p := e.get(fr, ins.X).(Pointer)
		switch {
		case p.loc != nil:
			fr.env[fr.idx[ins]] = Pointer{loc: p.loc.kids[ins.Field]}
		case p.sym != nil:
			el := make([]*Loc, len(p.sym.elems))
			for i, l := range p.sym.elems {
				el[i] = l.kids[ins.Field]
			}
			fr.env[fr.idx[ins]] = Pointer{sym: &symPtr{elems: el, idx: p.sym.idx}}
		default:
			e.goPanicStr("runtime error: invalid memory address or nil pointer dereference")
		}
	case *ssa.Field:
		fr.env[fr.idx[ins]] = e.get(fr, ins.X).(Struct)[ins.Field]
	case *ssa.IndexAddr:
		fr.env[fr.idx[ins]] = e.indexAddr(fr, ins)
	case *ssa.Index:
		fr.env[fr.idx[ins]] = e.indexOp(fr, ins)
	case *ssa.Lookup:
		fr.env[fr.idx[ins]] = e.lookupOp(fr, ins)
	case *ssa.MapUpdate:
		m, _ := e.get(fr, ins.Map).(*MapObj)
		if m == nil {
			e.goPanicStr("assignment to entry in nil map")
		}
		e.mapUpdate(m, copyVal(e.get(fr, ins.Key)), copyVal(e.get(fr, ins.Value)))
	case *ssa.TypeAssert:
		fr.env[fr.idx[ins]] = e.typeAssert(fr, ins)
	case *ssa.MakeClosure:
		var env []Value
		for _, b := range ins.Bindings {
			env = append(env, e.get(fr, b))
		}
		e.objID++
		fr.env[fr.idx[ins]] = &Closure{fn: ins.Fn.(*ssa.Function), env: env, id: e.objID}
	case *ssa.Phi:
		for i, pred := range ins.Block().Preds {
			if fr.prev == pred {
				fr.env[fr.idx[ins]] = e.get(fr, ins.Edges[i])
				break
			}
		}
	case *ssa.Select:
		fr.env[fr.idx[ins]] = e.selectOp(fr, ins)
	default:
		e.unsupported(fmt.Sprintf("instruction %T", ins))
	}
	return kNext
}

func (e *Exec) noteAlloc(n int) {
	if n > e.prog.stats.maxAlloc {
		e.prog.stats.setMaxAlloc(n)
	}
}

func (e *Exec) describePanic(v Value) string {
	if ifc, ok := v.(Iface); ok {
		if s, ok := ifc.v.(*Str); ok {
			if cs, ok := s.Concrete(); ok {
				return cs
			}
			return "<symbolic string>"
		}
		if ifc.t != nil {
			return "panic(" + ifc.t.String() + ")"
		}
		return "panic(nil)"
	}
	return fmt.Sprintf("panic(%T)", v)
}

// subArray creates an array Loc view aliasing elements [off, off+n) of arr.
func (e *Exec) subArray(arr *Loc, off, n int, at types.Type) *Loc {
	if off == 0 && n == len(arr.kids) {
		return arr
	}
	e.locID++
	return &Loc{kids: arr.kids[off : off+n], typ: at, id: e.locID, obj: arr.obj}
}

func (e *Exec) toInt(v Value) *Term {
	t, ok := v.(*Term)
	if !ok {
		e.unsupported(fmt.Sprintf("expected integer, got %T", v))
	}
	return t
}

// toInt64 resizes an integer term of static type ty to 64 bits.
func (e *Exec) toIdx(v Value, ty types.Type) *Term {
	t := e.toInt(v)
	_, signed, _ := intWidth(ty)
	return e.ts.Resize(t, 64, signed)
}

func (e *Exec) unop(fr *frame, ins *ssa.UnOp) Value {
	x := e.get(fr, ins.X)
	switch ins.Op {
	case token.MUL:
		p, ok := x.(Pointer)
		if !ok {
			e.unsupported(fmt.Sprintf("deref of %T", x))
		}
		return e.load(p)
	case token.NOT:
		return e.ts.Not(x.(*Term))
	case token.SUB:
		switch xv := x.(type) {
		case *Term:
			return e.ts.Neg(xv)
		case Float:
			return -xv
		}
	case token.XOR:
		return e.ts.BvNot(x.(*Term))
	case token.ARROW:
		return e.chanRecv(x, ins.CommaOk, ins.Type())
	}
	e.unsupported("unop " + ins.Op.String())
	return nil
}

func (e *Exec) binop(op token.Token, xt types.Type, x, y Value, yt types.Type) Value {
	switch xv := x.(type) {
	case *Term:
		yv, ok := y.(*Term)
		if !ok {
			break
		}
		if xv.W == 0 {
			switch op {
			case token.EQL:
				return e.ts.Eq(xv, yv)
			case token.NEQ:
				return e.ts.Not(e.ts.Eq(xv, yv))
			case token.AND, token.LAND:
				return e.ts.And(xv, yv)
			case token.OR, token.LOR:
				return e.ts.Or(xv, yv)
			}
			e.unsupported("bool binop " + op.String())
		}
		_, signed, _ := intWidth(xt)
		switch op {
		case token.ADD:
			return e.ts.Bin(OpAdd, xv, yv)
		case token.SUB:
			return e.ts.Bin(OpSub, xv, yv)
		case token.MUL:
			return e.ts.Bin(OpMul, xv, yv)
		case token.QUO, token.REM:
			z := e.ts.Eq(yv, e.ts.BV(yv.W, 0))
			if e.branch(z) {
				e.goPanicStr("runtime error: integer divide by zero")
			}
			var o Op
			switch {
			case op == token.QUO && signed:
				o = OpSdiv
			case op == token.QUO:
				o = OpUdiv
			case signed:
				o = OpSrem
			default:
				o = OpUrem
			}
			return e.ts.Bin(o, xv, yv)
		case token.AND:
			return e.ts.Bin(OpBvAnd, xv, yv)
		case token.OR:
			return e.ts.Bin(OpBvOr, xv, yv)
		case token.XOR:
			return e.ts.Bin(OpBvXor, xv, yv)
		case token.AND_NOT:
			return e.ts.Bin(OpBvAnd, xv, e.ts.BvNot(yv))
		case token.SHL, token.SHR:
			_, ysigned, _ := intWidth(yt)
			if ysigned {
				neg := e.ts.Cmp(OpSlt, yv, e.ts.BV(yv.W, 0))
				if e.branch(neg) {
					e.goPanicStr("runtime error: negative shift amount")
				}
			}
			w := xv.W
			// over-shift test in y's width
			var over *Term
			if yv.W >= 7 || uint64(1)<<uint(yv.W) > uint64(w) {
				over = e.ts.Not(e.ts.Cmp(OpUlt, yv, e.ts.BV(yv.W, uint64(w))))
			} else {
				over = e.ts.Bool(false)
			}
			amt := e.ts.Resize(yv, w, false)
			if yv.W > w {
				// mask to avoid wrap: when over, result is overridden anyway
				amt = e.ts.Extract(yv, w-1, 0)
			}
			var o Op
			var fill *Term
			switch {
			case op == token.SHL:
				o, fill = OpShl, e.ts.BV(w, 0)
			case signed:
				o = OpAshr
				fill = e.ts.Ite(e.ts.Cmp(OpSlt, xv, e.ts.BV(w, 0)), e.ts.BV(w, mask(w)), e.ts.BV(w, 0))
			default:
				o, fill = OpLshr, e.ts.BV(w, 0)
			}
			return e.ts.Ite(over, fill, e.ts.Bin(o, xv, amt))
		case token.EQL:
			return e.ts.Eq(xv, yv)
		case token.NEQ:
			return e.ts.Not(e.ts.Eq(xv, yv))
		case token.LSS:
			if signed {
				return e.ts.Cmp(OpSlt, xv, yv)
			}
			return e.ts.Cmp(OpUlt, xv, yv)
		case token.LEQ:
			if signed {
				return e.ts.Cmp(OpSle, xv, yv)
			}
			return e.ts.Cmp(OpUle, xv, yv)
		case token.GTR:
			if signed {
				return e.ts.Cmp(OpSlt, yv, xv)
			}
			return e.ts.Cmp(OpUlt, yv, xv)
		case token.GEQ:
			if signed {
				return e.ts.Cmp(OpSle, yv, xv)
			}
			return e.ts.Cmp(OpUle, yv, xv)
		}
	case Float:
		yv, ok := y.(Float)
		if !ok {
			break
		}
		switch op {
		case token.ADD:
			return xv + yv
		case token.SUB:
			return xv - yv
		case token.MUL:
			return xv * yv
		case token.QUO:
			return xv / yv
		case token.EQL:
			return e.ts.Bool(xv == yv)
		case token.NEQ:
			return e.ts.Bool(xv != yv)
		case token.LSS:
			return e.ts.Bool(xv < yv)
		case token.LEQ:
			return e.ts.Bool(xv <= yv)
		case token.GTR:
			return e.ts.Bool(xv > yv)
		case token.GEQ:
			return e.ts.Bool(xv >= yv)
		}
	case *Str:
		yv, ok := y.(*Str)
		if !ok {
			break
		}
		switch op {
		case token.ADD:
			if xv.b == nil && yv.b == nil {
				return &Str{s: xv.s + yv.s}
			}
			return e.mkStr(append(append([]*Term{}, e.strBytes(xv)...), e.strBytes(yv)...))
		case token.EQL:
			return e.equal(xv, yv)
		case token.NEQ:
			return e.ts.Not(e.equal(xv, yv))
		case token.LSS, token.LEQ, token.GTR, token.GEQ:
			lt, eq := e.strCompare(xv, yv)
			switch op {
			case token.LSS:
				return lt
			case token.LEQ:
				return e.ts.Or(lt, eq)
			case token.GTR:
				return e.ts.Not(e.ts.Or(lt, eq))
			default:
				return e.ts.Not(lt)
			}
		}
	}
	switch op {
	case token.EQL:
		return e.equal(x, y)
	case token.NEQ:
		return e.ts.Not(e.equal(x, y))
	}
	e.unsupported(fmt.Sprintf("binop %s on %T,%T", op, x, y))
	return nil
}

// strCompare returns (x<y, x==y) lexicographically.
func (e *Exec) strCompare(x, y *Str) (lt, eq *Term) {
	if x.b == nil && y.b == nil {
		return e.ts.Bool(x.s < y.s), e.ts.Bool(x.s == y.s)
	}
	xb, yb := e.strBytes(x), e.strBytes(y)
	n := len(xb)
	if len(yb) < n {
		n = len(yb)
	}
	// from the end backwards
	lt = e.ts.Bool(len(xb) < len(yb))
	eq = e.ts.Bool(len(xb) == len(yb))
	for i := n - 1; i >= 0; i-- {
		bl := e.ts.Cmp(OpUlt, xb[i], yb[i])
		be := e.ts.Eq(xb[i], yb[i])
		lt = e.ts.Or(bl, e.ts.And(be, lt))
		eq = e.ts.And(be, eq)
	}
	return
}

func (e *Exec) convert(from, to types.Type, x Value) Value {
	fu, tu := from.Underlying(), to.Underlying()
	// pointer / unsafe conversions
	if _, ok := tu.(*types.Pointer); ok {
		return x
	}
	if tb, ok := tu.(*types.Basic); ok && tb.Kind() == types.UnsafePointer {
		return x
	}
	if fb, ok := fu.(*types.Basic); ok && fb.Kind() == types.UnsafePointer {
		return x
	}
	switch xv := x.(type) {
	case *Term:
		if xv.W == 0 {
			return xv
		}
		if w, _, ok := intWidth(to); ok {
			_, fsigned, _ := intWidth(from)
			return e.ts.Resize(xv, w, fsigned)
		}
		if isString(to) {
			// string(rune)
			if !xv.IsConst() {
				e.unsupported("string(symbolic rune)")
			}
			_, fsigned, _ := intWidth(from)
			var r rune
			if fsigned {
				r = rune(sext64(xv.Val, xv.W))
			} else {
				r = rune(xv.Val)
			}
			return &Str{s: string(r)}
		}
		if isFloat(to) {
			if !xv.IsConst() {
				e.unsupported("float conversion of symbolic integer")
			}
			_, fsigned, _ := intWidth(from)
			if fsigned {
				return Float(float64(sext64(xv.Val, xv.W)))
			}
			return Float(float64(xv.Val))
		}
	case Float:
		if isFloat(to) {
			if tu.(*types.Basic).Kind() == types.Float32 {
				return Float(float64(float32(xv)))
			}
			return xv
		}
		if w, signed, ok := intWidth(to); ok {
			if signed {
				return e.ts.BV(w, uint64(int64(xv)))
			}
			return e.ts.BV(w, uint64(xv))
		}
	case *Str:
		if isString(to) {
			return xv
		}
		if st, ok := tu.(*types.Slice); ok {
			if b, ok := st.Elem().Underlying().(*types.Basic); ok && b.Kind() == types.Uint8 {
				bs := e.strBytes(xv)
				arr := e.newArrayLoc(st.Elem(), len(bs))
				for i, t := range bs {
					arr.kids[i].val = t
				}
				return Slice{arr: arr, len: len(bs), cap: len(bs)}
			}
			if b, ok := st.Elem().Underlying().(*types.Basic); ok && b.Kind() == types.Int32 {
				cs, ok := xv.Concrete()
				if !ok {
					e.unsupported("[]rune(symbolic string)")
				}
				rs := []rune(cs)
				arr := e.newArrayLoc(st.Elem(), len(rs))
				for i, r := range rs {
					arr.kids[i].val = e.ts.BV(32, uint64(r))
				}
				return Slice{arr: arr, len: len(rs), cap: len(rs)}
			}
		}
	case Slice:
		if isString(to) {
			st := fu.(*types.Slice)
			if b, ok := st.Elem().Underlying().(*types.Basic); ok && b.Kind() == types.Uint8 {
				bs := make([]*Term, xv.len)
				for i := 0; i < xv.len; i++ {
					bs[i] = xv.arr.kids[xv.off+i].val.(*Term)
				}
				return e.mkStr(bs)
			}
			// []rune -> string
			var sb strings.Builder
			for i := 0; i < xv.len; i++ {
				t := xv.arr.kids[xv.off+i].val.(*Term)
				if !t.IsConst() {
					e.unsupported("string([]rune symbolic)")
				}
				sb.WriteRune(rune(t.Val))
			}
			return &Str{s: sb.String()}
		}
		if _, ok := tu.(*types.Slice); ok {
			return xv
		}
	}
	if types.Identical(fu, tu) {
		return x
	}
	e.unsupported(fmt.Sprintf("convert %s -> %s (%T)", from, to, x))
	return nil
}

func (e *Exec) boundsBranch(bad *Term, msg string) {
	if e.branch(bad) {
		e.goPanicStr(msg)
	}
}

func (e *Exec) sliceOp(fr *frame, ins *ssa.Slice) Value {
	x := e.get(fr, ins.X)
	getBound := func(v ssa.Value, def int) int {
		if v == nil {
			return def
		}
		t := e.toIdx(e.get(fr, v), v.Type())
		return int(int64(e.concretize(t, "slice bound")))
	}
	// symbolic bounds: decide "out of range" (the Go runtime panic) as a branch BEFORE concretising, so
	// that an unbounded wrong bound is a reported panic path and not an unwinding failure
	rangeCheck := func(capN int, lenN int) {
		term := func(v ssa.Value, def int) *Term {
			if v == nil {
				return e.ts.BV(64, uint64(def))
			}
			return e.toIdx(e.get(fr, v), v.Type())
		}
		lo, hi, mx := term(ins.Low, 0), term(ins.High, lenN), term(ins.Max, capN)
		if lo.IsConst() && hi.IsConst() && mx.IsConst() {
			return
		}
		zero, c := e.ts.BV(64, 0), e.ts.BV(64, uint64(capN))
		bad := e.ts.Or(e.ts.Cmp(OpSlt, lo, zero), e.ts.Or(e.ts.Cmp(OpSlt, hi, lo), e.ts.Or(e.ts.Cmp(OpSlt, mx, hi), e.ts.Cmp(OpSlt, c, mx))))
		e.boundsBranch(bad, "runtime error: slice bounds out of range (symbolic bound)")
	}
	switch xv := x.(type) {
	case *Str:
		n := xv.Len()
		rangeCheck(n, n)
		lo := getBound(ins.Low, 0)
		hi := getBound(ins.High, n)
		if lo < 0 || hi < lo || hi > n {
			e.goPanicStr(fmt.Sprintf("runtime error: slice bounds out of range [%d:%d] with length %d", lo, hi, n))
		}
		if xv.b == nil {
			return &Str{s: xv.s[lo:hi]}
		}
		return e.mkStr(xv.b[lo:hi])
	case Slice:
		rangeCheck(xv.cap, xv.len)
		lo := getBound(ins.Low, 0)
		hi := getBound(ins.High, xv.len)
		mx := getBound(ins.Max, xv.cap)
		if lo < 0 || hi < lo || mx < hi || mx > xv.cap {
			e.goPanicStr(fmt.Sprintf("runtime error: slice bounds out of range [%d:%d:%d] with capacity %d", lo, hi, mx, xv.cap))
		}
		if xv.arr == nil {
			return Slice{}
		}
		return Slice{arr: xv.arr, off: xv.off + lo, len: hi - lo, cap: mx - lo}
	case Pointer: // *array
		if xv.loc == nil {
			e.goPanicStr("runtime error: slice of nil array pointer")
		}
		n := len(xv.loc.kids)
		rangeCheck(n, n)
		lo := getBound(ins.Low, 0)
		hi := getBound(ins.High, n)
		mx := getBound(ins.Max, n)
		if lo < 0 || hi < lo || mx < hi || mx > n {
			e.goPanicStr(fmt.Sprintf("runtime error: slice bounds out of range [%d:%d:%d] with capacity %d", lo, hi, mx, n))
		}
		return Slice{arr: xv.loc, off: lo, len: hi - lo, cap: mx - lo}
	}
	e.unsupported(fmt.Sprintf("slice of %T", x))
	return nil
}

func (e *Exec) indexAddr(fr *frame, ins *ssa.IndexAddr) Value {
	x := e.get(fr, ins.X)
	idx := e.toIdx(e.get(fr, ins.Index), ins.Index.Type())
	var elems []*Loc
	switch xv := x.(type) {
	case Slice:
		if xv.arr != nil {
			elems = xv.arr.kids[xv.off : xv.off+xv.len]
		}
	case Pointer:
		if xv.loc == nil {
			if xv.sym != nil {
				e.unsupported("index through symbolic pointer")
			}
			e.goPanicStr("runtime error: invalid memory address or nil pointer dereference")
		}
		elems = xv.loc.kids
	default:
		e.unsupported(fmt.Sprintf("indexaddr on %T", x))
	}
	n := len(elems)
	if idx.IsConst() {
		i := int64(idx.Val)
		if i < 0 || i >= int64(n) {
			e.goPanicStr(fmt.Sprintf("runtime error: index out of range [%d] with length %d", i, n))
		}
		return Pointer{loc: elems[i]}
	}
	bad := e.ts.Not(e.ts.Cmp(OpUlt, idx, e.ts.BV(64, uint64(n))))
	e.boundsBranch(bad, fmt.Sprintf("runtime error: index out of range [symbolic] with length %d", n))
	if n == 1 {
		return Pointer{loc: elems[0]}
	}
	if n > e.prog.cfg.MaxSymIndex || !e.mergeableLoc(elems[0]) {
		i := e.concretize(idx, "index")
		return Pointer{loc: elems[i]}
	}
	return Pointer{sym: &symPtr{elems: elems, idx: idx}}
}

func (e *Exec) mergeableLoc(l *Loc) bool {
	if l.kids != nil {
		for _, k := range l.kids {
			if !e.mergeableLoc(k) {
				return false
			}
		}
		return true
	}
	switch u := l.typ.Underlying().(type) {
	case *types.Basic:
		return u.Info()&(types.IsInteger|types.IsBoolean) != 0
	}
	return false
}

func (e *Exec) indexOp(fr *frame, ins *ssa.Index) Value {
	x := e.get(fr, ins.X)
	idx := e.toIdx(e.get(fr, ins.Index), ins.Index.Type())
	switch xv := x.(type) {
	case Array:
		return e.indexValues([]Value(xv), idx)
	case *Str:
		bs := e.strBytes(xv)
		vals := make([]Value, len(bs))
		for i, b := range bs {
			vals[i] = b
		}
		return e.indexValues(vals, idx)
	}
	e.unsupported(fmt.Sprintf("index on %T", x))
	return nil
}

func (e *Exec) indexValues(vals []Value, idx *Term) Value {
	n := len(vals)
	if idx.IsConst() {
		i := int64(idx.Val)
		if i < 0 || i >= int64(n) {
			e.goPanicStr(fmt.Sprintf("runtime error: index out of range [%d] with length %d", i, n))
		}
		return vals[i]
	}
	bad := e.ts.Not(e.ts.Cmp(OpUlt, idx, e.ts.BV(64, uint64(n))))
	e.boundsBranch(bad, fmt.Sprintf("runtime error: index out of range [symbolic] with length %d", n))
	res, ok := e.selectTree(vals, idx)
	if !ok {
		j := e.concretize(idx, "index")
		return vals[j]
	}
	return res
}

// ---------------------------------------------------------------- maps

// mapFind returns the index of the entry whose key equals k (forking on symbolic equality), or -1.
func (e *Exec) mapFind(m *MapObj, k Value) int {
	if m == nil {
		return -1
	}
	for i, en := range m.entries {
		c := e.equal(en.key, k)
		if e.branch(c) {
			return i
		}
	}
	return -1
}

func (e *Exec) mapUpdate(m *MapObj, k, v Value) {
	if e.spec > 0 && m.id <= e.specObjStart {
		e.abortSpec("map update")
	}
	if i := e.mapFind(m, k); i >= 0 {
		m.entries[i] = &mapEntry{key: m.entries[i].key, val: v}
		return
	}
	m.entries = append(m.entries, &mapEntry{key: k, val: v})
}

func (e *Exec) mapDelete(m *MapObj, k Value) {
	if e.spec > 0 && m.id <= e.specObjStart {
		e.abortSpec("map delete")
	}
	if i := e.mapFind(m, k); i >= 0 {
		ne := make([]*mapEntry, 0, len(m.entries)-1)
		ne = append(ne, m.entries[:i]...)
		ne = append(ne, m.entries[i+1:]...)
		m.entries = ne
	}
}

func (e *Exec) lookupOp(fr *frame, ins *ssa.Lookup) Value {
	x := e.get(fr, ins.X)
	switch xv := x.(type) {
	case *Str:
		idx := e.toIdx(e.get(fr, ins.Index), ins.Index.Type())
		bs := e.strBytes(xv)
		vals := make([]Value, len(bs))
		for i, b := range bs {
			vals[i] = b
		}
		return e.indexValues(vals, idx)
	case *MapObj:
		k := e.get(fr, ins.Index)
		var vt types.Type
		if ins.CommaOk {
			vt = ins.Type().(*types.Tuple).At(0).Type()
		} else {
			vt = ins.Type()
		}
		i := e.mapFind(xv, k)
		var v Value
		if i >= 0 {
			v = copyVal(xv.entries[i].val)
		} else {
			v = e.zero(vt)
		}
		if ins.CommaOk {
			return Tuple{v, e.ts.Bool(i >= 0)}
		}
		return v
	}
	e.unsupported(fmt.Sprintf("lookup on %T", x))
	return nil
}

func (e *Exec) rangeOp(x Value) Value {
	switch xv := x.(type) {
	case *MapObj:
		it := &mapIter{}
		if xv != nil {
			it.entries = append(it.entries, xv.entries...)
			if e.prog.cfg.ReverseMaps {
				for i, j := 0, len(it.entries)-1; i < j; i, j = i+1, j-1 {
					it.entries[i], it.entries[j] = it.entries[j], it.entries[i]
				}
			}
		}
		return it
	case *Str:
		return &mapIter{str: xv}
	}
	e.unsupported(fmt.Sprintf("range over %T", x))
	return nil
}

func (e *Exec) nextOp(fr *frame, ins *ssa.Next) Value {
	it := e.get(fr, ins.Iter).(*mapIter)
	tt := ins.Type().(*types.Tuple)
	if ins.IsString {
		cs, ok := it.str.Concrete()
		if !ok {
			// treat symbolic strings bytewise if all bytes are constrained < 0x80? fork on it
			bs := e.strBytes(it.str)
			if it.pos >= len(bs) {
				return Tuple{e.ts.Bool(false), e.ts.BV(64, 0), e.ts.BV(32, 0)}
			}
			b := bs[it.pos]
			if e.branch(e.ts.Cmp(OpUlt, b, e.ts.BV(8, 0x80))) {
				r := Tuple{e.ts.Bool(true), e.ts.BV(64, uint64(it.pos)), e.ts.Zext(b, 24)}
				it.pos++
				return r
			}
			e.unsupported("range over symbolic non-ASCII string")
		}
		if it.pos >= len(cs) {
			return Tuple{e.ts.Bool(false), e.ts.BV(64, 0), e.ts.BV(32, 0)}
		}
		r, size := utf8.DecodeRuneInString(cs[it.pos:])
		p := it.pos
		it.pos += size
		return Tuple{e.ts.Bool(true), e.ts.BV(64, uint64(p)), e.ts.BV(32, uint64(r))}
	}
	if it.pos >= len(it.entries) {
		zeroOrNil := func(t types.Type) Value {
			if b, ok := t.(*types.Basic); ok && b.Kind() == types.Invalid {
				return nil
			}
			return e.zero(t)
		}
		return Tuple{e.ts.Bool(false), zeroOrNil(tt.At(1).Type()), zeroOrNil(tt.At(2).Type())}
	}
	en := it.entries[it.pos]
	it.pos++
	// skip entries deleted during iteration is not modelled (Go semantics allow either)
	return Tuple{e.ts.Bool(true), copyVal(en.key), copyVal(en.val)}
}

// ---------------------------------------------------------------- type assertions

func (e *Exec) typeAssert(fr *frame, ins *ssa.TypeAssert) Value {
	x := e.get(fr, ins.X).(Iface)
	ok := false
	var res Value
	if x.t != nil {
		if it, isI := ins.AssertedType.Underlying().(*types.Interface); isI {
			if e.prog.opaqueImplements(x.t, it) || types.Implements(x.t, it) {
				ok = true
				res = x
			}
		} else if types.Identical(x.t, ins.AssertedType) {
			ok = true
			res = x.v
		}
	}
	if ins.CommaOk {
		if !ok {
			res = e.zero(ins.AssertedType)
		}
		return Tuple{res, e.ts.Bool(ok)}
	}
	if !ok {
		d := "nil"
		if x.t != nil {
			d = x.t.String()
		}
		e.goPanicStr("interface conversion: interface is " + d + ", not " + ins.AssertedType.String())
	}
	return res
}

// ---------------------------------------------------------------- channels

func (e *Exec) chanSend(c Value, v Value) {
	if e.spec > 0 {
		e.abortSpec("chan send")
	}
	ch, _ := c.(*ChanObj)
	if ch == nil {
		panic(&pathEnd{kind: endDeadlock, msg: "send on nil channel"})
	}
	if ch.closed {
		e.goPanicStr("send on closed channel")
	}
	if len(ch.buf) >= ch.cap {
		panic(&pathEnd{kind: endDeadlock, msg: "send would block (single-threaded executor)"})
	}
	ch.buf = append(ch.buf, copyVal(v))
}

func (e *Exec) chanRecv(c Value, commaOk bool, t types.Type) Value {
	if e.spec > 0 {
		e.abortSpec("chan recv")
	}
	ch, _ := c.(*ChanObj)
	if ch == nil {
		panic(&pathEnd{kind: endDeadlock, msg: "receive on nil channel"})
	}
	if len(ch.buf) > 0 {
		v := ch.buf[0]
		ch.buf = ch.buf[1:]
		if commaOk {
			return Tuple{v, e.ts.Bool(true)}
		}
		return v
	}
	if ch.closed {
		z := e.zero(ch.et)
		if commaOk {
			return Tuple{z, e.ts.Bool(false)}
		}
		return z
	}
	panic(&pathEnd{kind: endDeadlock, msg: "receive would block (single-threaded executor)"})
}

func (e *Exec) selectOp(fr *frame, ins *ssa.Select) Value {
	// ready cases
	var ready []int
	for i, st := range ins.States {
		ch, _ := e.get(fr, st.Chan).(*ChanObj)
		if ch == nil {
			continue
		}
		if st.Dir == types.SendOnly {
			if ch.closed || len(ch.buf) < ch.cap {
				ready = append(ready, i)
			}
		} else {
			if len(ch.buf) > 0 || ch.closed {
				ready = append(ready, i)
			}
		}
	}
	tt := ins.Type().(*types.Tuple)
	res := make(Tuple, tt.Len())
	for i := 0; i < tt.Len(); i++ {
		res[i] = e.zero(tt.At(i).Type())
	}
	if len(ready) == 0 {
		if !ins.Blocking {
			res[0] = e.ts.BV(64, mask(64)) // -1
			return res
		}
		panic(&pathEnd{kind: endDeadlock, msg: "select would block (single-threaded executor)"})
	}
	pick := ready[e.choose(len(ready))]
	st := ins.States[pick]
	ch := e.get(fr, st.Chan).(*ChanObj)
	res[0] = e.ts.BV(64, uint64(pick))
	if st.Dir == types.SendOnly {
		e.chanSend(ch, e.get(fr, st.Send))
		return res
	}
	r := e.chanRecv(ch, true, nil).(Tuple)
	res[1] = r[1]
	// received values occupy slots 2.. in order of the receive states
	slot := 2
	for i, s := range ins.States {
		if s.Dir == types.RecvOnly {
			if i == pick {
				res[slot] = r[0]
			}
			slot++
		}
	}
	return res
}
