package main

import (
	"go/types"
	"path/filepath"
	"regexp"
	"sync"
)

// C14 (durable Raft log, pkg/raftlog on the in-memory Pebble shim of harness/C14/pebble).
//
// pkg/raftlog validates snapshot directory names with two package-level regular expressions
// (regexp.MustCompile in the package initialiser, (*regexp.Regexp).MatchString in
// validateSnapshotID). The harness only ever produces CONCRETE snapshot IDs, so the model is exact:
// MustCompile records the (concrete) pattern in a one-cell object standing in for the *Regexp, and
// MatchString evaluates the real Go regexp on the concrete subject. A symbolic pattern or subject
// is unsupported (path ends INCONCLUSIVE), never approximated.
//
// go.etcd.io/raft/v3 itself is not loaded from source (its initialiser builds a logger on os.Stderr);
// raftlog uses two things of it: the sentinel raft.ErrSnapOutOfDate (the executor's generic model of
// sentinel errors of unloaded packages: a distinct opaque non-nil error) and raft.IsEmptySnap, whose
// body is `return sp.Metadata.Index == 0`: modelled exactly here, field positions taken from the
// loaded raftpb types.
//
// raftpb.sovRaft (the generated protobuf code sizes every varint with
// sovRaft(x) = (bits.Len64(x|1)+6)/7, and MarshalToSizedBuffer then writes at `offset - sovRaft(v)`):
// the result is computed with exactly that formula (on the executor's model of bits.Len64) and then
// CONCRETISED, i.e. the path is split over every feasible varint length. Without the split a
// symbolic varint value makes the write offset symbolic and turns the whole encoding buffer into
// ite-terms (one solver query per decoded byte afterwards). A case split is exact; it only moves
// the fork from the consumers of the length to its producer.
//
// path/filepath.IsAbs / Base (validateSnapshotID): evaluated with the real functions on CONCRETE
// strings only (path/filepath cannot be loaded from source: its initialiser reads io/fs variables).
//
// (raftpb.ConfChangeV2).LeaveJoint is `c.Context = nil; return proto.Equal(&c, &ConfChangeV2{})`
// (gogo/protobuf reflection). For this message type (fields Transition, Changes, Context; no
// unrecognized-field storage) proto.Equal with the zero message holds exactly when Transition == 0
// and Changes is empty (proto.Equal treats a nil and an empty repeated field alike): modelled so.
// Reached only by the thorough-tier conf-change entries (deriveConfState -> applyConfChange).
// Scope: only for check.json property C14.
var c14ReCache sync.Map // pattern -> *regexp.Regexp

func init() {
	extraIntrinsics = append(extraIntrinsics, func(p *Program) {
		if p.check == nil || p.check.Property != "C14" {
			return
		}
		p.intrinsics["regexp.MustCompile"] = func(e *Exec, fr *frame, args []Value) Value {
			st, ok := args[0].(*Str)
			if !ok {
				e.unsupported("regexp.MustCompile: argument is not a string")
			}
			if _, conc := st.Concrete(); !conc {
				e.unsupported("regexp.MustCompile: symbolic pattern")
			}
			l := e.newLoc(types.Typ[types.String])
			e.storeLoc(l, st)
			return Pointer{loc: l}
		}
		if lenModel := p.intrinsics["math/bits.Len64"]; lenModel != nil {
			p.intrinsics["go.etcd.io/raft/v3/raftpb.sovRaft"] = func(e *Exec, fr *frame, args []Value) Value {
				x, ok := args[0].(*Term)
				if !ok {
					e.unsupported("raftpb.sovRaft: argument is not an integer term")
				}
				l, ok := lenModel(e, fr, []Value{e.ts.Bin(OpBvOr, x, e.ts.BV(64, 1))}).(*Term)
				if !ok {
					e.unsupported("raftpb.sovRaft: bits.Len64 model did not return a term")
				}
				n := e.ts.Bin(OpUdiv, e.ts.Bin(OpAdd, l, e.ts.BV(64, 6)), e.ts.BV(64, 7))
				if n.IsConst() {
					return n
				}
				// a length this path already fixed (same hash-consed term): no new decision
				for v := uint64(1); v <= 10; v++ {
					if known, ok := e.known[e.ts.Eq(n, e.ts.BV(64, v))]; ok && known {
						return e.ts.BV(64, v)
					}
				}
				return e.ts.BV(64, e.concretize(n, "raftpb.sovRaft (varint length)"))
			}
		}
		concStr := func(e *Exec, v Value, what string) string {
			st, ok := v.(*Str)
			if !ok {
				e.unsupported(what + ": argument is not a string")
			}
			s, conc := st.Concrete()
			if !conc {
				e.unsupported(what + ": symbolic string")
			}
			return s
		}
		p.intrinsics["path/filepath.IsAbs"] = func(e *Exec, fr *frame, args []Value) Value {
			return e.ts.Bool(filepath.IsAbs(concStr(e, args[0], "filepath.IsAbs")))
		}
		p.intrinsics["path/filepath.Base"] = func(e *Exec, fr *frame, args []Value) Value {
			return &Str{s: filepath.Base(concStr(e, args[0], "filepath.Base"))}
		}
		p.intrinsics["go.etcd.io/raft/v3.IsEmptySnap"] = func(e *Exec, fr *frame, args []Value) Value {
			sp := e.prog.pkgs["go.etcd.io/raft/v3/raftpb"]
			if sp == nil {
				e.unsupported("go.etcd.io/raft/v3/raftpb must be listed in check.json std")
			}
			field := func(t types.Type, name string) int {
				st, ok := t.Underlying().(*types.Struct)
				if ok {
					for i := 0; i < st.NumFields(); i++ {
						if st.Field(i).Name() == name {
							return i
						}
					}
				}
				e.unsupported("raft.IsEmptySnap: field " + name + " not found")
				return -1
			}
			snapT := sp.Type("Snapshot").Type()
			mi := field(snapT, "Metadata")
			metaT := snapT.Underlying().(*types.Struct).Field(mi).Type()
			ii := field(metaT, "Index")
			snap, ok := args[0].(Struct)
			if !ok {
				e.unsupported("raft.IsEmptySnap: argument is not a struct value")
			}
			meta, ok := snap[mi].(Struct)
			if !ok {
				e.unsupported("raft.IsEmptySnap: Metadata is not a struct value")
			}
			idx, ok := meta[ii].(*Term)
			if !ok {
				e.unsupported("raft.IsEmptySnap: Index is not an integer term")
			}
			return e.ts.Eq(idx, e.ts.BV(64, 0))
		}
		p.intrinsics["(go.etcd.io/raft/v3/raftpb.ConfChangeV2).LeaveJoint"] = func(e *Exec, fr *frame, args []Value) Value {
			sp := e.prog.pkgs["go.etcd.io/raft/v3/raftpb"]
			if sp == nil {
				e.unsupported("go.etcd.io/raft/v3/raftpb must be listed in check.json std")
			}
			st, ok := sp.Type("ConfChangeV2").Type().Underlying().(*types.Struct)
			if !ok || st.NumFields() != 3 {
				e.unsupported("raftpb.ConfChangeV2: unexpected layout (model assumes Transition, Changes, Context)")
			}
			ti, ci := -1, -1
			for i := 0; i < st.NumFields(); i++ {
				switch st.Field(i).Name() {
				case "Transition":
					ti = i
				case "Changes":
					ci = i
				}
			}
			c, ok := args[0].(Struct)
			if !ok || ti < 0 || ci < 0 {
				e.unsupported("raftpb.ConfChangeV2.LeaveJoint: unexpected receiver")
			}
			tr, ok1 := c[ti].(*Term)
			ch, ok2 := c[ci].(Slice)
			if !ok1 || !ok2 {
				e.unsupported("raftpb.ConfChangeV2.LeaveJoint: unexpected field values")
			}
			return e.ts.And(e.ts.Eq(tr, e.ts.BV(tr.W, 0)), e.ts.Bool(ch.len == 0))
		}
		p.intrinsics["(*regexp.Regexp).MatchString"] = func(e *Exec, fr *frame, args []Value) Value {
			ptr, ok := args[0].(Pointer)
			if !ok || ptr.loc == nil {
				e.unsupported("(*regexp.Regexp).MatchString: receiver was not produced by the C14 MustCompile model")
			}
			pat, ok := e.loadLoc(ptr.loc).(*Str)
			if !ok {
				e.unsupported("(*regexp.Regexp).MatchString: receiver was not produced by the C14 MustCompile model")
			}
			ps, _ := pat.Concrete()
			subj, ok := args[1].(*Str)
			if !ok {
				e.unsupported("(*regexp.Regexp).MatchString: argument is not a string")
			}
			ss, conc := subj.Concrete()
			if !conc {
				e.unsupported("(*regexp.Regexp).MatchString: symbolic subject string")
			}
			var re *regexp.Regexp
			if c, ok := c14ReCache.Load(ps); ok {
				re = c.(*regexp.Regexp)
			} else {
				re = regexp.MustCompile(ps)
				c14ReCache.Store(ps, re)
			}
			return e.ts.Bool(re.MatchString(ss))
		}
	})
}
