package main

import (
	"fmt"
	"go/types"
	"reflect"
	"strings"
)

// encoding/json is reflection-driven and cannot be executed from SSA. It is modelled as an
// identity codec on Go values: Marshal(v) returns a constant token `{"zz":NNNNNNNN}` naming a deep
// copy of v kept by the executor; Unmarshal(token, &x) stores that copy into x, with the fields
// JSON does not carry (unexported, `json:"-"`) zeroed. This is the round-trip contract of
// encoding/json for plain data structs (no interfaces, NaNs, duplicate keys); the text itself is
// not modelled, so code that inspects or compares JSON text is outside the model (warning).

type jsonBlob struct {
	t types.Type
	v Value
}

const jsonTokPrefix = `{"zz":`

func (e *Exec) jsonToken(id int) []*Term {
	s := fmt.Sprintf(`%s%08d}`, jsonTokPrefix, id)
	bs := make([]*Term, len(s))
	for i := 0; i < len(s); i++ {
		bs[i] = e.ts.BV(8, uint64(s[i]))
	}
	return bs
}

// jsonStrip deep-copies v (of type t) dropping what JSON does not carry.
func (e *Exec) jsonStrip(t types.Type, v Value) Value {
	switch u := t.Underlying().(type) {
	case *types.Struct:
		sv, ok := v.(Struct)
		if !ok {
			e.unsupported(fmt.Sprintf("json: struct value is %T", v))
		}
		out := make(Struct, len(sv))
		for i := 0; i < u.NumFields(); i++ {
			f := u.Field(i)
			tag := reflect.StructTag(u.Tag(i)).Get("json")
			name := strings.Split(tag, ",")[0]
			if !f.Exported() || name == "-" {
				out[i] = e.zero(f.Type())
				continue
			}
			out[i] = e.jsonStrip(f.Type(), sv[i])
		}
		return out
	case *types.Array:
		av := v.(Array)
		out := make(Array, len(av))
		for i := range av {
			out[i] = e.jsonStrip(u.Elem(), av[i])
		}
		return out
	case *types.Slice:
		s := v.(Slice)
		if s.arr == nil {
			return Slice{}
		}
		arr := e.newArrayLoc(u.Elem(), s.len)
		for i := 0; i < s.len; i++ {
			e.storeLoc(arr.kids[i], e.jsonStrip(u.Elem(), e.loadLoc(s.arr.kids[s.off+i])))
		}
		// note: JSON decodes an empty non-nil slice as empty non-nil; a nil slice encodes as null
		return Slice{arr: arr, len: s.len, cap: s.len}
	case *types.Pointer:
		p := v.(Pointer)
		if p.IsNil() {
			return Pointer{}
		}
		l := e.newLoc(u.Elem())
		e.storeLoc(l, e.jsonStrip(u.Elem(), e.load(p)))
		return Pointer{loc: l}
	case *types.Basic:
		return v
	case *types.Map:
		m, _ := v.(*MapObj)
		if m == nil {
			return (*MapObj)(nil)
		}
		e.objID++
		nm := &MapObj{kt: m.kt, vt: m.vt, id: e.objID}
		for _, en := range m.entries {
			nm.entries = append(nm.entries, &mapEntry{key: en.key, val: e.jsonStrip(u.Elem(), en.val)})
		}
		return nm
	}
	e.unsupported("json: unsupported type " + t.String())
	return nil
}

func init() {
	extraIntrinsics = append(extraIntrinsics, func(p *Program) {
		I := p.intrinsics
		I["encoding/json.Marshal"] = func(e *Exec, fr *frame, args []Value) Value {
			ifc := args[0].(Iface)
			if ifc.t == nil {
				return Tuple{e.newByteSlice(e.strBytes(&Str{s: "null"})), Iface{}}
			}
			t := ifc.t
			v := ifc.v
			if pt, ok := t.Underlying().(*types.Pointer); ok {
				p := v.(Pointer)
				if p.IsNil() {
					return Tuple{e.newByteSlice(e.strBytes(&Str{s: "null"})), Iface{}}
				}
				t = pt.Elem()
				v = e.load(p)
			}
			e.jsonBlobs = append(e.jsonBlobs, jsonBlob{t: t, v: e.jsonStrip(t, v)})
			e.warnings["encoding/json modelled as an identity codec on Go values (text not modelled)"]++
			return Tuple{e.newByteSlice(e.jsonToken(len(e.jsonBlobs) - 1)), Iface{}}
		}
		I["encoding/json.Unmarshal"] = func(e *Exec, fr *frame, args []Value) Value {
			data := args[0].(Slice)
			tgt := args[1].(Iface)
			bs := e.byteSliceTerms(data)
			var sb strings.Builder
			for _, b := range bs {
				if !b.IsConst() {
					e.unsupported("json.Unmarshal of symbolic bytes")
				}
				sb.WriteByte(byte(b.Val))
			}
			s := sb.String()
			if !strings.HasPrefix(s, jsonTokPrefix) || len(s) != len(jsonTokPrefix)+9 {
				// not produced by the modelled Marshal: treat as malformed JSON
				e.warnings["json.Unmarshal of bytes not produced by the modelled Marshal: reported as a syntax error"]++
				return e.newOpaqueErr("json: syntax error (modelled)", nil)
			}
			var id int
			fmt.Sscanf(s[len(jsonTokPrefix):], "%08d", &id)
			if id < 0 || id >= len(e.jsonBlobs) {
				return e.newOpaqueErr("json: syntax error (modelled)", nil)
			}
			blob := e.jsonBlobs[id]
			pt, ok := tgt.t.Underlying().(*types.Pointer)
			if !ok {
				return e.newOpaqueErr("json: Unmarshal(non-pointer)", nil)
			}
			if !types.Identical(pt.Elem(), blob.t) {
				e.unsupported("json.Unmarshal into " + pt.Elem().String() + " of a value marshalled as " + blob.t.String())
			}
			e.store(tgt.v.(Pointer), e.jsonStrip(blob.t, blob.v))
			return Iface{}
		}
	})
}
