package main

import (
	"fmt"
	"go/types"
	"reflect"
	"strings"
)

// encoding/json is reflection-driven and cannot be executed from SSA. It is modelled as an
// identity codec on Go values: Marshal(v) returns a constant token `{"zz":NNNNNNNN}` naming a deep
// copy of v kept by the executor; Unmarshal(token, &x) stores that copy into x, with the fields
// JSON does not carry (unexported, `json:"-"`) zeroed. This is the round-trip contract of
// encoding/json for plain data structs (no interfaces, NaNs, duplicate keys); the text itself is
// not modelled, so code that inspects or compares JSON text is outside the model (warning).

type jsonBlob struct {
	t types.Type
	v Value
}

const jsonTokPrefix = `{"zz":`

func (e *Exec) jsonToken(id int) []*Term {
	s := fmt.Sprintf(`%s%08d}`, jsonTokPrefix, id)
	bs := make([]*Term, len(s))
	for i := 0; i < len(s); i++ {
		bs[i] = e.ts.BV(8, uint64(s[i]))
	}
	return bs
}

// jsonStrip deep-copies v (of type t) dropping what JSON does not carry.
func (e *Exec) jsonStrip(t types.Type, v Value) Value {
	switch u := t.Underlying().(type) {
	case *types.Struct:
		sv, ok := v.(Struct)
		if !ok {
			e.unsupported(fmt.Sprintf("json: struct value is %T", v))
		}
		out := make(Struct, len(sv))
		for i := 0; i < u.NumFields(); i++ {
			f := u.Field(i)
			tag := reflect.StructTag(u.Tag(i)).Get("json")
			name := strings.Split(tag, ",")[0]
			if !f.Exported() || name == "-" {
				out[i] = e.zero(f.Type())
				continue
			}
			out[i] = e.jsonStrip(f.Type(), sv[i])
		}
		return out
	case *types.Array:
		av := v.(Array)
		out := make(Array, len(av))
		for i := range av {
			out[i] = e.jsonStrip(u.Elem(), av[i])
		}
		return out
	case *types.Slice:
		s := v.(Slice)
		if s.arr == nil {
			return Slice{}
		}
		arr := e.newArrayLoc(u.Elem(), s.len)
		for i := 0; i < s.len; i++ {
			e.storeLoc(arr.kids[i], e.jsonStrip(u.Elem(), e.loadLoc(s.arr.kids[s.off+i])))
		}
		// note: JSON decodes an empty non-nil slice as empty non-nil; a nil slice encodes as null
		return Slice{arr: arr, len: s.len, cap: s.len}
	case *types.Pointer:
		p := v.(Pointer)
		if p.IsNil() {
			return Pointer{}
		}
		l := e.newLoc(u.Elem())
		e.storeLoc(l, e.jsonStrip(u.Elem(), e.load(p)))
		return Pointer{loc: l}
	case *types.Basic:
		return v
	case *types.Map:
		m, _ := v.(*MapObj)
		if m == nil {
			return (*MapObj)(nil)
		}
		e.objID++
		nm := &MapObj{kt: m.kt, vt: m.vt, id: e.objID}
		for _, en := range m.entries {
			nm.entries = append(nm.entries, &mapEntry{key: en.key, val: e.jsonStrip(u.Elem(), en.val)})
		}
		return nm
	}
	e.unsupported("json: unsupported type " + t.String())
	return nil
}

func init() {
	extraIntrinsics = append(extraIntrinsics, func(p *Program) {
		// C40 and C18 use the exact / abstract models of intr_C40.go (concrete payload literals run through
		// the real encoding/json; the controller checksum view is four unconstrained bytes); this file's
		// init runs after that one's and would otherwise replace them.
		if p.check != nil && (p.check.Property == "C40" || p.check.Property == "C18") {
			return
		}
		I := p.intrinsics
		I["encoding/json.Marshal"] = func(e *Exec, fr *frame, args []Value) Value {
			ifc := args[0].(Iface)
			if ifc.t == nil {
				return Tuple{e.newByteSlice(e.strBytes(&Str{s: "null"})), Iface{}}
			}
			t := ifc.t
			v := ifc.v
			if pt, ok := t.Underlying().(*types.Pointer); ok {
				p := v.(Pointer)
				if p.IsNil() {
					return Tuple{e.newByteSlice(e.strBytes(&Str{s: "null"})), Iface{}}
				}
				t = pt.Elem()
				v = e.load(p)
			}
			e.warnings["encoding/json modelled as an identity codec on Go values (text not modelled)"]++
			stripped := e.jsonStrip(t, v)
			// Marshal is a function of the value: equal values get the same token
			for i, b := range e.jsonBlobs {
				if types.Identical(b.t, t) && e.jsonSameValue(b.v, stripped) {
					return Tuple{e.newByteSlice(e.jsonToken(i)), Iface{}}
				}
			}
			e.jsonBlobs = append(e.jsonBlobs, jsonBlob{t: t, v: stripped})
			return Tuple{e.newByteSlice(e.jsonToken(len(e.jsonBlobs) - 1)), Iface{}}
		}
		I["encoding/json.Unmarshal"] = func(e *Exec, fr *frame, args []Value) Value {
			data := args[0].(Slice)
			tgt := args[1].(Iface)
			return jsonUnmarshalTerms(e, e.byteSliceTerms(data), tgt)
		}
		// streaming decoder over a bytes.Reader: one Decode behaves as Unmarshal of the remaining bytes,
		// the next reports io.EOF; Token reports io.EOF at once (a modelled Marshal token has no object
		// keys to inspect, and what Marshal produces has no duplicate keys)
		I["encoding/json.NewDecoder"] = func(e *Exec, fr *frame, args []Value) Value {
			r := args[0].(Iface)
			rp, ok := r.v.(Pointer)
			if !ok || rp.loc == nil || !strings.HasSuffix(r.t.String(), "bytes.Reader") {
				e.unsupported("json.NewDecoder over a reader that is not *bytes.Reader")
			}
			s, ok := e.loadLoc(rp.loc.kids[0]).(Slice)
			if !ok {
				e.unsupported("json.NewDecoder: unexpected bytes.Reader layout")
			}
			pos, ok := e.loadLoc(rp.loc.kids[1]).(*Term)
			if !ok || !pos.IsConst() {
				e.unsupported("json.NewDecoder: symbolic reader position")
			}
			var bs []*Term
			if s.len > 0 {
				bs = e.byteSliceTerms(s)[int(pos.Val):]
			}
			l := e.newLoc(types.Typ[types.Uint8])
			if e.jsonDecs == nil {
				e.jsonDecs = map[*Loc]*jsonDecState{}
			}
			e.jsonDecs[l] = &jsonDecState{data: bs}
			return Pointer{loc: l}
		}
		jsonDecOf := func(e *Exec, v Value) *jsonDecState {
			p, ok := v.(Pointer)
			if !ok || p.loc == nil || e.jsonDecs[p.loc] == nil {
				e.unsupported("json.Decoder method on a decoder not created by the modelled NewDecoder")
			}
			return e.jsonDecs[p.loc]
		}
		ioEOF := func(e *Exec) Value {
			pkg := e.prog.ssaProg.ImportedPackage("io")
			if pkg == nil || pkg.Var("EOF") == nil {
				e.unsupported("json.Decoder: io.EOF not found")
			}
			return e.loadLoc(e.globalLoc(pkg.Var("EOF")))
		}
		I["(*encoding/json.Decoder).DisallowUnknownFields"] = func(e *Exec, fr *frame, args []Value) Value {
			jsonDecOf(e, args[0])
			return nil
		}
		I["(*encoding/json.Decoder).Decode"] = func(e *Exec, fr *frame, args []Value) Value {
			st := jsonDecOf(e, args[0])
			if st.done {
				return ioEOF(e)
			}
			st.done = true
			return jsonUnmarshalTerms(e, st.data, args[1].(Iface))
		}
		I["(*encoding/json.Decoder).Token"] = func(e *Exec, fr *frame, args []Value) Value {
			jsonDecOf(e, args[0])
			e.warnings["json.Decoder.Token reports io.EOF at once (token stream not modelled)"]++
			return Tuple{Iface{}, ioEOF(e)}
		}
	})
}

type jsonDecState struct {
	data []*Term
	done bool
}

func jsonUnmarshalTerms(e *Exec, bs []*Term, tgt Iface) Value {
	var sb strings.Builder
	for _, b := range bs {
		if !b.IsConst() {
			e.unsupported("json.Unmarshal of symbolic bytes")
		}
		sb.WriteByte(byte(b.Val))
	}
	s := sb.String()
	if !strings.HasPrefix(s, jsonTokPrefix) || len(s) != len(jsonTokPrefix)+9 {
		// not produced by the modelled Marshal: treat as malformed JSON
		e.warnings["json.Unmarshal of bytes not produced by the modelled Marshal: reported as a syntax error"]++
		return e.newOpaqueErr("json: syntax error (modelled)", nil)
	}
	var id int
	fmt.Sscanf(s[len(jsonTokPrefix):], "%08d", &id)
	if id < 0 || id >= len(e.jsonBlobs) {
		return e.newOpaqueErr("json: syntax error (modelled)", nil)
	}
	blob := e.jsonBlobs[id]
	pt, ok := tgt.t.Underlying().(*types.Pointer)
	if !ok {
		return e.newOpaqueErr("json: Unmarshal(non-pointer)", nil)
	}
	if !types.Identical(pt.Elem(), blob.t) {
		e.unsupported("json.Unmarshal into " + pt.Elem().String() + " of a value marshalled as " + blob.t.String())
	}
	e.store(tgt.v.(Pointer), e.jsonStrip(blob.t, blob.v))
	return Iface{}
}

// jsonSameValue is a conservative syntactic equality (false when unsure) used to give equal
// values equal Marshal tokens.
func (e *Exec) jsonSameValue(a, b Value) bool {
	switch av := a.(type) {
	case *Term:
		bv, ok := b.(*Term)
		if !ok {
			return false
		}
		if av == bv {
			return true
		}
		return av.IsConst() && bv.IsConst() && av.W == bv.W && av.Val == bv.Val
	case *Str:
		bv, ok := b.(*Str)
		if !ok {
			return false
		}
		ab, bb := e.strBytes(av), e.strBytes(bv)
		if len(ab) != len(bb) {
			return false
		}
		for i := range ab {
			if !e.jsonSameValue(ab[i], bb[i]) {
				return false
			}
		}
		return true
	case Struct:
		bv, ok := b.(Struct)
		if !ok || len(av) != len(bv) {
			return false
		}
		for i := range av {
			if !e.jsonSameValue(av[i], bv[i]) {
				return false
			}
		}
		return true
	case Array:
		bv, ok := b.(Array)
		if !ok || len(av) != len(bv) {
			return false
		}
		for i := range av {
			if !e.jsonSameValue(av[i], bv[i]) {
				return false
			}
		}
		return true
	case Slice:
		bv, ok := b.(Slice)
		if !ok || (av.arr == nil) != (bv.arr == nil) || av.len != bv.len {
			return false
		}
		for i := 0; i < av.len; i++ {
			if !e.jsonSameValue(e.loadLoc(av.arr.kids[av.off+i]), e.loadLoc(bv.arr.kids[bv.off+i])) {
				return false
			}
		}
		return true
	case Pointer:
		bv, ok := b.(Pointer)
		if !ok {
			return false
		}
		if av.IsNil() || bv.IsNil() {
			return av.IsNil() && bv.IsNil()
		}
		return e.jsonSameValue(e.load(av), e.load(bv))
	case Iface:
		bv, ok := b.(Iface)
		return ok && av.t == nil && bv.t == nil
	}
	return false
}
