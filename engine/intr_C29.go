package main

import "go/types"

// Models needed by the C29 (channelappend batch shaping) harness, which calls the real
// appendEffect.run. run only uses the wall clock for metrics (effect / append durations handed to
// observers); no decision of the code under test depends on it in the harness (item deadlines are
// zero, server timestamps are pre-assigned). The clock is therefore frozen at the zero time.Time and
// every measured duration is 0.
func init() {
	extraIntrinsics = append(extraIntrinsics, func(p *Program) {
		if p.check == nil || p.check.Property != "C29" {
			return
		}
		p.intrinsics["time.Now"] = func(e *Exec, fr *frame, args []Value) Value {
			sp := e.prog.pkgs["time"]
			if sp == nil {
				e.unsupported("time must be listed in check.json std")
			}
			var t types.Type = sp.Func("Now").Signature.Results().At(0).Type()
			return e.zero(t)
		}
		zeroDur := func(e *Exec, fr *frame, args []Value) Value { return e.ts.BV(64, 0) }
		p.intrinsics["time.Since"] = zeroDur
		p.intrinsics["github.com/WuKongIM/WuKongIM/pkg/observability/sendtrace.Elapsed"] = zeroDur
	})
}
