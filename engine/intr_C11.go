package main

import (
	"go/types"
	"hash/crc32"
	"strings"
)

// Models needed by the C11 harnesses (backup / restore snapshots of pkg/db/meta and pkg/db/message).
//
//  1. Streaming CRC: the snapshot stream writer / verifier use crc32.NewIEEE() and feed the digest
//     through io.MultiWriter / io.CopyN. digest.Write goes through the package-internal update(),
//     which dispatches to an architecture kernel selected by ieeeInit (CPU-feature probes, assembly).
//     ieeeInit becomes a no-op and update() is routed to the same model as crc32.Update (portable
//     simpleUpdate, or the uninterpreted step function under "abstract_crc").
//     crc32.New (which would call the nil ieeeInitOnce) builds the digest directly.
//  2. Per-entry exact CRC: C11 runs with "abstract_crc": true (row envelope and snapshot checksums as an
//     uninterpreted step function: enough for round trips, useless for "one changed byte is detected").
//     Entries whose name contains "ExactCRC" get the exact CRC instead, for all four entry points: the real
//     hash/crc32 on concrete streams, its GF(2)-affine closed form on streams with symbolic bytes.
//
//  3. hash/maphash (idempotency membership filter of the message DB): FNV-1a for concrete keys, as for C07/C09.
//
// Scope: only for check.json property C11.
func init() {
	extraIntrinsics = append(extraIntrinsics, func(p *Program) {
		if p.check == nil || p.check.Property != "C11" {
			return
		}
		exact := func(e *Exec) bool { return strings.Contains(e.entryName, "ExactCRC") }
		tableDriven := func(e *Exec, fr *frame, crc, tab, data Value) Value {
			sp := e.prog.pkgs["hash/crc32"]
			if sp == nil {
				e.unsupported("hash/crc32 must be listed in check.json std")
			}
			r := e.callFunction(fr, sp.Func("simpleUpdate"), []Value{crc, tab, data}, nil)
			e.curFrame = fr
			return r
		}
		// Exact model: for a fixed table and length n, (crc, p) -> Update(crc, tab, p) is affine over GF(2):
		//   Update(c, T, p) = Update(0, T, 0^n) xor A*c xor B*p.
		// Concrete streams are evaluated with the real hash/crc32; for a stream with symbolic bytes (the
		// corrupted byte) or a symbolic running state (digest.Write after such a byte) the term is the constant
		// part xor one guarded constant per non-constant input bit, with coefficients computed by the real
		// hash/crc32 on the table contents. The identity is validated natively for every (table, n) on first use
		// (c07CrcValidate, shared with intr_C07.go). Falls back to the table-driven code when the table or the
		// operands are not of the expected form.
		simple := func(e *Exec, fr *frame, crc, tab, data Value) Value {
			ct, okc := crc.(*Term)
			tp, okt := tab.(Pointer)
			if !okc || !okt || tp.loc == nil {
				return tableDriven(e, fr, crc, tab, data)
			}
			var bs []*Term
			switch pv := data.(type) {
			case Slice:
				bs = e.byteSliceTerms(pv)
			case *Str:
				bs = e.strBytes(pv)
			default:
				return tableDriven(e, fr, crc, tab, data)
			}
			n := len(bs)
			if n == 0 {
				return ct
			}
			tv, okArr := e.load(tp).(Array)
			if !okArr || len(tv) != 256 {
				return tableDriven(e, fr, crc, tab, data)
			}
			var table crc32.Table
			for i, v := range tv {
				t, isT := v.(*Term)
				if !isT || !t.IsConst() {
					return tableDriven(e, fr, crc, tab, data)
				}
				table[i] = uint32(t.Val)
			}
			buf := make([]byte, n)
			allConst := ct.IsConst()
			for i, b := range bs {
				if b.W != 8 {
					return tableDriven(e, fr, crc, tab, data)
				}
				if b.IsConst() {
					buf[i] = byte(b.Val)
				} else {
					allConst = false
				}
			}
			if allConst {
				return e.ts.BV(32, uint64(c07CrcNative(&table, uint32(ct.Val), buf)))
			}
			c07CrcValidate(&table, n)
			zero := make([]byte, n)
			k0 := c07CrcNative(&table, 0, zero)
			// constant part: the constant bytes (symbolic positions zero) and the constant bits of the state
			konst := c07CrcNative(&table, 0, buf)
			var guarded []*Term
			add := func(bit *Term, coef uint32) {
				if coef == 0 {
					return
				}
				if bit.IsConst() {
					if bit.Val != 0 {
						konst ^= coef
					}
					return
				}
				guarded = append(guarded, e.ts.Ite(e.ts.Eq(bit, e.ts.BV(1, 1)), e.ts.BV(32, uint64(coef)), e.ts.BV(32, 0)))
			}
			if ct.IsConst() {
				konst ^= c07CrcNative(&table, uint32(ct.Val), zero) ^ k0
			} else {
				for i := 0; i < 32; i++ {
					add(e.ts.Extract(ct, i, i), c07CrcNative(&table, 1<<uint(i), zero)^k0)
				}
			}
			unit := make([]byte, n)
			for j, b := range bs {
				if b.IsConst() {
					continue
				}
				for k := 0; k < 8; k++ {
					unit[j] = 1 << uint(k)
					co := c07CrcNative(&table, 0, unit) ^ k0
					unit[j] = 0
					add(e.ts.Extract(b, k, k), co)
				}
			}
			t := e.ts.BV(32, uint64(konst))
			for _, g := range guarded {
				t = e.ts.Bin(OpBvXor, t, g)
			}
			return t
		}
		ieeeTab := func(e *Exec) Value {
			sp := e.prog.pkgs["hash/crc32"]
			if sp == nil {
				e.unsupported("hash/crc32 must be listed in check.json std")
			}
			return e.load(Pointer{loc: e.globalLoc(sp.Var("IEEETable"))})
		}
		oldIEEE := p.intrinsics["hash/crc32.ChecksumIEEE"]
		oldSum := p.intrinsics["hash/crc32.Checksum"]
		oldUpd := p.intrinsics["hash/crc32.Update"]
		p.intrinsics["hash/crc32.ChecksumIEEE"] = func(e *Exec, fr *frame, args []Value) Value {
			if exact(e) {
				return simple(e, fr, e.ts.BV(32, 0), ieeeTab(e), args[0])
			}
			return oldIEEE(e, fr, args)
		}
		p.intrinsics["hash/crc32.Checksum"] = func(e *Exec, fr *frame, args []Value) Value {
			if exact(e) {
				return simple(e, fr, e.ts.BV(32, 0), args[1], args[0])
			}
			return oldSum(e, fr, args)
		}
		p.intrinsics["hash/crc32.Update"] = func(e *Exec, fr *frame, args []Value) Value {
			if exact(e) {
				return simple(e, fr, args[0], args[1], args[2])
			}
			return oldUpd(e, fr, args)
		}
		// update(crc uint32, tab *Table, p []byte, checkInitIEEE bool) uint32
		p.intrinsics["hash/crc32.update"] = func(e *Exec, fr *frame, args []Value) Value {
			if exact(e) {
				return simple(e, fr, args[0], args[1], args[2])
			}
			return oldUpd(e, fr, args[:3])
		}
		p.intrinsics["hash/crc32.ieeeInit"] = func(e *Exec, fr *frame, args []Value) Value { return nil }
		// crc32.New(tab) = { if tab == IEEETable { ieeeInitOnce() }; return &digest{0, tab} }: ieeeInitOnce is
		// sync.OnceFunc(ieeeInit), a package-level func value that stays nil when sync is not executed
		// from source. Build the digest directly; its Write/Sum32/Sum/Reset methods run from source.
		p.intrinsics["hash/crc32.New"] = func(e *Exec, fr *frame, args []Value) Value {
			sp := e.prog.pkgs["hash/crc32"]
			if sp == nil {
				e.unsupported("hash/crc32 must be listed in check.json std")
			}
			named := sp.Type("digest").Type()
			l := e.newLoc(named)
			e.storeLoc(l.kids[0], e.ts.BV(32, 0))
			e.storeLoc(l.kids[1], args[0])
			return Iface{t: types.NewPointer(named), v: Pointer{loc: l}}
		}
		// hash/maphash for the message-side entries (real MessageDB on the in-memory engine): the same model as
		// intr_C07.go / intr_C09.go - for concrete key bytes one concrete function (FNV-1a over seed and bytes),
		// a legitimate instance of "some hash function"; filter soundness for every hash is C08's obligation.
		p.intrinsics["hash/maphash.MakeSeed"] = func(e *Exec, fr *frame, args []Value) Value {
			s := c08State(e)
			s.seeds++
			return Struct{e.ts.BV(64, uint64(s.seeds))}
		}
		applyHash := func(e *Exec, seedV Value, bs []*Term) Value {
			if st, ok := seedV.(Struct); ok && len(st) == 1 {
				if seed, ok := st[0].(*Term); ok && seed.IsConst() {
					if h, ok := c07ConcreteHash(seed.Val, bs); ok {
						return e.ts.BV(64, h)
					}
				}
			}
			return c08Apply(e, seedV, bs)
		}
		p.intrinsics["hash/maphash.Bytes"] = func(e *Exec, fr *frame, args []Value) Value {
			sl, ok := args[1].(Slice)
			if !ok {
				e.unsupported("hash/maphash.Bytes: argument is not a slice")
			}
			return applyHash(e, args[0], e.byteSliceTerms(sl))
		}
		p.intrinsics["hash/maphash.String"] = func(e *Exec, fr *frame, args []Value) Value {
			st, ok := args[1].(*Str)
			if !ok {
				e.unsupported("hash/maphash.String: argument is not a string")
			}
			return applyHash(e, args[0], e.strBytes(st))
		}
	})
}
