package main

// Models needed by the C23 (client stream decoding) harness.
func init() {
	extraIntrinsics = append(extraIntrinsics, func(p *Program) {
		// github.com/pkg/errors captures a stack trace in New/Errorf/Wrap/WithStack through
		// callers() -> runtime.Callers(skip, pcs[:]). The trace is only ever formatted (%+v), never
		// inspected by the code under test. Model: no program counter is recorded (returns 0 and
		// leaves pcs untouched), so the captured stack is empty.
		p.intrinsics["runtime.Callers"] = func(e *Exec, fr *frame, args []Value) Value {
			return e.ts.BV(64, 0)
		}
	})
}
