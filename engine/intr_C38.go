package main

// Models needed by the C38 harness (pkg/backup: self-verifying full-backup archives). Scope: only for
// check.json property C38.
//
//  1. encoding/json (Marshal, Unmarshal, NewDecoder, Decoder.DisallowUnknownFields / Decode) is EXACT: the
//     engine mirrors the go/types struct (nested structs, slices of structs, named string / integer types
//     without marshalling methods) with reflect.StructOf and runs the real encoding/json of the engine
//     process on the text. Integers and bools must be concrete. A string may contain symbolic bytes (the hex
//     digests of an abstract SHA-256) provided every symbolic byte is, under the path condition, a byte that
//     JSON writes and reads verbatim inside a string literal (0x20..0x7e except '"', '\\', '<', '>', '&';
//     proved structurally for hex characters, otherwise by one solver query). Such a byte travels through
//     the real codec as a private-use rune U+E000+k standing for "symbolic byte k" and is put back
//     afterwards; in decoded text it must lie inside a string VALUE (not a key, not between tokens) -
//     anything else is refused as unsupported, never guessed. So every accept / reject decision and every
//     produced byte is the real library's.
//  2. crypto/sha256: a stream of concrete bytes gets the real digest (so the 254 concrete filler slots of a
//     256-slot archive cost no solver variables and replay natively); a stream with symbolic bytes gets the
//     abstract model of crypto.go (fresh digest, never zero, equal to another digest iff the streams are
//     equal - also against the concretely hashed streams), with the pairwise constraints written on the
//     four 64-bit digest words instead of 32 bytes (a 256-Slot archive path has ~1000 hash applications).
//  3. encoding/hex.EncodeToString / DecodeString and strings.ToLower: exact closed forms per byte instead
//     of 256-way table look-ups (validateSHA256 runs on every digest of every manifest; from source that is
//     ~130 solver queries per call).
//  4. fmt.Sprintf with concrete operands: the real fmt.Sprintf (repository keys are built with %03d / %06d).
//     A symbolic integer operand is concretised (forks over its feasible values).

import (
	"bytes"
	"crypto/sha256"
	"encoding/json"
	"fmt"
	"go/types"
	"io"
	"reflect"
	"sort"
	"strings"
	"sync"
	"time"
	"unicode/utf8"
	"weak"
)

type c38Dec struct {
	dec   *json.Decoder
	holes []*Term
}

type c38State struct {
	hex   map[*Term]*Term // hex character term -> its 4-bit nibble
	plain map[*Term]bool  // proved "verbatim JSON string byte"
	decs  map[*Loc]*c38Dec
	apps  []*c38HashApp
}

var c38 struct {
	mu sync.Mutex
	st map[weak.Pointer[Exec]]*c38State
	n  int
}

func c38Of(e *Exec) *c38State {
	c38.mu.Lock()
	defer c38.mu.Unlock()
	if c38.st == nil {
		c38.st = map[weak.Pointer[Exec]]*c38State{}
	}
	wp := weak.Make(e)
	s := c38.st[wp]
	if s == nil {
		c38.n++
		if c38.n%256 == 0 {
			for k := range c38.st {
				if k.Value() == nil {
					delete(c38.st, k)
				}
			}
		}
		s = &c38State{hex: map[*Term]*Term{}, plain: map[*Term]bool{}, decs: map[*Loc]*c38Dec{}}
		c38.st[wp] = s
	}
	return s
}

const c38HoleBase = 0xE000
const c38HoleMax = 0xF8FF - 0xE000

func c38PlainByte(c byte) bool {
	return c >= 0x20 && c <= 0x7e && c != '"' && c != '\\' && c != '<' && c != '>' && c != '&'
}

// c38Set is a set of byte values.
type c38Set [4]uint64

func (s *c38Set) add(c byte) { s[c>>6] |= 1 << (c & 63) }
func (s c38Set) subsetOf(o c38Set) bool {
	for i := range s {
		if s[i]&^o[i] != 0 {
			return false
		}
	}
	return true
}

var c38PlainSet, c38HexSet, c38ASCIISet, c38UpperSet c38Set

func init() {
	for c := 0; c < 256; c++ {
		if c38PlainByte(byte(c)) {
			c38PlainSet.add(byte(c))
		}
		if c < 0x80 {
			c38ASCIISet.add(byte(c))
		}
		if c >= 'A' && c <= 'Z' {
			c38UpperSet.add(byte(c))
		}
	}
	for _, c := range []byte("0123456789abcdef") {
		c38HexSet.add(c)
	}
}

// c38Vals is a structural over-approximation of the values of an 8-bit term: constants, hex characters
// produced by the EncodeToString model, and if-then-else trees over those (what a symbolic index into a
// literal string, or a conditional replacement of one character, looks like). ok=false: unknown.
func c38Vals(e *Exec, t *Term, depth int) (set c38Set, ok bool) {
	if t.IsConst() {
		set.add(byte(t.Val))
		return set, true
	}
	if _, isHex := c38Of(e).hex[t]; isHex {
		return c38HexSet, true
	}
	if t.Op == OpIte && depth < 64 {
		a, oka := c38Vals(e, t.Args[1], depth+1)
		b, okb := c38Vals(e, t.Args[2], depth+1)
		if oka && okb {
			for i := range a {
				a[i] |= b[i]
			}
			return a, true
		}
	}
	return set, false
}

// c38Shape prints the operator skeleton of a term (diagnostics).
func c38Shape(t *Term, depth int) string {
	if t.IsConst() {
		return fmt.Sprintf("%#x", t.Val)
	}
	if t.Op == OpVar {
		return t.Name
	}
	if depth == 0 {
		return "..."
	}
	name := opNames[t.Op]
	if name == "" {
		name = fmt.Sprintf("op%d", t.Op)
	}
	parts := []string{name}
	for _, a := range t.Args {
		parts = append(parts, c38Shape(a, depth-1))
	}
	return "(" + strings.Join(parts, " ") + ")"
}

// c38Plain reports whether the symbolic byte t is provably a verbatim JSON string byte on this path.
func c38Plain(e *Exec, t *Term) bool {
	st := c38Of(e)
	if _, ok := st.hex[t]; ok || st.plain[t] {
		return true
	}
	if set, ok := c38Vals(e, t, 0); ok && set.subsetOf(c38PlainSet) {
		st.plain[t] = true
		return true
	}
	ts := e.ts
	in := func(lo, hi byte) *Term {
		return ts.And(ts.Cmp(OpUle, ts.BV(8, uint64(lo)), t), ts.Cmp(OpUle, t, ts.BV(8, uint64(hi))))
	}
	ok := in(0x20, 0x7e)
	for _, c := range []byte{'"', '\\', '<', '>', '&'} {
		ok = ts.And(ok, ts.Not(ts.Eq(t, ts.BV(8, uint64(c)))))
	}
	if e.solver == nil {
		return false
	}
	r := e.checkWith(ts.Not(ok), e.prog.cfg.AssertTimeoutMs)
	e.popCheck()
	if r == "unsat" {
		st.plain[t] = true
		return true
	}
	return false
}

func c38HexChar(e *Exec, nib *Term) *Term {
	ts := e.ts
	if nib.IsConst() {
		return ts.BV(8, uint64("0123456789abcdef"[nib.Val&15]))
	}
	n8 := ts.Zext(nib, 4)
	c := ts.Ite(ts.Cmp(OpUlt, n8, ts.BV(8, 10)), ts.Bin(OpAdd, n8, ts.BV(8, '0')), ts.Bin(OpAdd, n8, ts.BV(8, 'a'-10)))
	if !c.IsConst() {
		c38Of(e).hex[c] = nib
	}
	return c
}

// ---------------------------------------------------------------- reflect mirror of go/types

type c38Mirror struct {
	e     *Exec
	holes *[]*Term
	cache map[types.Type]reflect.Type
	pua   bool // a concrete byte 0xEE / 0xEF (lead byte of the hole runes) was seen
}

// check refuses the one combination the hole encoding cannot represent: literal private-use-area
// bytes next to symbolic bytes. A text without symbolic bytes is passed through unchanged.
func (m *c38Mirror) check() {
	if m.pua && len(*m.holes) > 0 {
		m.e.unsupported("encoding/json model: private-use-area bytes together with symbolic bytes")
	}
}

func (m *c38Mirror) typ(t types.Type) reflect.Type {
	if rt, ok := m.cache[t]; ok {
		return rt
	}
	e := m.e
	var rt reflect.Type
	if c38IsRawMessage(t) {
		rt = reflect.TypeOf(json.RawMessage{})
		m.cache[t] = rt
		return rt
	}
	if c38IsTime(t) {
		rt = reflect.TypeOf(time.Time{})
		m.cache[t] = rt
		return rt
	}
	if n, ok := t.(*types.Named); ok && n.NumMethods() > 0 {
		for i := 0; i < n.NumMethods(); i++ {
			switch n.Method(i).Name() {
			case "MarshalJSON", "UnmarshalJSON", "MarshalText", "UnmarshalText":
				e.unsupported("encoding/json model: type with custom marshalling " + t.String())
			}
		}
	}
	switch u := t.Underlying().(type) {
	case *types.Basic:
		switch u.Kind() {
		case types.String:
			rt = reflect.TypeOf("")
		case types.Bool:
			rt = reflect.TypeOf(false)
		case types.Uint8:
			rt = reflect.TypeOf(uint8(0))
		case types.Uint16:
			rt = reflect.TypeOf(uint16(0))
		case types.Uint32:
			rt = reflect.TypeOf(uint32(0))
		case types.Uint64:
			rt = reflect.TypeOf(uint64(0))
		case types.Uint:
			rt = reflect.TypeOf(uint(0))
		case types.Int8:
			rt = reflect.TypeOf(int8(0))
		case types.Int16:
			rt = reflect.TypeOf(int16(0))
		case types.Int32:
			rt = reflect.TypeOf(int32(0))
		case types.Int64:
			rt = reflect.TypeOf(int64(0))
		case types.Int:
			rt = reflect.TypeOf(int(0))
		}
	case *types.Struct:
		fs := make([]reflect.StructField, u.NumFields())
		for i := range fs {
			f := u.Field(i)
			if !f.Exported() {
				e.unsupported("encoding/json model: unexported field " + f.Name())
			}
			if f.Embedded() {
				if _, isStruct := f.Type().Underlying().(*types.Struct); !isStruct {
					e.unsupported("encoding/json model: embedded non-struct field " + f.Name())
				}
			}
			fs[i] = reflect.StructField{Name: f.Name(), Type: m.typ(f.Type()), Tag: reflect.StructTag(u.Tag(i)), Anonymous: f.Embedded()}
		}
		rt = reflect.StructOf(fs)
	case *types.Slice:
		if b, ok := u.Elem().Underlying().(*types.Basic); ok && b.Kind() == types.Uint8 {
			rt = reflect.TypeOf([]byte(nil))
		} else {
			rt = reflect.SliceOf(m.typ(u.Elem()))
		}
	case *types.Pointer:
		rt = reflect.PointerTo(m.typ(u.Elem()))
	case *types.Map:
		if b, ok := u.Key().Underlying().(*types.Basic); !ok || b.Kind() != types.String {
			e.unsupported("encoding/json model: map with a non-string key")
		}
		rt = reflect.MapOf(reflect.TypeOf(""), m.typ(u.Elem()))
	case *types.Interface:
		if u.NumMethods() != 0 {
			e.unsupported("encoding/json model: non-empty interface field")
		}
		rt = reflect.TypeOf((*any)(nil)).Elem()
	}
	if rt == nil {
		e.unsupported(fmt.Sprintf("encoding/json model: unsupported type %s", t))
	}
	m.cache[t] = rt
	return rt
}

// str converts an engine string to Go text, writing symbolic bytes as hole runes.
func (m *c38Mirror) str(s *Str) string {
	e := m.e
	if cs, ok := s.Concrete(); ok {
		if strings.IndexByte(cs, 0xEE) >= 0 || strings.IndexByte(cs, 0xEF) >= 0 {
			m.pua = true
		}
		return cs
	}
	var sb strings.Builder
	for _, t := range s.b {
		if t.IsConst() {
			if t.Val == 0xEE || t.Val == 0xEF {
				m.pua = true
			}
			sb.WriteByte(byte(t.Val))
			continue
		}
		if !c38Plain(e, t) {
			e.unsupported("encoding/json model: symbolic string byte that JSON may not copy verbatim: " + c38Shape(t, 4))
		}
		if len(*m.holes) >= c38HoleMax {
			e.unsupported("encoding/json model: too many symbolic bytes")
		}
		sb.WriteRune(rune(c38HoleBase + len(*m.holes)))
		*m.holes = append(*m.holes, t)
	}
	return sb.String()
}

// unstr converts Go text with hole runes back to terms.
func (m *c38Mirror) unstr(s string) []*Term {
	e := m.e
	out := make([]*Term, 0, len(s))
	for i := 0; i < len(s); {
		if len(*m.holes) > 0 && (s[i] == 0xEE || s[i] == 0xEF) {
			r, n := utf8.DecodeRuneInString(s[i:])
			if k := int(r) - c38HoleBase; n == 3 && k >= 0 && k < len(*m.holes) {
				out = append(out, (*m.holes)[k])
				i += n
				continue
			}
			e.unsupported("encoding/json model: private-use rune that is not a symbolic byte")
		}
		out = append(out, e.ts.BV(8, uint64(s[i])))
		i++
	}
	return out
}

func (m *c38Mirror) toReflect(rv reflect.Value, t types.Type, v Value) {
	e := m.e
	if c38IsTime(t) {
		// time.Time{wall, ext, loc}: only wall-clock UTC instants without a monotonic reading
		sv, ok := v.(Struct)
		if !ok || len(sv) != 3 {
			e.unsupported("encoding/json model: unexpected time.Time layout")
		}
		wall, ok1 := sv[0].(*Term)
		ext, ok2 := sv[1].(*Term)
		loc, ok3 := sv[2].(Pointer)
		if !ok1 || !ok2 || !ok3 || !wall.IsConst() || !ext.IsConst() {
			e.unsupported("encoding/json model: symbolic time.Time field")
		}
		if wall.Val>>63 != 0 || !loc.IsNil() {
			e.unsupported("encoding/json model: time.Time with a monotonic reading or a non-UTC location")
		}
		rv.Set(reflect.ValueOf(time.Unix(int64(ext.Val)-62135596800, int64(wall.Val&0x3fffffff)).UTC()))
		return
	}
	switch u := t.Underlying().(type) {
	case *types.Basic:
		switch rv.Kind() {
		case reflect.String:
			s, ok := v.(*Str)
			if !ok {
				e.unsupported("encoding/json model: string field holds a non-string")
			}
			rv.SetString(m.str(s))
		case reflect.Bool:
			tm := v.(*Term)
			if !tm.IsConst() {
				e.unsupported("encoding/json model: symbolic bool field")
			}
			rv.SetBool(tm.Val != 0)
		case reflect.Uint8, reflect.Uint16, reflect.Uint32, reflect.Uint64, reflect.Uint:
			tm := v.(*Term)
			if !tm.IsConst() {
				e.unsupported("encoding/json model: symbolic integer field")
			}
			rv.SetUint(tm.Val)
		default:
			tm := v.(*Term)
			if !tm.IsConst() {
				e.unsupported("encoding/json model: symbolic integer field")
			}
			rv.SetInt(sext64(tm.Val, tm.W))
		}
	case *types.Struct:
		sv, ok := v.(Struct)
		if !ok || len(sv) != u.NumFields() {
			e.unsupported("encoding/json model: unexpected struct layout")
		}
		for i := range sv {
			m.toReflect(rv.Field(i), u.Field(i).Type(), sv[i])
		}
	case *types.Slice:
		s := v.(Slice)
		if s.arr == nil {
			return
		}
		if b, ok := u.Elem().Underlying().(*types.Basic); ok && b.Kind() == types.Uint8 {
			bs := make([]byte, s.len)
			for i, tm := range e.byteSliceTerms(s) {
				if !tm.IsConst() {
					e.unsupported("encoding/json model: symbolic byte-slice field")
				}
				bs[i] = byte(tm.Val)
			}
			rv.SetBytes(bs)
			return
		}
		out := reflect.MakeSlice(rv.Type(), s.len, s.len)
		for i := 0; i < s.len; i++ {
			m.toReflect(out.Index(i), u.Elem(), e.loadLoc(s.arr.kids[s.off+i]))
		}
		rv.Set(out)
	case *types.Pointer:
		ptr, ok := v.(Pointer)
		if !ok {
			e.unsupported("encoding/json model: pointer field holds a non-pointer")
		}
		if ptr.IsNil() {
			return
		}
		nv := reflect.New(rv.Type().Elem())
		m.toReflect(nv.Elem(), u.Elem(), e.load(ptr))
		rv.Set(nv)
	case *types.Map:
		mo, _ := v.(*MapObj)
		if mo == nil {
			return
		}
		out := reflect.MakeMap(rv.Type())
		for _, en := range mo.entries {
			k, ok := en.key.(*Str).Concrete()
			if !ok {
				e.unsupported("encoding/json model: symbolic map key")
			}
			ev := reflect.New(rv.Type().Elem()).Elem()
			m.toReflect(ev, u.Elem(), en.val)
			out.SetMapIndex(reflect.ValueOf(k), ev)
		}
		rv.Set(out)
	case *types.Interface:
		ifc, ok := v.(Iface)
		if !ok {
			e.unsupported("encoding/json model: interface field holds a non-interface")
		}
		if ifc.t == nil {
			return
		}
		if g, isGeneric := ifc.v.(*c38Generic); isGeneric {
			rv.Set(reflect.ValueOf(g.v))
			return
		}
		nv := reflect.New(m.typ(ifc.t)).Elem()
		m.toReflect(nv, ifc.t, ifc.v)
		rv.Set(nv)
	default:
		e.unsupported(fmt.Sprintf("encoding/json model: unsupported value type %s", t))
	}
}

// c38Generic is a generic JSON value (what encoding/json decodes into an empty interface:
// map[string]any, []any, float64, string, bool, nil) kept as an opaque concrete Go value.
type c38Generic struct{ v any }

func c38IsTime(t types.Type) bool {
	n, ok := t.(*types.Named)
	return ok && n.Obj().Pkg() != nil && n.Obj().Pkg().Path() == "time" && n.Obj().Name() == "Time"
}

func c38IsRawMessage(t types.Type) bool {
	n, ok := t.(*types.Named)
	return ok && n.Obj().Pkg() != nil && n.Obj().Pkg().Path() == "encoding/json" && n.Obj().Name() == "RawMessage"
}

func (m *c38Mirror) fromReflect(rv reflect.Value, t types.Type) Value {
	e := m.e
	if c38IsTime(t) {
		tm := rv.Interface().(time.Time).UTC()
		st := t.Underlying().(*types.Struct)
		return Struct{e.ts.BV(64, uint64(tm.Nanosecond())), e.ts.BV(64, uint64(tm.Unix()+62135596800)), e.zero(st.Field(2).Type())}
	}
	switch u := t.Underlying().(type) {
	case *types.Basic:
		switch rv.Kind() {
		case reflect.String:
			return e.mkStr(m.unstr(rv.String()))
		case reflect.Bool:
			return e.ts.Bool(rv.Bool())
		case reflect.Uint8, reflect.Uint16, reflect.Uint32, reflect.Uint64, reflect.Uint:
			w, _, _ := intWidth(t)
			return e.ts.BV(w, rv.Uint())
		default:
			w, _, _ := intWidth(t)
			return e.ts.BV(w, uint64(rv.Int()))
		}
	case *types.Struct:
		out := make(Struct, u.NumFields())
		for i := range out {
			out[i] = m.fromReflect(rv.Field(i), u.Field(i).Type())
		}
		return out
	case *types.Slice:
		if rv.IsNil() {
			return Slice{}
		}
		if b, ok := u.Elem().Underlying().(*types.Basic); ok && b.Kind() == types.Uint8 {
			bs := rv.Bytes()
			ts := make([]*Term, len(bs))
			for i, c := range bs {
				ts[i] = e.ts.BV(8, uint64(c))
			}
			return e.newByteSlice(ts)
		}
		n := rv.Len()
		arr := e.newArrayLoc(u.Elem(), n)
		for i := 0; i < n; i++ {
			e.storeLoc(arr.kids[i], m.fromReflect(rv.Index(i), u.Elem()))
		}
		return Slice{arr: arr, len: n, cap: n}
	case *types.Pointer:
		if rv.IsNil() {
			return Pointer{}
		}
		l := e.newLoc(u.Elem())
		e.storeLoc(l, m.fromReflect(rv.Elem(), u.Elem()))
		return Pointer{loc: l}
	case *types.Map:
		if rv.IsNil() {
			return (*MapObj)(nil)
		}
		e.objID++
		mo := &MapObj{kt: u.Key(), vt: u.Elem(), id: e.objID}
		keys := rv.MapKeys()
		sort.Slice(keys, func(i, j int) bool { return keys[i].String() < keys[j].String() })
		for _, k := range keys {
			mo.entries = append(mo.entries, &mapEntry{key: &Str{s: k.String()}, val: m.fromReflect(rv.MapIndex(k), u.Elem())})
		}
		return mo
	case *types.Interface:
		if rv.IsNil() {
			return Iface{}
		}
		return Iface{t: t, v: &c38Generic{v: rv.Interface()}}
	}
	e.unsupported(fmt.Sprintf("encoding/json model: unsupported value type %s", t))
	return nil
}

// c38Text turns input bytes into Go text (symbolic bytes -> hole runes) and refuses texts whose
// symbolic bytes are not inside string values.
func (m *c38Mirror) text(bs []*Term) []byte {
	e := m.e
	txt := []byte(m.str(&Str{b: bs}))
	if len(bs) == 0 {
		txt = nil
	}
	m.check()
	if len(*m.holes) == 0 {
		return txt
	}
	if bytes.Contains(txt, []byte(`\u`)) {
		e.unsupported("encoding/json model: \\u escape in a text with symbolic bytes")
	}
	inStr, holed := false, false
	for i := 0; i < len(txt); i++ {
		c := txt[i]
		if !inStr {
			if c == 0xEE || c == 0xEF {
				e.unsupported("encoding/json model: symbolic byte outside a JSON string")
			}
			if c == '"' {
				inStr, holed = true, false
			}
			continue
		}
		switch c {
		case '\\':
			i++
		case 0xEE, 0xEF:
			holed = true
		case '"':
			inStr = false
			j := i + 1
			for j < len(txt) && (txt[j] == ' ' || txt[j] == '\t' || txt[j] == '\n' || txt[j] == '\r') {
				j++
			}
			if holed && j < len(txt) && txt[j] == ':' {
				e.unsupported("encoding/json model: symbolic byte inside an object key")
			}
		}
	}
	return txt
}

func c38Terms(e *Exec, v Value) []*Term {
	switch x := v.(type) {
	case Slice:
		if x.arr == nil || x.len == 0 {
			return nil
		}
		return e.byteSliceTerms(x)
	case *Str:
		return e.strBytes(x)
	}
	e.unsupported("expected bytes")
	return nil
}

func c38IoEOF(e *Exec) Value {
	pkg := e.prog.ssaProg.ImportedPackage("io")
	if pkg == nil || pkg.Var("EOF") == nil {
		e.unsupported("json.Decoder: io.EOF not found")
	}
	return e.loadLoc(e.globalLoc(pkg.Var("EOF")))
}

func c38JSONErr(e *Exec, err error) Value {
	if err == nil {
		return Iface{}
	}
	if err == io.EOF {
		return c38IoEOF(e)
	}
	if err == io.ErrUnexpectedEOF {
		pkg := e.prog.ssaProg.ImportedPackage("io")
		if pkg != nil && pkg.Var("ErrUnexpectedEOF") != nil {
			return e.loadLoc(e.globalLoc(pkg.Var("ErrUnexpectedEOF")))
		}
	}
	return e.newOpaqueErr("<encoding/json: "+err.Error()+">", nil)
}

// c38DecodeInto runs decode against a mirror of the pointer target and copies the result back.
func c38DecodeInto(e *Exec, m *c38Mirror, target Value, decode func(ptr any) error) Value {
	tgt, ok := target.(Iface)
	if !ok || tgt.t == nil {
		return c38JSONErr(e, decode(nil))
	}
	pt, ok := tgt.t.Underlying().(*types.Pointer)
	if !ok {
		e.unsupported(fmt.Sprintf("encoding/json model: target %s is not a pointer", tgt.t))
	}
	ptr := tgt.v.(Pointer)
	if ptr.IsNil() {
		e.unsupported("encoding/json model: nil pointer target")
	}
	rt := m.typ(pt.Elem())
	rp := reflect.New(rt)
	m.toReflect(rp.Elem(), pt.Elem(), e.load(ptr))
	m.check()
	err := decode(rp.Interface())
	e.store(ptr, m.fromReflect(rp.Elem(), pt.Elem()))
	return c38JSONErr(e, err)
}

// ---------------------------------------------------------------- SHA-256

type c38HashApp struct {
	stream []*Term
	out    []*Term // 32 byte terms
	words  []*Term // the four 64-bit digest variables of an abstract application (nil for a real digest)
	conc   [4]uint64
}

// c38Digest is the SHA-256 model of this check: the real digest for a concrete stream, otherwise four
// fresh 64-bit words constrained pairwise (at word level) against every earlier application on the
// path: equal digests iff equal streams, never the zero digest.
func c38Digest(e *Exec, stream []*Term) []*Term {
	st := c38Of(e)
	ts := e.ts
	for _, a := range st.apps {
		if len(a.stream) != len(stream) {
			continue
		}
		same := true
		for i := range stream {
			if a.stream[i] != stream[i] {
				same = false
				break
			}
		}
		if same {
			return a.out
		}
	}
	app := &c38HashApp{stream: append([]*Term{}, stream...)}
	concrete := true
	buf := make([]byte, len(stream))
	for i, t := range stream {
		if !t.IsConst() {
			concrete = false
			break
		}
		buf[i] = byte(t.Val)
	}
	if concrete {
		sum := sha256.Sum256(buf)
		app.out = make([]*Term, 32)
		for i, c := range sum {
			app.out[i] = ts.BV(8, uint64(c))
			app.conc[i/8] = app.conc[i/8]<<8 | uint64(c)
		}
	} else {
		idx := len(st.apps)
		nz := ts.Bool(false)
		for w := 0; w < 4; w++ {
			v := e.newInput(fmt.Sprintf("hash.sha256.%d.w%d", idx, w), 64)
			app.words = append(app.words, v)
			for b := 0; b < 8; b++ {
				hi := 63 - 8*b
				app.out = append(app.out, ts.Extract(v, hi, hi-7))
			}
			nz = ts.Or(nz, ts.Not(ts.Eq(v, ts.BV(64, 0))))
		}
		e.assertPC(nz)
	}
	word := func(a *c38HashApp, w int) *Term {
		if a.words != nil {
			return a.words[w]
		}
		return ts.BV(64, a.conc[w])
	}
	for _, a := range st.apps {
		if a.words == nil && app.words == nil {
			continue // two real digests
		}
		deq := ts.Bool(true)
		for w := 0; w < 4; w++ {
			deq = ts.And(deq, ts.Eq(word(a, w), word(app, w)))
		}
		if len(a.stream) != len(stream) {
			e.assertPC(ts.Not(deq))
			continue
		}
		seq := ts.Bool(true)
		for i := range stream {
			seq = ts.And(seq, ts.Eq(stream[i], a.stream[i]))
			if seq.IsFalse() {
				break
			}
		}
		e.assertPC(ts.Eq(deq, seq))
	}
	st.apps = append(st.apps, app)
	return app.out
}

// ---------------------------------------------------------------- registration

func init() {
	extraIntrinsics = append(extraIntrinsics, func(p *Program) {
		// C24 uses only the exact encoding/json model of this file (Decode of concrete JSON documents)
		jsonOnly := p.check != nil && (p.check.Property == "C24" || p.check.Property == "C18")
		if p.check == nil || (p.check.Property != "C38" && !jsonOnly) {
			return
		}
		// the encoding/json models of intr_C40.go and json.go register after this file and would replace
		// the ones below: chain the registration behind the last registered extension
		n := len(extraIntrinsics)
		last := extraIntrinsics[n-1]
		extraIntrinsics[n-1] = func(q *Program) {
			last(q)
			if q == p {
				if jsonOnly {
					c38RegisterJSON(q)
				} else {
					c38Register(q)
				}
			}
		}
	})
}

func c38Register(p *Program) {
	I := p.intrinsics

	// ---- crypto/sha256
	shaT := p.RegisterOpaque("c38sha256", map[string]intrinsic{
		"Write": func(e *Exec, fr *frame, args []Value) Value {
			h := args[0].(*hashObj)
			s := args[1].(Slice)
			if e.spec > 0 && h.id <= e.specObjStart {
				e.abortSpec("hash write")
			}
			if s.len > 0 {
				h.stream = append(h.stream, e.byteSliceTerms(s)...)
			}
			return Tuple{e.ts.BV(64, uint64(s.len)), Iface{}}
		},
		"Sum": func(e *Exec, fr *frame, args []Value) Value {
			h := args[0].(*hashObj)
			d := c38Digest(e, h.stream)
			vals := make([]Value, len(d))
			for i, t := range d {
				vals[i] = t
			}
			return e.appendValues(args[1].(Slice), vals, types.Typ[types.Uint8])
		},
		"Reset": func(e *Exec, fr *frame, args []Value) Value {
			args[0].(*hashObj).stream = nil
			return nil
		},
		"Size":      func(e *Exec, fr *frame, args []Value) Value { return e.ts.BV(64, 32) },
		"BlockSize": func(e *Exec, fr *frame, args []Value) Value { return e.ts.BV(64, 64) },
	})
	I["crypto/sha256.New"] = func(e *Exec, fr *frame, args []Value) Value {
		e.objID++
		return Iface{t: shaT, v: &hashObj{kind: "sha256", id: e.objID}}
	}
	I["crypto/sha256.Sum256"] = func(e *Exec, fr *frame, args []Value) Value {
		d := c38Digest(e, c38Terms(e, args[0]))
		arr := make(Array, len(d))
		for i, t := range d {
			arr[i] = t
		}
		return arr
	}

	// ---- encoding/hex, strings.ToLower
	I["encoding/hex.EncodeToString"] = func(e *Exec, fr *frame, args []Value) Value {
		bs := c38Terms(e, args[0])
		out := make([]*Term, 0, 2*len(bs))
		for _, b := range bs {
			out = append(out, c38HexChar(e, e.ts.Extract(b, 7, 4)), c38HexChar(e, e.ts.Extract(b, 3, 0)))
		}
		return e.mkStr(out)
	}
	I["encoding/hex.DecodeString"] = func(e *Exec, fr *frame, args []Value) Value {
		cs := c38Terms(e, args[0])
		ts := e.ts
		st := c38Of(e)
		valid := ts.Bool(true)
		nibs := make([]*Term, len(cs))
		for i, c := range cs {
			if nib, ok := st.hex[c]; ok {
				nibs[i] = nib
				continue
			}
			in := func(lo, hi byte) *Term {
				return ts.And(ts.Cmp(OpUle, ts.BV(8, uint64(lo)), c), ts.Cmp(OpUle, c, ts.BV(8, uint64(hi))))
			}
			dig, low, upp := in('0', '9'), in('a', 'f'), in('A', 'F')
			if set, ok := c38Vals(e, c, 0); !ok || !set.subsetOf(c38HexSet) {
				valid = ts.And(valid, ts.Or(dig, ts.Or(low, upp)))
			}
			v := ts.Ite(dig, ts.Bin(OpSub, c, ts.BV(8, '0')), ts.Ite(low, ts.Bin(OpSub, c, ts.BV(8, 'a'-10)), ts.Bin(OpSub, c, ts.BV(8, 'A'-10))))
			nibs[i] = ts.Extract(v, 3, 0)
		}
		// hex.DecodeString reports InvalidByteError for the first bad character of the even prefix, else
		// ErrLength for an odd length; callers under test only distinguish nil / non-nil, and the partial
		// output that accompanies an error is not modelled (returned empty).
		if !e.branch(valid) {
			return Tuple{Slice{}, e.newOpaqueErr("<encoding/hex: invalid byte>", nil)}
		}
		if len(cs)%2 == 1 {
			return Tuple{Slice{}, e.newOpaqueErr("<encoding/hex: odd length hex string>", nil)}
		}
		out := make([]*Term, len(cs)/2)
		for i := range out {
			out[i] = ts.Concat(nibs[2*i], nibs[2*i+1])
		}
		return Tuple{e.newByteSlice(out), Iface{}}
	}
	I["strings.ToLower"] = func(e *Exec, fr *frame, args []Value) Value {
		s := args[0].(*Str)
		if cs, ok := s.Concrete(); ok {
			return &Str{s: strings.ToLower(cs)}
		}
		// ASCII bytes are rune boundaries: lower-casing distributes over the split at symbolic ASCII bytes
		ts := e.ts
		st := c38Of(e)
		var out []*Term
		var seg []byte
		flush := func() {
			if len(seg) > 0 {
				for _, c := range []byte(strings.ToLower(string(seg))) {
					out = append(out, ts.BV(8, uint64(c)))
				}
				seg = seg[:0]
			}
		}
		for _, c := range s.b {
			if c.IsConst() {
				seg = append(seg, byte(c.Val))
				continue
			}
			flush()
			if _, ok := st.hex[c]; ok {
				out = append(out, c)
				continue
			}
			set, known := c38Vals(e, c, 0)
			if known && set.subsetOf(c38ASCIISet) {
				var none c38Set
				inter := set
				for i := range inter {
					inter[i] &= c38UpperSet[i]
				}
				if inter == none {
					out = append(out, c)
					continue
				}
			} else if !e.branch(ts.Cmp(OpUlt, c, ts.BV(8, 0x80))) {
				e.unsupported("strings.ToLower model: symbolic non-ASCII byte")
			}
			up := ts.And(ts.Cmp(OpUle, ts.BV(8, 'A'), c), ts.Cmp(OpUle, c, ts.BV(8, 'Z')))
			out = append(out, ts.Ite(up, ts.Bin(OpAdd, c, ts.BV(8, 32)), c))
		}
		flush()
		return e.mkStr(out)
	}

	// ---- io.Copy: io.CopyBuffer with a 256-byte buffer instead of the 32 KiB one io.Copy allocates (the
	// documented equivalence; one 32 KiB array per chunk, 768 chunk scans per archive path otherwise)
	I["io.Copy"] = func(e *Exec, fr *frame, args []Value) Value {
		sp := e.prog.pkgs["io"]
		if sp == nil || sp.Func("copyBuffer") == nil {
			e.unsupported("io must be listed in check.json std")
		}
		arr := e.newArrayLoc(types.Typ[types.Uint8], 256)
		buf := Slice{arr: arr, len: 256, cap: 256}
		r := e.callFunction(fr, sp.Func("copyBuffer"), []Value{args[0], args[1], buf}, nil)
		e.curFrame = fr
		return r
	}

	// ---- internal/bytealg.LastIndexByteString (path.Base) on concrete operands
	I["internal/bytealg.LastIndexByteString"] = func(e *Exec, fr *frame, args []Value) Value {
		cs, ok := args[0].(*Str).Concrete()
		c, okc := args[1].(*Term)
		if !ok || !okc || !c.IsConst() {
			e.unsupported("bytealg.LastIndexByteString model: symbolic operand")
		}
		return e.ts.BV(64, uint64(int64(strings.LastIndexByte(cs, byte(c.Val)))))
	}

	// ---- fmt.Sprintf on concrete operands
	I["fmt.Sprintf"] = func(e *Exec, fr *frame, args []Value) Value {
		format, ok := args[0].(*Str).Concrete()
		if !ok {
			e.unsupported("fmt.Sprintf model: symbolic format")
		}
		va := args[1].(Slice)
		goArgs := make([]any, va.len)
		for i := 0; i < va.len; i++ {
			ifc, ok := e.loadLoc(va.arr.kids[va.off+i]).(Iface)
			if !ok || ifc.t == nil {
				goArgs[i] = nil
				continue
			}
			if w, signed, isInt := intWidth(ifc.t); isInt {
				t := ifc.v.(*Term)
				v := t.Val
				if !t.IsConst() {
					v = e.concretize(t, "fmt.Sprintf integer operand")
				}
				if signed {
					goArgs[i] = sext64(v, w)
				} else {
					goArgs[i] = v
				}
				continue
			}
			if isString(ifc.t) {
				cs, ok := ifc.v.(*Str).Concrete()
				if !ok {
					e.unsupported("fmt.Sprintf model: symbolic string operand")
				}
				goArgs[i] = cs
				continue
			}
			e.unsupported(fmt.Sprintf("fmt.Sprintf model: operand of type %s", ifc.t))
		}
		return &Str{s: fmt.Sprintf(format, goArgs...)}
	}

	c38RegisterJSON(p)
}

// c38RegisterJSON: exact encoding/json (the real library on a reflect mirror of the Go types).
func c38RegisterJSON(p *Program) {
	I := p.intrinsics
	// C18: only the entries that restart through the real state codec ("ThroughCodec") use this exact
	// model; every other C18 entry keeps the models registered before (intr_C40.go: the controller
	// checksum view as four unconstrained bytes, which is what lets Revision stay symbolic there)
	if p.check != nil && p.check.Property == "C18" {
		names := []string{"encoding/json.Marshal", "encoding/json.Unmarshal", "encoding/json.Valid", "encoding/json.NewDecoder",
			"(*encoding/json.Decoder).DisallowUnknownFields", "(*encoding/json.Decoder).Decode", "(*encoding/json.Decoder).More", "(*encoding/json.Decoder).InputOffset"}
		prev := map[string]intrinsic{}
		for _, n := range names {
			prev[n] = I[n]
		}
		defer func() {
			for _, n := range names {
				exact, old, name := I[n], prev[n], n
				I[n] = func(e *Exec, fr *frame, args []Value) Value {
					if strings.Contains(e.entryName, "ThroughCodec") {
						return exact(e, fr, args)
					}
					if old == nil {
						e.unsupported("external function without intrinsic: " + name)
					}
					return old(e, fr, args)
				}
			}
		}()
	}
	I["encoding/json.Marshal"] = func(e *Exec, fr *frame, args []Value) Value {
		src, ok := args[0].(Iface)
		if !ok || src.t == nil {
			return Tuple{e.newByteSlice(e.strBytes(&Str{s: "null"})), Iface{}}
		}
		var holes []*Term
		m := &c38Mirror{e: e, holes: &holes, cache: map[types.Type]reflect.Type{}}
		t, v := src.t, src.v
		if pt, ok := t.Underlying().(*types.Pointer); ok {
			ptr := v.(Pointer)
			if ptr.IsNil() {
				return Tuple{e.newByteSlice(e.strBytes(&Str{s: "null"})), Iface{}}
			}
			t, v = pt.Elem(), e.load(ptr)
		}
		rp := reflect.New(m.typ(t))
		m.toReflect(rp.Elem(), t, v)
		m.check()
		out, err := json.Marshal(rp.Elem().Interface())
		if err != nil {
			return Tuple{Slice{}, c38JSONErr(e, err)}
		}
		return Tuple{e.newByteSlice(m.unstr(string(out))), Iface{}}
	}
	I["encoding/json.Unmarshal"] = func(e *Exec, fr *frame, args []Value) Value {
		var holes []*Term
		m := &c38Mirror{e: e, holes: &holes, cache: map[types.Type]reflect.Type{}}
		txt := m.text(c38Terms(e, args[0]))
		return c38DecodeInto(e, m, args[1], func(ptr any) error { return json.Unmarshal(txt, ptr) })
	}
	I["encoding/json.Valid"] = func(e *Exec, fr *frame, args []Value) Value {
		var holes []*Term
		m := &c38Mirror{e: e, holes: &holes, cache: map[types.Type]reflect.Type{}}
		return e.ts.Bool(json.Valid(m.text(c38Terms(e, args[0]))))
	}
	I["encoding/json.NewDecoder"] = func(e *Exec, fr *frame, args []Value) Value {
		r := args[0].(Iface)
		rp, ok := r.v.(Pointer)
		if !ok || rp.loc == nil || r.t == nil || !strings.HasSuffix(r.t.String(), "bytes.Reader") {
			e.unsupported("json.NewDecoder over a reader that is not *bytes.Reader")
		}
		s, ok := e.loadLoc(rp.loc.kids[0]).(Slice)
		if !ok {
			e.unsupported("json.NewDecoder: unexpected bytes.Reader layout")
		}
		pos, ok := e.loadLoc(rp.loc.kids[1]).(*Term)
		if !ok || !pos.IsConst() {
			e.unsupported("json.NewDecoder: symbolic reader position")
		}
		var bs []*Term
		if s.len > 0 && int(pos.Val) < s.len {
			bs = e.byteSliceTerms(s)[int(pos.Val):]
		}
		d := &c38Dec{}
		m := &c38Mirror{e: e, holes: &d.holes, cache: map[types.Type]reflect.Type{}}
		d.dec = json.NewDecoder(bytes.NewReader(m.text(bs)))
		l := e.newLoc(types.Typ[types.Uint8])
		c38Of(e).decs[l] = d
		return Pointer{loc: l}
	}
	decOf := func(e *Exec, v Value) *c38Dec {
		ptr, ok := v.(Pointer)
		if !ok || ptr.loc == nil || c38Of(e).decs[ptr.loc] == nil {
			e.unsupported("json.Decoder method on a decoder not created by the modelled NewDecoder")
		}
		return c38Of(e).decs[ptr.loc]
	}
	I["(*encoding/json.Decoder).DisallowUnknownFields"] = func(e *Exec, fr *frame, args []Value) Value {
		decOf(e, args[0]).dec.DisallowUnknownFields()
		return nil
	}
	I["(*encoding/json.Decoder).Decode"] = func(e *Exec, fr *frame, args []Value) Value {
		d := decOf(e, args[0])
		m := &c38Mirror{e: e, holes: &d.holes, cache: map[types.Type]reflect.Type{}}
		return c38DecodeInto(e, m, args[1], func(ptr any) error { return d.dec.Decode(ptr) })
	}
	I["(*encoding/json.Decoder).More"] = func(e *Exec, fr *frame, args []Value) Value {
		return e.ts.Bool(decOf(e, args[0]).dec.More())
	}
	I["(*encoding/json.Decoder).InputOffset"] = func(e *Exec, fr *frame, args []Value) Value {
		d := decOf(e, args[0])
		if len(d.holes) > 0 {
			e.unsupported("json.Decoder.InputOffset on a text with symbolic bytes")
		}
		return e.ts.BV(64, uint64(d.dec.InputOffset()))
	}
}
