package main

import (
	"crypto/sha256"
	"encoding/hex"
	"encoding/json"
	"fmt"
	"go/token"
	"go/types"
	"os"
	"path/filepath"
	"sort"
	"strings"
	"sync"
	"time"

	"golang.org/x/tools/go/packages"
	"golang.org/x/tools/go/ssa"
	"golang.org/x/tools/go/ssa/ssautil"
)

const repoMod = "github.com/WuKongIM/WuKongIM"
const symPkg = repoMod + "/internal/zzsym"

// EntryCfg describes one harness entry point.
type EntryCfg struct {
	Func      string   `json:"func"`   // pkgpath.Func
	Unwind    int      `json:"unwind"` // per-frame block visit bound
	UnwindT   int      `json:"unwind_thorough"`
	Witnesses []string `json:"witnesses"` // extra required labels (besides those found statically)
	MaxPaths  int      `json:"max_paths"`
	Thorough  bool     `json:"thorough_only"`
	Desc      string   `json:"desc"`
}

// CheckCfg is harness/<id>/check.json.
type CheckCfg struct {
	Property               string            `json:"property"`
	Packages               []string          `json:"packages"` // repo-relative package dirs loaded with bodies ("pkg/transport/wire")
	Std                    []string          `json:"std"`      // std / dependency packages loaded with bodies
	Overlay                map[string]string `json:"overlay"`  // repo-relative virtual path -> file relative to the harness dir
	Entries                []EntryCfg        `json:"entries"`
	Level                  string            `json:"level"`
	Explanation            string            `json:"explanation"`
	Assumptions            []string          `json:"assumptions"`
	Bounds                 map[string]string `json:"bounds"`
	Stubs                  []string          `json:"stubs"`
	SkipInit               []string          `json:"skip_init"`
	NoIntrinsic            []string          `json:"no_intrinsic"`
	Tags                   []string          `json:"build_tags"`
	TestTags               string            `json:"test_tags"`
	MaxSteps               int               `json:"max_steps"`
	MaxAlloc               int               `json:"max_alloc"`
	MaxConcretize          int               `json:"max_concretize"`
	AssertTimeoutS         int               `json:"assert_timeout_s"`
	AssertTimeoutThoroughS int               `json:"assert_timeout_thorough_s"`
	SelfTest               int               `json:"selftest"` // number of paths validated natively per entry (quick)
	SelfTestT              int               `json:"selftest_thorough"`
	TimeBudgetS            int               `json:"time_budget_s"`
	TimeBudgetThoroughS    int               `json:"time_budget_thorough_s"`
	NoSpeculate            bool              `json:"no_speculate"`
	AbstractCRC            bool              `json:"abstract_crc"`
	Replace                map[string]string `json:"replace"` // module path -> directory (relative to the harness dir) used via a generated -modfile
}

// prepareModfile writes dst/go.mod + go.sum (copies of the repo's, plus replace directives) and
// returns the go flag selecting it, or "" when the check has no replacements.
func prepareModfile(repo, hdir string, cc *CheckCfg, dst string) (string, error) {
	if len(cc.Replace) == 0 {
		return "", nil
	}
	mod, err := os.ReadFile(filepath.Join(repo, "go.mod"))
	if err != nil {
		return "", err
	}
	sum, _ := os.ReadFile(filepath.Join(repo, "go.sum"))
	var sb strings.Builder
	sb.Write(mod)
	sb.WriteString("\n")
	keys := make([]string, 0, len(cc.Replace))
	for k := range cc.Replace {
		keys = append(keys, k)
	}
	sort.Strings(keys)
	for _, k := range keys {
		d := cc.Replace[k]
		if !filepath.IsAbs(d) {
			d = filepath.Join(hdir, d)
		}
		d, _ = filepath.Abs(d)
		fmt.Fprintf(&sb, "replace %s => %s\n", k, d)
	}
	if err := os.WriteFile(filepath.Join(dst, "go.mod"), []byte(sb.String()), 0o644); err != nil {
		return "", err
	}
	os.WriteFile(filepath.Join(dst, "go.sum"), sum, 0o644)
	return "-modfile=" + filepath.Join(dst, "go.mod"), nil
}

type runCfg struct {
	BranchTimeoutMs int
	AssertTimeoutMs int
	MaxConcretize   int
	MaxSteps        int
	MaxAlloc        int
	MaxSymIndex     int
	ReverseMaps     bool
	SkipInit        map[string]bool
	NoIntrinsic     map[string]bool
	Thorough        bool
	NoSpeculate     bool
	AbstractCRC     bool
}

type stats struct {
	mu               sync.Mutex
	queries          int
	unknownBranch    int
	maxAlloc         int
	specOK, specFail int
}

func (s *stats) addQuery()         { s.mu.Lock(); s.queries++; s.mu.Unlock() }
func (s *stats) addUnknownBranch() { s.mu.Lock(); s.unknownBranch++; s.mu.Unlock() }
func (s *stats) addSpec(ok bool) {
	s.mu.Lock()
	if ok {
		s.specOK++
	} else {
		s.specFail++
	}
	s.mu.Unlock()
}
func (s *stats) setMaxAlloc(n int) {
	s.mu.Lock()
	if n > s.maxAlloc {
		s.maxAlloc = n
	}
	s.mu.Unlock()
}

type intrinsic func(e *Exec, fr *frame, args []Value) Value

// Program is the loaded SSA program plus the shared work list of one entry run.
type Program struct {
	ssaProg        *ssa.Program
	fset           *token.FileSet
	pkgs           map[string]*ssa.Package
	cfg            runCfg
	check          *CheckCfg
	stats          stats
	intrinsics     map[string]intrinsic
	noopPrefixes   []string
	runtimeErrType types.Type
	opaqueErrType  *types.Named
	harnessFiles   map[string]bool // absolute virtual paths of overlay harness files

	mu      sync.Mutex
	work    [][]uint64
	active  int
	cond    *sync.Cond
	stopped bool

	postdom map[*ssa.Function][]int
	pdmu    sync.Mutex
}

type fnInfo struct {
	idx map[ssa.Value]int
	n   int
}

var fnInfos sync.Map // *ssa.Function -> *fnInfo

// funcInfo numbers the SSA values of a function once (parameters, free variables, value-producing
// instructions) so that frames can use a slice instead of a map for their registers.
func (p *Program) funcInfo(fn *ssa.Function) *fnInfo {
	if v, ok := fnInfos.Load(fn); ok {
		return v.(*fnInfo)
	}
	info := &fnInfo{idx: map[ssa.Value]int{}}
	add := func(v ssa.Value) {
		if _, ok := info.idx[v]; !ok {
			info.idx[v] = info.n
			info.n++
		}
	}
	for _, pr := range fn.Params {
		add(pr)
	}
	for _, fv := range fn.FreeVars {
		add(fv)
	}
	for _, b := range fn.Blocks {
		for _, ins := range b.Instrs {
			if v, ok := ins.(ssa.Value); ok {
				add(v)
			}
		}
	}
	act, _ := fnInfos.LoadOrStore(fn, info)
	return act.(*fnInfo)
}

var forkSites = map[string]int{}
var forkMu sync.Mutex

func (p *Program) noteFork(site string) {
	if os.Getenv("SYMGO_FORKSTAT") == "" {
		return
	}
	forkMu.Lock()
	forkSites[site]++
	forkMu.Unlock()
}

func dumpForkSites() {
	if os.Getenv("SYMGO_FORKSTAT") == "" {
		return
	}
	type kv struct {
		k string
		v int
	}
	var l []kv
	for k, v := range forkSites {
		l = append(l, kv{k, v})
	}
	sort.Slice(l, func(i, j int) bool { return l[i].v > l[j].v })
	for i, e := range l {
		if i >= 25 {
			break
		}
		fmt.Fprintf(os.Stderr, "   fork site %6d  %s\n", e.v, e.k)
	}
}

func (p *Program) push(prefix []uint64) {
	p.mu.Lock()
	p.work = append(p.work, prefix)
	p.mu.Unlock()
	p.cond.Signal()
}

// pop blocks until work is available or everything is finished.
func (p *Program) pop() ([]uint64, bool) {
	p.mu.Lock()
	defer p.mu.Unlock()
	for {
		if p.stopped {
			return nil, false
		}
		if n := len(p.work); n > 0 {
			w := p.work[n-1]
			p.work = p.work[:n-1]
			p.active++
			return w, true
		}
		if p.active == 0 {
			p.cond.Broadcast()
			return nil, false
		}
		p.cond.Wait()
	}
}

func (p *Program) done() {
	p.mu.Lock()
	p.active--
	if p.active == 0 && len(p.work) == 0 {
		p.cond.Broadcast()
	}
	p.mu.Unlock()
}

// ---------------------------------------------------------------- loading

func goEnv() []string {
	tc := "/root/go/pkg/mod/golang.org/toolchain@v0.0.1-go1.25.11.linux-amd64/bin"
	if !strings.HasPrefix(os.Getenv("PATH"), tc) {
		os.Setenv("PATH", tc+":"+os.Getenv("PATH"))
	}
	env := os.Environ()
	out := []string{}
	for _, kv := range env {
		if strings.HasPrefix(kv, "GOFLAGS=") || strings.HasPrefix(kv, "GOTOOLCHAIN=") || strings.HasPrefix(kv, "GOPROXY=") || strings.HasPrefix(kv, "GOSUMDB=") {
			continue
		}
		out = append(out, kv)
	}
	out = append(out, "GOFLAGS=-mod=mod", "GOTOOLCHAIN=local", "GOPROXY=off", "GOSUMDB=off")
	return out
}

func loadProgram(repo, hdir string, cc *CheckCfg) (*Program, error) {
	overlay := map[string][]byte{}
	harnessFiles := map[string]bool{}
	for virt, real := range cc.Overlay {
		data, err := os.ReadFile(filepath.Join(hdir, real))
		if err != nil {
			return nil, err
		}
		ap := filepath.Join(repo, virt)
		if filepath.IsAbs(virt) {
			ap = virt
		}
		overlay[ap] = data
		harnessFiles[ap] = true
	}
	exe, _ := os.Executable()
	symSrc := filepath.Join(filepath.Dir(exe), "zzsym", "zzsym.go")
	if _, err := os.Stat(symSrc); err != nil {
		symSrc = "/verif/engine/zzsym/zzsym.go"
	}
	data, err := os.ReadFile(symSrc)
	if err != nil {
		return nil, err
	}
	overlay[filepath.Join(repo, "internal/zzsym/zzsym.go")] = data

	var patterns []string
	for _, p := range cc.Packages {
		patterns = append(patterns, repoMod+"/"+p)
	}
	patterns = append(patterns, cc.Std...)
	flags := []string{}
	if len(cc.Replace) > 0 {
		md, err := os.MkdirTemp("", "symgo-mod-")
		if err != nil {
			return nil, err
		}
		defer os.RemoveAll(md)
		mf, err := prepareModfile(repo, hdir, cc, md)
		if err != nil {
			return nil, err
		}
		flags = append(flags, mf)
	}
	if len(cc.Tags) > 0 {
		flags = append(flags, "-tags="+strings.Join(cc.Tags, ","))
	}
	cfg := &packages.Config{
		Mode:       packages.LoadSyntax | packages.NeedModule,
		Dir:        repo,
		Env:        goEnv(),
		Overlay:    overlay,
		BuildFlags: flags,
	}
	pkgs, err := packages.Load(cfg, patterns...)
	if err != nil {
		return nil, err
	}
	nerr := 0
	for _, p := range pkgs {
		for _, e := range p.Errors {
			fmt.Fprintf(os.Stderr, "load error: %s: %v\n", p.PkgPath, e)
			nerr++
		}
	}
	if nerr > 0 {
		return nil, fmt.Errorf("%d package load errors", nerr)
	}
	prog, spkgs := ssautil.Packages(pkgs, ssa.InstantiateGenerics)
	P := &Program{ssaProg: prog, fset: prog.Fset, pkgs: map[string]*ssa.Package{}, check: cc, harnessFiles: harnessFiles,
		postdom: map[*ssa.Function][]int{}}
	P.cond = sync.NewCond(&P.mu)
	for i, sp := range spkgs {
		if sp == nil {
			return nil, fmt.Errorf("no SSA package for %s", pkgs[i].PkgPath)
		}
		sp.Build()
		P.pkgs[sp.Pkg.Path()] = sp
	}
	// fake types
	rtPkg := types.NewPackage("runtime", "runtime")
	P.runtimeErrType = types.NewNamed(types.NewTypeName(token.NoPos, rtPkg, "Error", nil), types.Typ[types.String], nil)
	zp := types.NewPackage("zzopaque", "zzopaque")
	P.opaqueErrType = types.NewNamed(types.NewTypeName(token.NoPos, zp, "opaqueError", nil), types.NewStruct(nil, nil), nil)
	P.intrinsics = map[string]intrinsic{}
	registerIntrinsics(P)
	return P, nil
}

// opaqueMethod returns handlers for methods of the executor's own fake types.
// opaqueReg is the registry of engine-defined named types with modelled methods
// (use Program.RegisterOpaque from intr_*.go files).
type opaqueReg struct {
	t       *types.Named
	methods map[string]intrinsic
}

var opaqueRegs []*opaqueReg
var opaqueMu sync.Mutex

// RegisterOpaque returns the engine-defined named type `name` whose methods are modelled by the
// given table; values of that type are created by intrinsics as Iface{t: typ, v: anyGoValue}.
// Method handlers receive the receiver's Iface.v as args[0]. Idempotent per name.
func (p *Program) RegisterOpaque(name string, methods map[string]intrinsic) types.Type {
	opaqueMu.Lock()
	defer opaqueMu.Unlock()
	for _, r := range opaqueRegs {
		if r.t.Obj().Name() == name {
			return r.t
		}
	}
	zp := types.NewPackage("zzopaque", "zzopaque")
	t := types.NewNamed(types.NewTypeName(0, zp, name, nil), types.NewStruct(nil, nil), nil)
	opaqueRegs = append(opaqueRegs, &opaqueReg{t: t, methods: methods})
	return t
}

func findOpaque(t types.Type) *opaqueReg {
	opaqueMu.Lock()
	defer opaqueMu.Unlock()
	for _, r := range opaqueRegs {
		if types.Type(r.t) == t {
			return r
		}
	}
	return nil
}

func (p *Program) opaqueMethod(t types.Type, name string) intrinsic {
	if r := findOpaque(t); r != nil {
		return r.methods[name]
	}
	if hashNamed != nil && t == types.Type(hashNamed) {
		return hashMethod(name)
	}
	if t == p.runtimeErrType {
		switch name {
		case "Error":
			return func(e *Exec, fr *frame, args []Value) Value { return args[0] }
		case "RuntimeError":
			return func(e *Exec, fr *frame, args []Value) Value { return nil }
		}
	}
	if t == types.Type(p.opaqueErrType) {
		switch name {
		case "Error":
			return func(e *Exec, fr *frame, args []Value) Value {
				oe := args[0].(*opaqueErr)
				return &Str{s: oe.msg}
			}
		case "Unwrap":
			return func(e *Exec, fr *frame, args []Value) Value {
				oe := args[0].(*opaqueErr)
				if oe.wrapped == nil {
					return Iface{}
				}
				return *oe.wrapped
			}
		}
	}
	return nil
}

func (p *Program) opaqueImplements(t types.Type, it *types.Interface) bool {
	if r := findOpaque(t); r != nil {
		for i := 0; i < it.NumMethods(); i++ {
			if r.methods[it.Method(i).Name()] == nil {
				return false
			}
		}
		return true
	}
	if hashNamed != nil && t == types.Type(hashNamed) {
		for i := 0; i < it.NumMethods(); i++ {
			if hashMethod(it.Method(i).Name()) == nil {
				return false
			}
		}
		return true
	}
	if t == p.runtimeErrType || t == types.Type(p.opaqueErrType) {
		// error, and (for opaque errors) interface{ Unwrap() error }
		for i := 0; i < it.NumMethods(); i++ {
			n := it.Method(i).Name()
			if n == "Error" {
				continue
			}
			if n == "Unwrap" && t == types.Type(p.opaqueErrType) {
				continue
			}
			if n == "RuntimeError" && t == p.runtimeErrType {
				continue
			}
			return false
		}
		return true
	}
	return false
}

type opaqueErr struct {
	id      int
	msg     string
	wrapped *Iface
}

// ---------------------------------------------------------------- running an entry

type pathResult struct {
	kind     pathEndKind
	msg      string
	trace    []uint64
	reached  map[string]bool
	viol     []violation
	asserts  int
	seen     int
	steps    int
	funcs    map[*ssa.Function]bool
	warnings map[string]int
	panicked string
	sample   *selfSample
}

type selfSample struct {
	Model    map[string]uint64
	Reached  []string
	Observed []string
	Outcome  string
	Failures int
}

type entryResult struct {
	Entry        string
	Paths        int
	Ends         map[string]int
	Queries      int
	Asserts      int
	AssertsSeen  int
	Violations   []violation
	Reached      map[string]bool
	Required     []string
	Inconclusive []string
	Partial      []string
	Funcs        map[string]bool
	Warnings     map[string]int
	SolverTime   time.Duration
	Wall         time.Duration
	Steps        int
	Samples      []*selfSample
	MaxAlloc     int
	PathSamples  []string
}

func (p *Program) findFunc(full string) *ssa.Function {
	i := strings.LastIndex(full, ".")
	pkg, name := full[:i], full[i+1:]
	sp := p.pkgs[pkg]
	if sp == nil {
		return nil
	}
	return sp.Func(name)
}

// requiredWitnesses scans harness functions for zzsym.Reach("const") calls reachable from fn
// (within the overlay harness files).
func (p *Program) requiredWitnesses(fn *ssa.Function) []string {
	seen := map[*ssa.Function]bool{}
	labels := map[string]bool{}
	var walk func(f *ssa.Function)
	walk = func(f *ssa.Function) {
		if f == nil || seen[f] || f.Blocks == nil {
			return
		}
		seen[f] = true
		for _, b := range f.Blocks {
			for _, ins := range b.Instrs {
				var cc *ssa.CallCommon
				switch c := ins.(type) {
				case *ssa.Call:
					cc = &c.Call
				case *ssa.Defer:
					cc = &c.Call
				case *ssa.MakeClosure:
					if cf, ok := c.Fn.(*ssa.Function); ok {
						walk(cf)
					}
				}
				if cc == nil {
					continue
				}
				callee := cc.StaticCallee()
				if callee == nil {
					continue
				}
				if callee.String() == symPkg+".Reach" {
					if k, ok := cc.Args[0].(*ssa.Const); ok {
						labels[strings.Trim(k.Value.ExactString(), "\"")] = true
					}
					continue
				}
				if callee.Pos() != token.NoPos && p.harnessFiles[p.fset.Position(callee.Pos()).Filename] {
					walk(callee)
				}
			}
		}
		for _, af := range f.AnonFuncs {
			walk(af)
		}
	}
	walk(fn)
	var out []string
	for l := range labels {
		out = append(out, l)
	}
	sort.Strings(out)
	return out
}

func (p *Program) runEntry(ec EntryCfg, workers int, solverBin string, logDir string, budget time.Duration, wantSamples int) (*entryResult, error) {
	fn := p.findFunc(ec.Func)
	if fn == nil {
		return nil, fmt.Errorf("entry %s not found", ec.Func)
	}
	res := &entryResult{Entry: ec.Func, Ends: map[string]int{}, Reached: map[string]bool{}, Funcs: map[string]bool{}, Warnings: map[string]int{}}
	res.Required = append(p.requiredWitnesses(fn), ec.Witnesses...)
	unwind := ec.Unwind
	if p.cfg.Thorough && ec.UnwindT > 0 {
		unwind = ec.UnwindT
	}
	if unwind == 0 {
		unwind = 64
	}
	p.work = [][]uint64{{}}
	p.active = 0
	p.stopped = false
	p.stats = stats{}
	t0 := time.Now()
	var rmu sync.Mutex
	var wg sync.WaitGroup
	deadline := t0.Add(budget)
	maxPaths := ec.MaxPaths
	if maxPaths == 0 {
		maxPaths = 2000000
	}
	var fatal error
	for w := 0; w < workers; w++ {
		wg.Add(1)
		go func(w int) {
			defer wg.Done()
			var logf *os.File
			if logDir != "" {
				logf, _ = os.Create(filepath.Join(logDir, fmt.Sprintf("%s.w%d.smt2", fn.Name(), w)))
				defer logf.Close()
			}
			var sv *Solver
			var err error
			if logf != nil {
				sv, err = NewSolver(solverBin, []string{"-in"}, logf)
			} else {
				sv, err = NewSolver(solverBin, []string{"-in"}, nil)
			}
			if err != nil {
				rmu.Lock()
				fatal = err
				rmu.Unlock()
				return
			}
			defer func() {
				rmu.Lock()
				res.SolverTime += sv.Time
				rmu.Unlock()
				sv.Close()
			}()
			for {
				prefix, ok := p.pop()
				if !ok {
					return
				}
				pr := p.runPath(fn, prefix, sv, unwind, ec.Func)
				rmu.Lock()
				res.Paths++
				res.Ends[endName(pr.kind)]++
				res.Asserts += pr.asserts
				res.AssertsSeen += pr.seen
				res.Steps += pr.steps
				for l := range pr.reached {
					res.Reached[l] = true
				}
				for f := range pr.funcs {
					res.Funcs[f.String()] = true
				}
				for k, v := range pr.warnings {
					res.Warnings[k] += v
				}
				for _, v := range pr.viol {
					// keep every hard violation, but only a sample of the known-finding ones
					if v.Known == "" || len(res.Violations) < 200 {
						res.Violations = append(res.Violations, v)
					}
				}
				switch pr.kind {
				case endUnwind, endUnsupported, endUnknown, endDeadlock:
					if len(res.Inconclusive) < 20 {
						res.Inconclusive = append(res.Inconclusive, endName(pr.kind)+": "+pr.msg)
					}
				}
				if pr.sample != nil && len(res.Samples) < wantSamples {
					res.Samples = append(res.Samples, pr.sample)
				}
				if len(res.PathSamples) < 5 && pr.kind == endDone {
					res.PathSamples = append(res.PathSamples, fmt.Sprintf("decisions=%v asserts=%d steps=%d", pr.trace, pr.asserts, pr.steps))
				}
				hard := map[string]bool{}
				for _, v := range res.Violations {
					if v.Known == "" {
						hard[v.Msg] = true
					}
				}
				stop := res.Paths >= maxPaths || time.Now().After(deadline) || len(hard) >= 4
				needSample := len(res.Samples) < wantSamples
				rmu.Unlock()
				_ = needSample
				p.done()
				if stop {
					p.mu.Lock()
					if !p.stopped {
						p.stopped = true
						if len(p.work) > 0 || p.active > 0 {
							rmu.Lock()
							if len(hard) < 4 {
								msg := fmt.Sprintf("budget: stopped after %d paths, %d prefixes pending", res.Paths, len(p.work))
								if p.cfg.Thorough && res.Paths < maxPaths {
									// thorough tier: the time budget bounds the exploration; what was explored held,
									// the rest is reported as NOT explored (never as success of the full bound)
									res.Partial = append(res.Partial, msg)
								} else {
									res.Inconclusive = append(res.Inconclusive, msg)
								}
							}
							rmu.Unlock()
						}
					}
					p.mu.Unlock()
					p.cond.Broadcast()
					return
				}
			}
		}(w)
	}
	wg.Wait()
	if fatal != nil {
		return nil, fatal
	}
	res.Queries = p.stats.queries
	res.MaxAlloc = p.stats.maxAlloc
	res.Wall = time.Since(t0)
	if p.stats.unknownBranch > 0 {
		res.Warnings["solver unknown on branch feasibility (both sides kept)"] += p.stats.unknownBranch
	}
	for _, l := range res.Required {
		if !res.Reached[l] {
			if len(res.Partial) > 0 {
				// the exploration was cut by the thorough-tier time budget: an unreached witness says
				// nothing about vacuity of the harness
				res.Partial = append(res.Partial, "witness not reached in the explored part: "+l)
			} else {
				res.Inconclusive = append(res.Inconclusive, "vacuous: witness not reached: "+l)
			}
		}
	}
	return res, nil
}

func endName(k pathEndKind) string {
	switch k {
	case endDone:
		return "done"
	case endInfeasible:
		return "infeasible"
	case endUnwind:
		return "unwind"
	case endUnsupported:
		return "unsupported"
	case endUnknown:
		return "unknown"
	case endDeadlock:
		return "deadlock"
	}
	return "?"
}

func (p *Program) newExec(sv *Solver, unwind int) *Exec {
	e := &Exec{prog: p, ts: NewTermStore(), solver: sv, declared: map[string]bool{},
		globals: map[*ssa.Global]*Loc{}, initDone: map[*ssa.Package]bool{}, symCount: map[string]int{},
		reached: map[string]bool{}, warnings: map[string]int{}, funcsUsed: map[*ssa.Function]bool{}, unwind: unwind}
	e.printer = &smtPrinter{defined: map[int]bool{}}
	return e
}

func (p *Program) runPath(fn *ssa.Function, prefix []uint64, sv *Solver, unwind int, entry string) (pr pathResult) {
	e := p.newExec(sv, unwind)
	e.prefix = prefix
	e.entryName = entry
	if sv.Dead {
		sv.Revive()
	}
	sv.Send("(push 1)\n")
	defer func() {
		r := recover()
		sv.Send("(pop 1)\n")
		pr.trace = e.trace
		pr.reached = e.reached
		pr.viol = e.violations
		pr.asserts = e.asserts
		pr.seen = e.assertsSeen
		pr.steps = e.steps
		pr.funcs = e.funcsUsed
		pr.warnings = e.warnings
		if r == nil {
			return
		}
		switch x := r.(type) {
		case *pathEnd:
			pr.kind = x.kind
			pr.msg = x.msg
		case *goPanic:
			// handled below (should not get here)
			pr.kind = endDone
			pr.msg = "uncaught panic: " + x.descr
		default:
			pr.kind = endUnsupported
			pr.msg = fmt.Sprintf("executor error: %v", r)
			if os.Getenv("SYMGO_DEBUG") != "" {
				panic(r)
			}
		}
	}()
	func() {
		defer func() {
			if r := recover(); r != nil {
				gp, ok := r.(*goPanic)
				if !ok {
					panic(r)
				}
				// an uncaught Go panic in harness or code under test is a violation
				v := violation{Msg: "uncaught panic: " + gp.descr, Pos: p.fset.Position(e.lastPos).String()}
				if e.concrete == nil {
					// the path condition is satisfiable by construction; obtain a model
					res := e.checkWith(e.ts.Bool(true), p.cfg.AssertTimeoutMs)
					if res == "sat" {
						v.Model, v.Inputs = e.modelOfInputs()
						e.popCheck()
						e.violations = append(e.violations, v)
					} else {
						e.popCheck()
						panic(&pathEnd{kind: endUnknown, msg: "solver " + res + " for panic path model"})
					}
				} else {
					e.violations = append(e.violations, v)
				}
				pr.panicked = gp.descr
			}
		}()
		e.callFunction(nil, fn, nil, nil)
	}()
	pr.kind = endDone
	// self-test sample: model of the complete path
	if e.concrete == nil && p.wantSample() && len(e.violations) == 0 {
		res := e.checkWith(e.ts.Bool(true), p.cfg.BranchTimeoutMs)
		if res == "sat" {
			m, _ := e.modelOfInputs()
			ss := &selfSample{Model: m, Outcome: "ok"}
			// evaluate observations under the model
			full := map[string]uint64{}
			for _, in := range e.inputs {
				full[in.Term.Name] = m[in.Key]
			}
			memo := map[int]uint64{}
			evalOK := true
			for _, ob := range e.observes {
				if ob.terms == nil {
					ss.Reached = append(ss.Reached, ob.name)
					continue
				}
				s := ob.name + "="
				for i, t := range ob.terms {
					if i > 0 {
						s += ","
					}
					if hasApp(t) {
						evalOK = false
					}
					s += fmt.Sprintf("%d", e.ts.Eval(t, full, memo))
				}
				ss.Observed = append(ss.Observed, s)
			}
			if evalOK {
				pr.sample = ss
			}
		}
		e.popCheck()
	}
	return
}

func hasApp(t *Term) bool {
	if t.Op == OpApp {
		return true
	}
	for _, a := range t.Args {
		if hasApp(a) {
			return true
		}
	}
	return false
}

var sampleGate struct {
	mu   sync.Mutex
	want int
	got  int
}

func (p *Program) wantSample() bool {
	sampleGate.mu.Lock()
	defer sampleGate.mu.Unlock()
	if sampleGate.got < sampleGate.want {
		sampleGate.got++
		return true
	}
	return false
}

// ---------------------------------------------------------------- misc

func hashFile(path string) string {
	data, err := os.ReadFile(path)
	if err != nil {
		return ""
	}
	h := sha256.Sum256(data)
	return hex.EncodeToString(h[:8])
}

func writeJSON(path string, v interface{}) error {
	data, err := json.MarshalIndent(v, "", " ")
	if err != nil {
		return err
	}
	return os.WriteFile(path, append(data, '\n'), 0o644)
}
