package main

import "go/types"

// Models used by the C10 harnesses.
//
// (*sync.Once).Do: the stock model takes "the first field's storage" as the done flag by
// descending kids[0]; since go1.24 sync.Once starts with `_ noCopy` (an empty struct), whose
// location has no kids, and the stock model indexes kids[0] of it (executor panic "index out of
// range [0] with length 0"). This version looks for the first integer leaf of the Once value
// (Once.done's atomic.Uint32.v) and is otherwise identical. Registered for C10 only so that no
// other check changes behaviour.
func init() {
	extraIntrinsics = append(extraIntrinsics, func(p *Program) {
		if p.check == nil || p.check.Property != "C10" {
			return
		}
		var intLeaf func(l *Loc) *Loc
		intLeaf = func(l *Loc) *Loc {
			if l == nil {
				return nil
			}
			if l.kids == nil {
				if b, ok := l.typ.Underlying().(*types.Basic); ok && b.Info()&types.IsInteger != 0 {
					return l
				}
				return nil
			}
			for _, k := range l.kids {
				if r := intLeaf(k); r != nil {
					return r
				}
			}
			return nil
		}
		p.intrinsics["(*sync.Once).Do"] = func(e *Exec, fr *frame, args []Value) Value {
			ptr := args[0].(Pointer)
			flag := intLeaf(ptr.loc)
			if flag == nil {
				e.unsupported("sync.Once without an integer done flag")
			}
			if t, ok := flag.val.(*Term); ok && t.IsConst() && t.Val != 0 {
				return nil
			}
			w, _, _ := intWidth(flag.typ)
			if w == 0 {
				w = 32
			}
			flag.val = e.ts.BV(w, 1)
			e.callValue(fr, args[1], nil, nil)
			return nil
		}
	})
}
