package main

// Abstract primitives for the C25 (payload encryption) harnesses. Registered for C25 only.
//
//   - crypto/aes.NewCipher -> an engine-defined cipher.Block ("aesBlock") whose Encrypt/Decrypt are
//     an uninterpreted PERMUTATION PER KEY: one table of (key, plain, cipher) triples per path;
//     every application creates 16 fresh output bytes and is constrained, pairwise against every
//     earlier triple with a key of the same length, by
//     key_i == key_j  =>  ( plain_i == plain_j  <=>  cipher_i == cipher_j )
//     (function + injective, and Decrypt is the inverse because it shares the table). An
//     application whose key and input terms are syntactically those of an earlier triple reuses it.
//     The documented panics of crypto/aes (short input/output block) are kept.
//   - golang.org/x/crypto/curve25519.X25519 -> uninterpreted function of (scalar, point) with the
//     Diffie-Hellman contract X(a, X(b,G)) == X(b, X(a,G)); like the real function it fails exactly
//     when the result is the all-zero value, which never happens for the base point nor for a point
//     that is itself X(b,G) (prime-order subgroup, clamped scalars).
//   - crypto/rand.Read -> fresh arbitrary bytes, never fails (go >= 1.24 semantics).
//
//   - encoding/base64 is executed from its real source. One rewrite is applied on top of it:
//     (*Encoding).Decode of a text whose terms are, one by one, syntactically the output of an earlier
//     (*Encoding).Encode(src) with the same receiver returns (len(src), nil) and src itself, i.e. the
//     lemma Decode(Encode(b)) == b is used instead of being re-derived by the solver through two levels
//     of lookup tables at every query. The lemma itself is PROVEN on the real code, for exactly the
//     source lengths the rewrite is applied to (c25B64Lens), by the entry Harness_C25_Base64Lemma, in
//     which the rewrite is switched off. Destination bytes beyond the decoded length (the real
//     decoder's 8-byte stores spill there) are havocked.
//   - crypto/md5.Sum -> the stock abstract injective hash, with stream equality of two
//     recorded base64 texts stated on their sources (same lemma: Encode is a function and injective).
//
// Native replay uses the real primitives, so only structural counterexamples reproduce.

import (
	"fmt"
	"go/types"
	"strings"
	"sync"
	"weak"

	"golang.org/x/tools/go/ssa"
)

type c25Triple struct {
	key           []*Term
	plain, cipher []*Term
}

type c25XApp struct {
	scalar, point, out []*Term
	base               bool
}

type c25State struct {
	triples []*c25Triple
	xapps   []*c25XApp
	nrand   int
	b64     []*c25B64
	md5s    []*c25MD5
	nhavoc  int
}

// c25B64 records one completed (*base64.Encoding).Encode call: text = Encode(src).
type c25B64 struct {
	enc       *Loc // the *Encoding receiver
	src, text []*Term
}

// c25MD5 is one application of the abstract MD5: out = H(stream). cmp is what stream equality is decided
// on: the stream itself, or, when the stream is syntactically the text of a recorded Encode(src) of a
// lemma-covered length, src (Encode is a function, and injective because Decode(Encode(b)) == b).
type c25MD5 struct {
	stream, cmp, out []*Term
	viaB64           bool
}

type c25Block struct {
	key []*Term
}

var c25 struct {
	mu     sync.Mutex
	states map[weak.Pointer[Exec]]*c25State
	n      int
	blockT types.Type
}

func c25StateOf(e *Exec) *c25State {
	wp := weak.Make(e)
	c25.mu.Lock()
	defer c25.mu.Unlock()
	c25.n++
	if c25.n%1024 == 0 {
		for k := range c25.states {
			if k.Value() == nil {
				delete(c25.states, k)
			}
		}
	}
	st := c25.states[wp]
	if st == nil {
		st = &c25State{}
		c25.states[wp] = st
	}
	return st
}

func c25Same(a, b []*Term) bool {
	if len(a) != len(b) {
		return false
	}
	for i := range a {
		if a[i] != b[i] {
			return false
		}
	}
	return true
}

func c25EqAll(e *Exec, a, b []*Term) *Term {
	r := e.ts.Bool(true)
	for i := range a {
		r = e.ts.And(r, e.ts.Eq(a[i], b[i]))
	}
	return r
}

// c25Fresh returns n fresh bytes cut out of 64-bit inputs named prefix.w<k>.
func c25Fresh(e *Exec, prefix string, n int) []*Term {
	out := make([]*Term, 0, n)
	for w := 0; w*8 < n; w++ {
		v := e.newInput(fmt.Sprintf("%s.w%d", prefix, w), 64)
		for b := 0; b < 8 && len(out) < n; b++ {
			hi := 63 - 8*b
			out = append(out, e.ts.Extract(v, hi, hi-7))
		}
	}
	return out
}

// c25Apply is one application of the abstract block cipher (enc: plain->cipher, else cipher->plain).
func c25Apply(e *Exec, key, in []*Term, enc bool) []*Term {
	st := c25StateOf(e)
	for _, t := range st.triples {
		if !c25Same(t.key, key) {
			continue
		}
		if enc && c25Same(t.plain, in) {
			return t.cipher
		}
		if !enc && c25Same(t.cipher, in) {
			return t.plain
		}
	}
	fresh := c25Fresh(e, fmt.Sprintf("aes.%d", len(st.triples)), 16)
	nt := &c25Triple{key: key}
	if enc {
		nt.plain, nt.cipher = in, fresh
	} else {
		nt.plain, nt.cipher = fresh, in
	}
	for _, t := range st.triples {
		if len(t.key) != len(key) {
			continue
		}
		keq := c25EqAll(e, t.key, key)
		peq := c25EqAll(e, t.plain, nt.plain)
		ceq := c25EqAll(e, t.cipher, nt.cipher)
		e.assertPC(e.ts.Implies(keq, e.ts.Eq(peq, ceq)))
	}
	st.triples = append(st.triples, nt)
	return fresh
}

func c25BlockMethod(enc bool) intrinsic {
	return func(e *Exec, fr *frame, args []Value) Value {
		if e.spec > 0 {
			e.abortSpec("aes block operation")
		}
		b := args[0].(*c25Block)
		dst := args[1].(Slice)
		src := args[2].(Slice)
		if src.len < 16 {
			e.goPanicStr("crypto/aes: input not full block")
		}
		if dst.len < 16 {
			e.goPanicStr("crypto/aes: output not full block")
		}
		if dst.arr == src.arr && dst.off != src.off && dst.off < src.off+16 && src.off < dst.off+16 {
			e.goPanicStr("crypto/aes: invalid buffer overlap")
		}
		in := make([]*Term, 16)
		for i := range in {
			in[i] = e.loadLoc(src.arr.kids[src.off+i]).(*Term)
		}
		out := c25Apply(e, b.key, in, enc)
		for i, t := range out {
			e.storeLoc(dst.arr.kids[dst.off+i], t)
		}
		return nil
	}
}

// c25B64Lens: source lengths for which Harness_C25_Base64Lemma proves Decode(Encode(b)) == b.
var c25B64Lens = map[int]bool{16: true, 32: true, 48: true, 64: true}

func c25B64Method(e *Exec, name string) *ssa.Function {
	sp := e.prog.pkgs["encoding/base64"]
	if sp == nil {
		e.unsupported("encoding/base64 must be listed in std")
	}
	tn := sp.Type("Encoding")
	if tn == nil {
		e.unsupported("encoding/base64.Encoding not found")
	}
	fn := e.prog.ssaProg.LookupMethod(types.NewPointer(tn.Type()), sp.Pkg, name)
	if fn == nil || fn.Blocks == nil {
		e.unsupported("encoding/base64.Encoding." + name + " has no body")
	}
	return fn
}

// c25RunBody executes fn from its SSA body (what callFunction does when there is no intrinsic).
func c25RunBody(e *Exec, caller *frame, fn *ssa.Function, args []Value) Value {
	e.funcsUsed[fn] = true
	info := e.prog.funcInfo(fn)
	fr := &frame{fn: fn, caller: caller, env: make([]Value, info.n), idx: info.idx}
	if caller != nil {
		fr.depth = caller.depth + 1
	}
	for i, p := range fn.Params {
		fr.env[fr.idx[p]] = args[i]
	}
	saved := e.curFrame
	e.curFrame = fr
	e.runFrame(fr)
	e.curFrame = saved
	return fr.result
}

func init() {
	c25.states = map[weak.Pointer[Exec]]*c25State{}
	extraIntrinsics = append(extraIntrinsics, func(p *Program) {
		if p.check == nil || p.check.Property != "C25" {
			return // every model below (and the base64 lemma it relies on) belongs to the C25 check only
		}
		c25.blockT = p.RegisterOpaque("aesBlock", map[string]intrinsic{
			"Encrypt":   c25BlockMethod(true),
			"Decrypt":   c25BlockMethod(false),
			"BlockSize": func(e *Exec, fr *frame, args []Value) Value { return e.ts.BV(64, 16) },
		})
		I := p.intrinsics
		I["crypto/aes.NewCipher"] = func(e *Exec, fr *frame, args []Value) Value {
			// z3's incremental core often answers "unknown" at the branch timeout on the pairwise axioms below
			// although the full QF_BV solver decides them at once: let it fall back after 100 ms (the options
			// only select the decision procedure, never the answer; idempotent)
			if e.concrete == nil && e.solver != nil && !e.solver.Dead {
				e.solver.Send("(set-option :combined_solver.solver2_timeout 100)\n(set-option :combined_solver.solver2_unknown 2)\n")
			}
			k := args[0].(Slice)
			switch k.len {
			case 16, 24, 32:
			default:
				return Tuple{Iface{}, e.newOpaqueErr("crypto/aes: invalid key size", nil)}
			}
			return Tuple{Iface{t: c25.blockT, v: &c25Block{key: e.byteSliceTerms(k)}}, Iface{}}
		}
		I["(*encoding/base64.Encoding).Encode"] = func(e *Exec, fr *frame, args []Value) Value {
			fn := c25B64Method(e, "Encode")
			dst, src := args[1].(Slice), args[2].(Slice)
			var srcT []*Term
			if src.len > 0 {
				srcT = e.byteSliceTerms(src)
			}
			res := c25RunBody(e, fr, fn, args)
			if e.spec > 0 || !c25B64Lens[src.len] || strings.Contains(e.entryName, "Base64Lemma") {
				return res
			}
			recv, ok := args[0].(Pointer)
			n := (src.len + 2) / 3 * 4
			if !ok || recv.loc == nil || dst.len < n {
				return res
			}
			text := make([]*Term, n)
			for i := range text {
				t, ok := e.loadLoc(dst.arr.kids[dst.off+i]).(*Term)
				if !ok {
					return res
				}
				text[i] = t
			}
			st := c25StateOf(e)
			st.b64 = append(st.b64, &c25B64{enc: recv.loc, src: srcT, text: text})
			return res
		}
		I["(*encoding/base64.Encoding).Decode"] = func(e *Exec, fr *frame, args []Value) Value {
			fn := c25B64Method(e, "Decode")
			dst, src := args[1].(Slice), args[2].(Slice)
			recv, ok := args[0].(Pointer)
			if ok && recv.loc != nil && src.len > 0 && e.spec == 0 && !strings.Contains(e.entryName, "Base64Lemma") {
				text := e.byteSliceTerms(src)
				st := c25StateOf(e)
				for _, r := range st.b64 {
					if r.enc != recv.loc || !c25Same(r.text, text) || dst.len < len(r.src) {
						continue
					}
					for i, t := range r.src {
						e.storeLoc(dst.arr.kids[dst.off+i], t)
					}
					for i := len(r.src); i < dst.len; i++ {
						e.storeLoc(dst.arr.kids[dst.off+i], e.newInput(fmt.Sprintf("b64.spill.%d", st.nhavoc), 8))
						st.nhavoc++
					}
					return Tuple{e.ts.BV(64, uint64(len(r.src))), Iface{}}
				}
			}
			return c25RunBody(e, fr, fn, args)
		}
		{
			// Abstract MD5 for C25: same contract as the stock model in crypto.go (a function of the exact byte
			// stream, injective, never the zero digest); the only difference is that equality of two streams
			// that are both base64 texts of recorded Encode calls is stated on the encoded sources.
			I["crypto/md5.Sum"] = func(e *Exec, fr *frame, args []Value) Value {
				sl := args[0].(Slice)
				var stream []*Term
				if sl.len > 0 {
					stream = e.byteSliceTerms(sl)
				}
				st := c25StateOf(e)
				mk := func(out []*Term) Value {
					arr := make(Array, len(out))
					for i, t := range out {
						arr[i] = t
					}
					return arr
				}
				for _, a := range st.md5s {
					if c25Same(a.stream, stream) {
						return mk(a.out)
					}
				}
				app := &c25MD5{stream: stream, cmp: stream}
				if !strings.Contains(e.entryName, "Base64Lemma") {
					for _, r := range st.b64 {
						if c25Same(r.text, stream) {
							app.cmp, app.viaB64 = r.src, true
							break
						}
					}
				}
				app.out = c25Fresh(e, fmt.Sprintf("md5.%d", len(st.md5s)), 16)
				zero := e.ts.Bool(true)
				for _, t := range app.out {
					zero = e.ts.And(zero, e.ts.Eq(t, e.ts.BV(8, 0)))
				}
				e.assertPC(e.ts.Not(zero))
				for _, a := range st.md5s {
					deq := c25EqAll(e, a.out, app.out)
					switch {
					case len(a.stream) != len(stream):
						e.assertPC(e.ts.Not(deq))
					case a.viaB64 && app.viaB64 && len(a.cmp) == len(app.cmp):
						e.assertPC(e.ts.Eq(deq, c25EqAll(e, a.cmp, app.cmp)))
					default:
						e.assertPC(e.ts.Eq(deq, c25EqAll(e, a.stream, stream)))
					}
				}
				st.md5s = append(st.md5s, app)
				return mk(app.out)
			}
		}
		I["crypto/rand.Read"] = func(e *Exec, fr *frame, args []Value) Value {
			if e.spec > 0 {
				e.abortSpec("crypto/rand.Read")
			}
			b := args[0].(Slice)
			st := c25StateOf(e)
			for i := 0; i < b.len; i++ {
				e.storeLoc(b.arr.kids[b.off+i], e.newInput(fmt.Sprintf("rand.%d", st.nrand), 8))
				st.nrand++
			}
			return Tuple{e.ts.BV(64, uint64(b.len)), Iface{}}
		}
		I["golang.org/x/crypto/curve25519.X25519"] = func(e *Exec, fr *frame, args []Value) Value {
			if e.spec > 0 {
				e.abortSpec("curve25519.X25519")
			}
			sc := args[0].(Slice)
			pt := args[1].(Slice)
			if sc.len != 32 || pt.len != 32 {
				return Tuple{Slice{}, e.newOpaqueErr("curve25519: bad input length", nil)}
			}
			scalar, point := e.byteSliceTerms(sc), e.byteSliceTerms(pt)
			st := c25StateOf(e)
			var app *c25XApp
			for _, a := range st.xapps {
				if c25Same(a.scalar, scalar) && c25Same(a.point, point) {
					app = a
					break
				}
			}
			if app == nil {
				app = &c25XApp{scalar: scalar, point: point, base: true}
				for i, t := range point {
					want := uint64(0)
					if i == 0 {
						want = 9
					}
					if !t.IsConst() || t.Val != want {
						app.base = false
					}
				}
				app.out = c25Fresh(e, fmt.Sprintf("x25519.%d", len(st.xapps)), 32)
				zero := e.ts.Bool(true)
				for _, t := range app.out {
					zero = e.ts.And(zero, e.ts.Eq(t, e.ts.BV(8, 0)))
				}
				if app.base {
					e.assertPC(e.ts.Not(zero))
				}
				for _, a := range st.xapps {
					// function of (scalar, point)
					e.assertPC(e.ts.Implies(e.ts.And(c25EqAll(e, a.scalar, scalar), c25EqAll(e, a.point, point)), c25EqAll(e, a.out, app.out)))
					// a valid public key is never a low-order point
					if a.base {
						e.assertPC(e.ts.Implies(c25EqAll(e, a.out, point), e.ts.Not(zero)))
					}
				}
				// X(a, X(b,G)) == X(b, X(a,G)) for every pair of base applications A=(a,G), B=(b,G)
				for _, o := range st.xapps {
					if o.base {
						continue
					}
					for _, A := range st.xapps {
						if !A.base {
							continue
						}
						for _, B := range st.xapps {
							if !B.base || A == B {
								continue
							}
							prem := e.ts.And(
								e.ts.And(c25EqAll(e, scalar, A.scalar), c25EqAll(e, point, B.out)),
								e.ts.And(c25EqAll(e, o.scalar, B.scalar), c25EqAll(e, o.point, A.out)))
							e.assertPC(e.ts.Implies(prem, c25EqAll(e, app.out, o.out)))
						}
					}
				}
				st.xapps = append(st.xapps, app)
			}
			zero := e.ts.Bool(true)
			for _, t := range app.out {
				zero = e.ts.And(zero, e.ts.Eq(t, e.ts.BV(8, 0)))
			}
			if e.branch(zero) {
				return Tuple{Slice{}, e.newOpaqueErr("crypto/ecdh: bad X25519 remote ECDH input: low order point", nil)}
			}
			return Tuple{e.newByteSlice(app.out), Iface{}}
		}
	})
}
