package main

import (
	"encoding/json"
	"flag"
	"fmt"
	"os"
	"os/exec"
	"path/filepath"
	"runtime"
	"runtime/pprof"
	"sort"
	"strconv"
	"strings"
	"time"
)

type knownFinding struct {
	Property string `json:"property"`
	Tag      string `json:"tag"`
	Status   string `json:"status"` // "known" or "fixed"
	What     string `json:"what"`
	Commit   string `json:"commit,omitempty"`
}

func main() {
	if len(os.Args) < 2 {
		fmt.Fprintln(os.Stderr, "usage: symgo check -harness DIR [-tier quick|thorough] | symgo replay DIR")
		os.Exit(2)
	}
	switch os.Args[1] {
	case "check":
		os.Exit(cmdCheck(os.Args[2:]))
	default:
		fmt.Fprintln(os.Stderr, "unknown command")
		os.Exit(2)
	}
}

func cmdCheck(args []string) int {
	fs := flag.NewFlagSet("check", flag.ExitOnError)
	hdir := fs.String("harness", "", "harness directory containing check.json")
	tier := fs.String("tier", "quick", "quick|thorough")
	repo := fs.String("repo", "/repo", "repository root")
	evdir := fs.String("evidence", "/verif/evidence", "evidence directory")
	replayRoot := fs.String("replay", "/verif/replay", "directory for violation replays")
	workers := fs.Int("workers", runtime.NumCPU(), "parallel workers")
	solver := fs.String("solver", "z3-new", "solver binary (z3 -in compatible)")
	only := fs.String("only", "", "run only entries whose name contains this")
	logq := fs.Bool("log", false, "log SMT queries")
	known := fs.String("known", "/verif/known_findings.json", "known findings file")
	noNative := fs.Bool("no-native", false, "skip native replay/self-test")
	cpuprof := fs.String("cpuprofile", "", "write a CPU profile")
	fs.Parse(args)
	if v := os.Getenv("SYMGO_WORKERS"); v != "" {
		if n, err := strconv.Atoi(v); err == nil && n > 0 {
			*workers = n
		}
	}
	if v := os.Getenv("VERIF_TIER"); v != "" && *tier == "" {
		*tier = v
	}
	if *cpuprof != "" {
		if f, err := os.Create(*cpuprof); err == nil {
			pprof.StartCPUProfile(f)
			defer pprof.StopCPUProfile()
		}
	}
	t0 := time.Now()
	seed := 0
	if s := os.Getenv("VERIF_SEED"); s != "" {
		seed, _ = strconv.Atoi(s)
	}
	data, err := os.ReadFile(filepath.Join(*hdir, "check.json"))
	if err != nil {
		fmt.Fprintln(os.Stderr, err)
		return 2
	}
	var cc CheckCfg
	if err := json.Unmarshal(data, &cc); err != nil {
		fmt.Fprintln(os.Stderr, "check.json:", err)
		return 2
	}
	id := cc.Property
	evPath := filepath.Join(*evdir, id+".json")
	os.MkdirAll(*evdir, 0o755)
	os.Remove(evPath)
	thorough := *tier == "thorough"

	prog, err := loadProgram(*repo, *hdir, &cc)
	if err != nil {
		fmt.Fprintln(os.Stderr, "load:", err)
		fmt.Printf("INCONCLUSIVE property=%s reason=load-failed\n", id)
		writeFailEvidence(evPath, &cc, *tier, seed, time.Since(t0), "load failed: "+err.Error())
		return 2
	}
	loadT := time.Since(t0)
	prog.cfg = runCfg{
		BranchTimeoutMs: 5000, AssertTimeoutMs: 20000, MaxConcretize: 64, MaxSteps: 5000000, MaxAlloc: 1 << 16,
		MaxSymIndex: 512, SkipInit: map[string]bool{}, NoIntrinsic: map[string]bool{}, Thorough: thorough, NoSpeculate: cc.NoSpeculate, AbstractCRC: cc.AbstractCRC,
	}
	if cc.AssertTimeoutS > 0 {
		prog.cfg.AssertTimeoutMs = cc.AssertTimeoutS * 1000
	}
	if thorough {
		prog.cfg.AssertTimeoutMs = 120000
		if cc.AssertTimeoutThoroughS > 0 {
			prog.cfg.AssertTimeoutMs = cc.AssertTimeoutThoroughS * 1000
		}
	}
	if cc.MaxSteps > 0 {
		prog.cfg.MaxSteps = cc.MaxSteps
	}
	if cc.MaxAlloc > 0 {
		prog.cfg.MaxAlloc = cc.MaxAlloc
	}
	if cc.MaxConcretize > 0 {
		prog.cfg.MaxConcretize = cc.MaxConcretize
	}
	for _, s := range cc.SkipInit {
		prog.cfg.SkipInit[s] = true
	}
	for _, s := range cc.NoIntrinsic {
		prog.cfg.NoIntrinsic[s] = true
	}
	budget := 10 * time.Minute
	if cc.TimeBudgetS > 0 {
		budget = time.Duration(cc.TimeBudgetS) * time.Second
	}
	// thorough tier: per-entry budget (default 30 min, check.json time_budget_thorough_s) inside a
	// total wall budget per check (SYMGO_THOROUGH_TOTAL_S, default 2 h); an entry that reaches its
	// budget is reported PARTIAL (exit code unaffected), see runEntry
	totalDeadline := time.Time{}
	if thorough {
		budget = 30 * time.Minute
		if cc.TimeBudgetThoroughS > 0 {
			budget = time.Duration(cc.TimeBudgetThoroughS) * time.Second
		}
		total := 2 * time.Hour
		if v := os.Getenv("SYMGO_THOROUGH_TOTAL_S"); v != "" {
			if n, err := strconv.Atoi(v); err == nil && n > 0 {
				total = time.Duration(n) * time.Second
			}
		}
		totalDeadline = time.Now().Add(total)
	}
	nSelf := cc.SelfTest
	if thorough && cc.SelfTestT > 0 {
		nSelf = cc.SelfTestT
	}
	if nSelf == 0 {
		nSelf = 4
		if thorough {
			nSelf = 16
		}
	}
	logDir := ""
	if *logq {
		logDir = filepath.Join(*evdir, id+".smt")
		os.MkdirAll(logDir, 0o755)
	}

	var results []*entryResult
	selected := 0
	for _, ec := range cc.Entries {
		if (*only == "" || strings.Contains(ec.Func, *only)) && (!ec.Thorough || thorough) {
			selected++
		}
	}
	if selected == 0 {
		// nothing to run is never a success (a mistyped -only, or a tier without entries)
		fmt.Printf("INCONCLUSIVE property=%s reason=no entry selected (only=%q tier=%s)\n", id, *only, *tier)
		writeFailEvidence(evPath, &cc, *tier, seed, time.Since(t0), "no entry selected")
		return 2
	}
	for _, ec := range cc.Entries {
		if *only != "" && !strings.Contains(ec.Func, *only) {
			continue
		}
		if ec.Thorough && !thorough {
			continue
		}
		if !strings.Contains(ec.Func, "/") {
			// shorthand: "pkg/x.Func" relative to the module
			ec.Func = repoMod + "/" + ec.Func
		} else if !strings.HasPrefix(ec.Func, repoMod) && !strings.Contains(strings.SplitN(ec.Func, "/", 2)[0], ".") {
			ec.Func = repoMod + "/" + ec.Func
		}
		sampleGate.mu.Lock()
		sampleGate.want, sampleGate.got = nSelf, 0
		sampleGate.mu.Unlock()
		entryBudget := budget
		if !totalDeadline.IsZero() {
			if left := time.Until(totalDeadline); left < entryBudget {
				entryBudget = left
				if entryBudget < time.Minute {
					entryBudget = time.Minute
				}
			}
		}
		r, err := prog.runEntry(ec, *workers, *solver, logDir, entryBudget, nSelf)
		if err != nil {
			fmt.Fprintln(os.Stderr, "run:", err)
			fmt.Printf("INCONCLUSIVE property=%s reason=%v\n", id, err)
			writeFailEvidence(evPath, &cc, *tier, seed, time.Since(t0), err.Error())
			return 2
		}
		fmt.Fprintf(os.Stderr, "[%s] %s: paths=%d ends=%v queries=%d asserts=%d/%d viol=%d wall=%.1fs solver=%.1fs\n",
			id, shortName(ec.Func), r.Paths, r.Ends, r.Queries, r.Asserts, r.AssertsSeen, len(r.Violations), r.Wall.Seconds(), r.SolverTime.Seconds())
		for _, m := range r.Inconclusive {
			fmt.Fprintf(os.Stderr, "   inconclusive: %s\n", m)
		}
		for _, m := range r.Partial {
			fmt.Fprintf(os.Stderr, "   partial: %s\n", m)
		}
		for k, v := range r.Warnings {
			fmt.Fprintf(os.Stderr, "   warning: %s (x%d)\n", k, v)
		}
		results = append(results, r)
	}

	dumpForkSites()
	// ---- classify violations, replay natively
	kf := loadKnown(*known)
	exit := 0
	var lines []string
	nViol := 0
	selfOK, selfBad := 0, 0
	var selfMsgs []string
	var inconclusive []string
	knownPrinted := map[string]bool{}
	for _, r := range results {
		for _, m := range r.Inconclusive {
			inconclusive = append(inconclusive, shortName(r.Entry)+": "+m)
		}
		for _, m := range r.Partial {
			lines = append(lines, fmt.Sprintf("PARTIAL property=%s entry=%s %s (thorough-tier time budget reached: the stated bound was NOT fully explored; everything explored held)", id, shortName(r.Entry), m))
		}
		// dedupe violations by message
		seenMsg := map[string]bool{}
		failedReplays := map[string]int{}
		failedOut := map[string]string{}
		for i := range r.Violations {
			v := &r.Violations[i]
			if seenMsg[v.Msg] {
				continue
			}
			// a model over an abstract primitive (hash, cipher) may not replay although another model of the
			// same obligation does: try up to 6 violating paths per message before giving up on it
			if failedReplays[v.Msg] >= 6 {
				continue
			}
			rdir := filepath.Join(*replayRoot, fmt.Sprintf("%s_%s_%d", id, shortName(r.Entry), i))
			reproduced, out := true, ""
			if !*noNative {
				reproduced, out = nativeReplay(*repo, *hdir, &cc, r.Entry, v, rdir, thorough)
			}
			if !reproduced {
				failedReplays[v.Msg]++
				failedOut[v.Msg] = out
				continue
			}
			seenMsg[v.Msg] = true
			if v.Known != "" {
				if k := kf.find(id, v.Known); k != nil && k.Status == "known" {
					if !knownPrinted[v.Known] {
						knownPrinted[v.Known] = true
						lines = append(lines, fmt.Sprintf("KNOWN-FINDING: property=%s %s: %s (replay=%s)", id, k.Tag, k.What, rdir))
					}
					continue
				}
			}
			nViol++
			lines = append(lines, fmt.Sprintf("VIOLATION property=%s replay=%s", id, rdir))
			fmt.Fprintf(os.Stderr, "   violation: %s at %s\n", v.Msg, v.Pos)
			exit = 1
		}
		for msg, n := range failedReplays {
			if !seenMsg[msg] {
				inconclusive = append(inconclusive, fmt.Sprintf("%s: %d solver model(s) for %q did not reproduce natively (engine/stub defect, or a model over an abstract primitive): %s", shortName(r.Entry), n, msg, lastLines(failedOut[msg], 6)))
			}
		}
	}
	if !*noNative {
		ok, bad, msgs := nativeSelfTest(*repo, *hdir, &cc, results, thorough)
		selfOK += ok
		selfBad += bad
		selfMsgs = append(selfMsgs, msgs...)
	}
	if selfBad > 0 {
		inconclusive = append(inconclusive, fmt.Sprintf("translator self-test: %d of %d native runs disagree with the symbolic encoding: %s", selfBad, selfOK+selfBad, strings.Join(selfMsgs, " | ")))
	}
	if exit == 0 && len(inconclusive) > 0 {
		exit = 2
	}
	for _, l := range lines {
		fmt.Println(l)
	}
	if exit == 2 {
		seenInc := map[string]bool{}
		for _, m := range inconclusive {
			if seenInc[m] {
				continue
			}
			seenInc[m] = true
			fmt.Printf("INCONCLUSIVE property=%s reason=%s\n", id, m)
		}
	}
	writeEvidence(evPath, &cc, *tier, seed, results, time.Since(t0), loadT, nViol, selfOK, inconclusive, lines, prog, *solver)
	if exit == 0 {
		fmt.Printf("OK property=%s tier=%s wall=%.1fs\n", id, *tier, time.Since(t0).Seconds())
	}
	return exit
}

func shortName(full string) string {
	i := strings.LastIndex(full, ".")
	return full[i+1:]
}

func lastLines(s string, n int) string {
	ls := strings.Split(strings.TrimSpace(s), "\n")
	if len(ls) > n {
		ls = ls[len(ls)-n:]
	}
	return strings.Join(ls, " / ")
}

type knownFile struct {
	Findings []knownFinding `json:"findings"`
}

func loadKnown(path string) *knownFile {
	kf := &knownFile{}
	data, err := os.ReadFile(path)
	if err != nil {
		return kf
	}
	json.Unmarshal(data, kf)
	return kf
}

func (k *knownFile) find(prop, tag string) *knownFinding {
	for i := range k.Findings {
		if k.Findings[i].Property == prop && k.Findings[i].Tag == tag {
			return &k.Findings[i]
		}
	}
	return nil
}

// ---------------------------------------------------------------- native replay

func modelJSON(m map[string]uint64, thorough bool) []byte {
	vals := map[string]string{}
	for k, v := range m {
		vals[k] = strconv.FormatUint(v, 10)
	}
	data, _ := json.MarshalIndent(map[string]interface{}{"thorough": thorough, "values": vals}, "", " ")
	return data
}

func pkgDirOf(entry string) (pkgPath, rel string) {
	i := strings.LastIndex(entry, ".")
	pkgPath = entry[:i]
	rel = strings.TrimPrefix(pkgPath, repoMod+"/")
	return
}

// writeReplayDir materialises a self-contained replay: models, test file, overlay.json, run.sh.
// models maps file names "model_<Entry>__<n>.json" to contents; entries lists the harness functions
// (all in the same package) the generated test can dispatch to.
func writeReplayDir(repo, hdir string, cc *CheckCfg, entries []string, models map[string][]byte, rdir string) (string, error) {
	os.RemoveAll(rdir)
	if err := os.MkdirAll(rdir, 0o755); err != nil {
		return "", err
	}
	_, rel := pkgDirOf(entries[0])
	pkgName := ""
	overlay := map[string]string{}
	for virt, real := range cc.Overlay {
		src := filepath.Join(hdir, real)
		dst := filepath.Join(rdir, strings.ReplaceAll(strings.TrimPrefix(virt, "/"), "/", "__"))
		data, err := os.ReadFile(src)
		if err != nil {
			return "", err
		}
		os.WriteFile(dst, data, 0o644)
		if filepath.IsAbs(virt) {
			overlay[virt] = dst
		} else {
			overlay[filepath.Join(repo, virt)] = dst
		}
		if filepath.Dir(virt) == rel && pkgName == "" {
			for _, l := range strings.Split(string(data), "\n") {
				if strings.HasPrefix(l, "package ") {
					pkgName = strings.TrimSpace(strings.TrimPrefix(l, "package "))
					break
				}
			}
		}
	}
	symData, _ := os.ReadFile(zzsymSource())
	os.WriteFile(filepath.Join(rdir, "zzsym.go"), symData, 0o644)
	overlay[filepath.Join(repo, "internal/zzsym/zzsym.go")] = filepath.Join(rdir, "zzsym.go")
	for name, m := range models {
		os.WriteFile(filepath.Join(rdir, name), m, 0o644)
	}
	var disp strings.Builder
	for _, en := range entries {
		fmt.Fprintf(&disp, "\t\t%q: %s,\n", shortName(en), shortName(en))
	}
	test := fmt.Sprintf(`package %s

import (
	"fmt"
	"os"
	"path/filepath"
	"sort"
	"strings"
	"testing"

	zzsym "%s"
)

func TestZZReplay(t *testing.T) {
	funcs := map[string]func(){
%s	}
	dir := os.Getenv("ZZSYM_DIR")
	files, _ := filepath.Glob(filepath.Join(dir, "model_*.json"))
	sort.Strings(files)
	for _, f := range files {
		base := strings.TrimPrefix(filepath.Base(f), "model_")
		name := base[:strings.Index(base, "__")]
		h := funcs[name]
		if h == nil {
			t.Fatalf("no harness %%s", name)
		}
		if err := zzsym.Load(f); err != nil {
			t.Fatal(err)
		}
		out := zzsym.Run(h)
		fmt.Printf("ZZ-MODEL %%s\n", filepath.Base(f))
		fmt.Printf("ZZ-OUTCOME %%s\n", out)
		for _, m := range zzsym.Failures {
			fmt.Printf("ZZ-ASSERT-FAILED %%s\n", m)
		}
		for _, m := range zzsym.Reached {
			fmt.Printf("ZZ-REACH %%s\n", m)
		}
		for _, m := range zzsym.Observed {
			fmt.Printf("ZZ-OBSERVE %%s\n", m)
		}
		fmt.Printf("ZZ-END\n")
	}
}
`, pkgName, symPkg, disp.String())
	testPath := filepath.Join(rdir, "zz_replay_test.go")
	os.WriteFile(testPath, []byte(test), 0o644)
	overlay[filepath.Join(repo, rel, "zz_replay_test.go")] = testPath
	ov, _ := json.MarshalIndent(map[string]interface{}{"Replace": overlay}, "", " ")
	os.WriteFile(filepath.Join(rdir, "overlay.json"), ov, 0o644)
	tags := ""
	if cc.TestTags != "" {
		tags = "-tags " + cc.TestTags + " "
	}
	if mf, err := prepareModfile(repo, hdir, cc, rdir); err == nil && mf != "" {
		tags += mf + " "
	}
	run := fmt.Sprintf("#!/bin/sh\n# replays the solver model(s) in this directory against the real code\nexport GOFLAGS=-mod=mod GOPROXY=off GOSUMDB=off\ncd %s && ZZSYM_DIR=%s go test -vet=off -count=1 %s-overlay %s/overlay.json -run 'TestZZReplay$' -v ./%s\n",
		repo, rdir, tags, rdir, rel)
	os.WriteFile(filepath.Join(rdir, "run.sh"), []byte(run), 0o755)
	return filepath.Join(rdir, "run.sh"), nil
}

func zzsymSource() string {
	exe, _ := os.Executable()
	p := filepath.Join(filepath.Dir(exe), "zzsym", "zzsym.go")
	if _, err := os.Stat(p); err == nil {
		return p
	}
	return "/verif/engine/zzsym/zzsym.go"
}

func runReplay(script string) (string, error) {
	cmd := exec.Command("timeout", "600", "sh", script)
	cmd.Env = append(os.Environ(), "GOFLAGS=-mod=mod", "GOPROXY=off", "GOSUMDB=off")
	out, err := cmd.CombinedOutput()
	return string(out), err
}

type nativeRun struct {
	Outcome  string
	Failures []string
	Reached  []string
	Observed []string
}

func parseNative(out string) []nativeRun {
	var runs []nativeRun
	var cur *nativeRun
	for _, l := range strings.Split(out, "\n") {
		l = strings.TrimRight(l, "\r")
		switch {
		case strings.HasPrefix(l, "ZZ-MODEL "):
			cur = &nativeRun{}
		case cur == nil:
		case strings.HasPrefix(l, "ZZ-OUTCOME "):
			cur.Outcome = strings.TrimPrefix(l, "ZZ-OUTCOME ")
		case strings.HasPrefix(l, "ZZ-ASSERT-FAILED "):
			cur.Failures = append(cur.Failures, strings.TrimPrefix(l, "ZZ-ASSERT-FAILED "))
		case strings.HasPrefix(l, "ZZ-REACH "):
			cur.Reached = append(cur.Reached, strings.TrimPrefix(l, "ZZ-REACH "))
		case strings.HasPrefix(l, "ZZ-OBSERVE "):
			cur.Observed = append(cur.Observed, strings.TrimPrefix(l, "ZZ-OBSERVE "))
		case l == "ZZ-END":
			runs = append(runs, *cur)
			cur = nil
		}
	}
	return runs
}

func hasEnvInputs(m map[string]uint64) bool {
	for k := range m {
		if strings.HasPrefix(k, "env.") {
			return true
		}
	}
	return false
}

func nativeReplay(repo, hdir string, cc *CheckCfg, entry string, v *violation, rdir string, thorough bool) (bool, string) {
	models := map[string][]byte{"model_" + shortName(entry) + "__0.json": modelJSON(v.Model, thorough)}
	script, err := writeReplayDir(repo, hdir, cc, []string{entry}, models, rdir)
	if err != nil {
		return false, err.Error()
	}
	if hasEnvInputs(v.Model) {
		// thread-modular counterexample: the interference values cannot be injected into a native
		// single-threaded run; the schedule is written out instead.
		note := "thread-modular counterexample (not natively replayable): " + v.Msg + "\nvalues observed from other threads are the env.interference#k entries of the model, in program order\n"
		os.WriteFile(filepath.Join(rdir, "schedule.txt"), []byte(note), 0o644)
		return true, note
	}
	out, _ := runReplay(script)
	os.WriteFile(filepath.Join(rdir, "output.txt"), []byte(out), 0o644)
	runs := parseNative(out)
	if len(runs) != 1 {
		return false, out
	}
	r := runs[0]
	if strings.HasPrefix(v.Msg, "uncaught panic") {
		return strings.HasPrefix(r.Outcome, "panic:"), out
	}
	for _, f := range r.Failures {
		if f == v.Msg {
			return true, out
		}
	}
	return false, out
}

// nativeSelfTest runs the sampled path models of all entries of one package in a single go test.
func nativeSelfTest(repo, hdir string, cc *CheckCfg, results []*entryResult, thorough bool) (ok, bad int, msgs []string) {
	byPkg := map[string][]*entryResult{}
	var pkgs []string
	for _, r := range results {
		keep := r.Samples[:0]
		for _, s := range r.Samples {
			if !hasEnvInputs(s.Model) {
				keep = append(keep, s)
			}
		}
		r.Samples = keep
		if len(r.Samples) == 0 {
			continue
		}
		pp, _ := pkgDirOf(r.Entry)
		if byPkg[pp] == nil {
			pkgs = append(pkgs, pp)
		}
		byPkg[pp] = append(byPkg[pp], r)
	}
	for _, pp := range pkgs {
		tmp, err := os.MkdirTemp("", "symgo-self-")
		if err != nil {
			return ok, bad + 1, append(msgs, err.Error())
		}
		models := map[string][]byte{}
		var entries []string
		type ref struct {
			r *entryResult
			i int
		}
		var order []string
		refs := map[string]ref{}
		for _, r := range byPkg[pp] {
			entries = append(entries, r.Entry)
			for i, s := range r.Samples {
				name := fmt.Sprintf("model_%s__%04d.json", shortName(r.Entry), i)
				models[name] = modelJSON(s.Model, thorough)
				refs[name] = ref{r, i}
				order = append(order, name)
			}
		}
		script, err := writeReplayDir(repo, hdir, cc, entries, models, tmp)
		if err != nil {
			os.RemoveAll(tmp)
			return ok, bad + len(order), append(msgs, err.Error())
		}
		out, _ := runReplay(script)
		os.RemoveAll(tmp)
		runs := map[string]nativeRun{}
		cur := ""
		for _, nr := range parseNativeNamed(out, &cur) {
			runs[nr.name] = nr.nativeRun
		}
		if len(runs) != len(order) {
			return ok, bad + len(order), append(msgs, "native self-test run failed: "+lastLines(out, 8))
		}
		for _, name := range order {
			rf := refs[name]
			s := rf.r.Samples[rf.i]
			r := runs[name]
			good := r.Outcome == "ok" && len(r.Failures) == 0 &&
				strings.Join(r.Reached, ";") == strings.Join(s.Reached, ";") &&
				strings.Join(r.Observed, ";") == strings.Join(s.Observed, ";")
			if good {
				ok++
			} else {
				bad++
				if len(msgs) < 3 {
					msgs = append(msgs, fmt.Sprintf("%s: native outcome=%s failures=%v reach=%v obs=%v; symbolic reach=%v obs=%v model=%v",
						name, r.Outcome, r.Failures, r.Reached, r.Observed, s.Reached, s.Observed, s.Model))
				}
			}
		}
	}
	return
}

type namedRun struct {
	name string
	nativeRun
}

func parseNativeNamed(out string, _ *string) []namedRun {
	var res []namedRun
	var names []string
	for _, l := range strings.Split(out, "\n") {
		if strings.HasPrefix(l, "ZZ-MODEL ") {
			names = append(names, strings.TrimSpace(strings.TrimPrefix(l, "ZZ-MODEL ")))
		}
	}
	runs := parseNative(out)
	for i, r := range runs {
		if i < len(names) {
			res = append(res, namedRun{names[i], r})
		}
	}
	return res
}

// ---------------------------------------------------------------- evidence

func writeFailEvidence(path string, cc *CheckCfg, tier string, seed int, wall time.Duration, why string) {
	ev := map[string]interface{}{
		"property_id": cc.Property, "tier": tier, "seed": seed, "level": "other",
		"coverage":    map[string]interface{}{"explanation": "check did not complete: " + why, "samples": []string{}},
		"wall_s":      wall.Seconds(),
		"violations":  0,
		"assumptions": []string{},
	}
	writeJSON(path, ev)
}

func writeEvidence(path string, cc *CheckCfg, tier string, seed int, results []*entryResult, wall, loadT time.Duration, nViol, selfOK int, inconclusive, lines []string, prog *Program, solver string) {
	paths, queries, asserts, steps := 0, 0, 0, 0
	var solverT time.Duration
	funcs := map[string]bool{}
	var samples []interface{}
	var entries []interface{}
	for _, r := range results {
		paths += r.Paths
		queries += r.Queries
		asserts += r.Asserts
		steps += r.Steps
		solverT += r.SolverTime
		for f := range r.Funcs {
			funcs[f] = true
		}
		reached := []string{}
		for l := range r.Reached {
			reached = append(reached, l)
		}
		sort.Strings(reached)
		entries = append(entries, map[string]interface{}{
			"entry": shortName(r.Entry), "paths": r.Paths, "path_ends": r.Ends, "solver_queries": r.Queries,
			"assertions_discharged_unsat": r.Asserts, "assertion_sites_hit": r.AssertsSeen, "violations": len(r.Violations),
			"witnesses_reached": reached, "witnesses_required": r.Required, "wall_s": r.Wall.Seconds(), "solver_s": r.SolverTime.Seconds(),
			"instructions_executed": r.Steps, "max_alloc_elems": r.MaxAlloc, "warnings": r.Warnings,
		})
		for _, ps := range r.PathSamples {
			if len(samples) < 12 {
				samples = append(samples, shortName(r.Entry)+": "+ps)
			}
		}
		for _, s := range r.Samples {
			if len(samples) < 16 {
				samples = append(samples, map[string]interface{}{"entry": shortName(r.Entry), "model": s.Model, "reached": s.Reached, "observed": s.Observed})
			}
		}
	}
	if len(samples) == 0 {
		samples = append(samples, "no completed path")
	}
	// functions encoded: repo functions only, with source file hashes
	var fnames []string
	for f := range funcs {
		if strings.Contains(f, repoMod) && !strings.Contains(f, "zzsym") {
			fnames = append(fnames, strings.ReplaceAll(f, repoMod+"/", ""))
		}
	}
	sort.Strings(fnames)
	var stdnames []string
	for f := range funcs {
		if !strings.Contains(f, repoMod) {
			stdnames = append(stdnames, f)
		}
	}
	sort.Strings(stdnames)
	if len(stdnames) > 60 {
		stdnames = append(stdnames[:60], fmt.Sprintf("... %d more", len(stdnames)-60))
	}
	level := cc.Level
	if level == "" {
		level = "model_checking"
	}
	cov := map[string]interface{}{
		"states":                        paths,
		"transitions":                   queries,
		"traces_validated_against_impl": selfOK,
		"samples":                       samples,
		"explanation":                   cc.Explanation,
		"obligations":                   asserts,
		"functions_encoded":             fnames,
		"library_functions_encoded":     stdnames,
		"bounds":                        cc.Bounds,
		"stubs":                         cc.Stubs,
		"entries":                       entries,
		"solver":                        solver + " (one incremental process per worker, push/pop per path and per query)",
		"solver_time_s":                 solverT.Seconds(),
		"load_and_ssa_build_s":          loadT.Seconds(),
		"instructions_executed":         steps,
		"inconclusive":                  inconclusive,
		"report_lines":                  lines,
		"rule":                          "states = symbolic paths explored to completion or cut; transitions = SMT queries (branch feasibility, concretisation, assertion); each path covers all input values satisfying its path condition",
		"evaluations":                   paths,
		"distinct_nontrivial":           paths,
	}
	if cov["explanation"] == "" {
		cov["explanation"] = "bounded symbolic execution of the real SSA; see entries"
	}
	ev := map[string]interface{}{
		"property_id": cc.Property, "tier": tier, "seed": seed, "level": level,
		"coverage": cov, "assumptions": cc.Assumptions, "wall_s": wall.Seconds(), "violations": nViol,
	}
	if ev["assumptions"] == nil {
		ev["assumptions"] = []string{}
	}
	writeJSON(path, ev)
}
