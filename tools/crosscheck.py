#!/usr/bin/env python3
"""Cross-solver diff of the SMT-LIB2 transcripts symgo writes with `./check <ID> <tier> -log`.

usage: tools/crosscheck.py <dir-with-*.smt2> [--limit N]

Every transcript is one incremental session (push / pop / check-sat). It is replayed unchanged
(minus z3-only options and get-value calls) through z3-new 5.1 (the deciding solver), z3 4.8.12 and
cvc5 --incremental; the sequences of check-sat answers are compared position by position. `unknown`
and timeouts are not disagreements; sat-vs-unsat is. Exit 1 on any disagreement.
"""
import re, subprocess, sys, glob, os

def clean(text, solver):
    out = []
    for line in text.split('\n'):
        if line.startswith('(set-option :combined_solver') or line.startswith('(set-option :timeout') or line.startswith('(get-value') or line.startswith('(get-model'):
            continue
        if line.startswith('(set-option :print-success'):
            continue
        out.append(line)
    head = ''
    if solver == 'cvc5':
        head = '(set-logic ALL)\n'
    return head + '\n'.join(out) + '\n(exit)\n'

def run(cmd, text, timeout):
    try:
        p = subprocess.run(cmd, input=text, capture_output=True, text=True, timeout=timeout)
    except subprocess.TimeoutExpired:
        return None, 'timeout'
    ans = [l.strip() for l in p.stdout.split('\n') if l.strip() in ('sat', 'unsat', 'unknown')]
    errs = [l for l in p.stdout.split('\n') if '(error' in l]
    return ans, ('; '.join(errs[:2]) if errs else '')

def main():
    d = sys.argv[1]
    limit = 10**9
    if '--limit' in sys.argv:
        limit = int(sys.argv[sys.argv.index('--limit') + 1])
    files = sorted(glob.glob(os.path.join(d, '*.smt2')))[:limit]
    total = agree = unknown = 0
    bad = 0
    for f in files:
        text = open(f).read()
        nq = text.count('(check-sat)')
        ref, e0 = run(['z3-new', '-in', '-t:20000'], clean(text, 'z3'), 1800)
        old, e1 = run(['z3', '-in', '-t:20000'], clean(text, 'z3'), 1800)
        cvc, e2 = run(['cvc5', '--incremental', '--lang=smt2', '--tlimit-per=20000'], clean(text, 'cvc5'), 1800)
        print('%s: %d queries; z3-new %s z3-4.8.12 %s cvc5 %s' % (os.path.basename(f), nq,
              len(ref) if ref is not None else e0, len(old) if old is not None else e1, len(cvc) if cvc is not None else e2))
        for name, other, err in (('z3-4.8.12', old, e1), ('cvc5', cvc, e2)):
            if err:
                print('   %s: %s (transcript inconclusive for this solver)' % (name, err[:200]))
                continue
            if ref is None or other is None or len(other) != len(ref):
                print('   %s: answer count differs (%s vs %s): not compared' % (name, None if other is None else len(other), None if ref is None else len(ref)))
                continue
            for i, (a, b) in enumerate(zip(ref, other)):
                total += 1
                if 'unknown' in (a, b):
                    unknown += 1
                elif a == b:
                    agree += 1
                else:
                    bad += 1
                    print('   DISAGREEMENT %s query #%d: z3-new=%s %s=%s' % (os.path.basename(f), i, a, name, b))
    print('compared %d answers: %d agree, %d unknown on one side, %d DISAGREE' % (total, agree, unknown, bad))
    sys.exit(1 if bad else 0)

if __name__ == '__main__':
    main()
