#!/bin/sh
# usage: tools/seedsave.sh <id> <outdir> "<needs>" "<caught-by / result>" [dir-suffix, e.g. -2 for a second seed]
ID="$1"; OUT="$2"; NEEDS="$3"; RES="$4"; SUFFIX="${5:-}"
D=/verif/seeded/$ID$SUFFIX
mkdir -p "$D"
cp "$OUT/patch.diff" "$D/patch.diff"
cp "$OUT"/zz_seed_demo_test.go "$D/" 2>/dev/null
cp "$OUT/DEMO_PATH.txt" "$D/" 2>/dev/null
cp "$OUT/README.md" "$D/SEEDER_README.md" 2>/dev/null
python3 - "$ID" "$D" "$NEEDS" "$RES" <<'PY'
import json, sys
i, d, needs, res = sys.argv[1:5]
json.dump({"property": i, "breaks": i, "needs_to_manifest": needs,
  "confirmed_by": "tools/seedcheck.sh: fresh scratch worktree; patch applies; go build ./... ok; demonstration passes on the unchanged tree and fails with the patch; existing tests of the touched packages pass with the patch",
  "check_result": res, "origin": "fresh sub-agent given only the property record and its own scratch worktree"},
  open(d + "/meta.json", "w"), indent=1)
PY
