#!/bin/sh
# runs the quick tier of the given checks sequentially, one summary line each
cd /verif
for id in "$@"; do
  s=$(date +%s)
  out=$(SYMGO_WORKERS=${SYMGO_WORKERS:-8} ./check $id ${TIER:-quick} ${EXTRA:-} 2>&1)
  rc=$?
  e=$(date +%s)
  echo "$id rc=$rc wall=$((e-s))s $(echo "$out" | grep -c '^VIOLATION') viol $(echo "$out" | grep -c '^KNOWN-FINDING') known"
  if [ $rc -ne 0 ]; then echo "$out" | grep "^INCONCLUSIVE\|^VIOLATION\|violation:" | cut -c1-300 | head -8; fi
done
