#!/usr/bin/env python3
# prints the repo packages (./pkg/..) that any harness loads from source or overlays into
import json, glob, os
pk = set()
for f in glob.glob(os.path.join(os.path.dirname(__file__), '..', 'harness', '*', 'check.json')):
    c = json.load(open(f))
    for p in c.get('packages', []):
        pk.add('./' + p)
    for v in c.get('overlay', {}):
        if not v.startswith('/'):
            pk.add('./' + os.path.dirname(v))
print(' '.join(sorted(pk)))
