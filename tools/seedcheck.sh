#!/bin/sh
# usage: tools/seedcheck.sh <property-id> <seed-out-dir> [check ids to run, default = property id]
# Confirms a seeded change in a fresh scratch worktree (applies, builds, demo fails with / passes
# without, touched packages' tests pass) and runs the checks against it. Removes the worktree.
set -u
ID="$1"; OUT="$2"; shift 2
CHECKS="${*:-$ID}"
WT=/tmp/sc_$ID.$$
export PATH=/root/go/pkg/mod/golang.org/toolchain@v0.0.1-go1.25.11.linux-amd64/bin:$PATH GOTOOLCHAIN=local GOFLAGS=-mod=mod GOPROXY=off GOSUMDB=off
git -C /repo worktree add --detach "$WT" >/dev/null 2>&1 || { echo "worktree failed"; exit 2; }
cleanup() { git -C /repo worktree remove --force "$WT" >/dev/null 2>&1; }
trap cleanup EXIT
cd "$WT"
DEMO_REL=$(cat "$OUT/DEMO_PATH.txt" 2>/dev/null | head -1 | tr -d ' \r')
DEMO_SRC=$(ls "$OUT"/zz_seed_demo_test.go 2>/dev/null | head -1)
PKG=./$(dirname "$DEMO_REL")
# 1. demo on the unchanged tree
cp "$DEMO_SRC" "$WT/$DEMO_REL"
go test -vet=off -count=1 -run 'Seed|seed|Demo|ZZ' "$PKG" >/tmp/sc_$ID.clean.log 2>&1; RC_CLEAN=$?
# 2. apply the change
git apply "$OUT/patch.diff" || { echo "patch does not apply"; exit 2; }
go build ./... >/tmp/sc_$ID.build.log 2>&1; RC_BUILD=$?
go test -vet=off -count=1 -run 'Seed|seed|Demo|ZZ' "$PKG" >/tmp/sc_$ID.mut.log 2>&1; RC_MUT=$?
rm -f "$WT/$DEMO_REL"
# 3. existing tests of touched packages
TOUCHED=$(git diff --name-only | xargs -n1 dirname | sort -u | sed 's|^|./|')
go test -vet=off -count=1 $TOUCHED >/tmp/sc_$ID.pkg.log 2>&1; RC_PKG=$?
echo "seed $ID: build=$RC_BUILD demo_clean=$RC_CLEAN(want 0) demo_mutated=$RC_MUT(want !=0) touched_pkg_tests=$RC_PKG(want 0) touched=[$TOUCHED]"
# 4. the checks
cd /verif
for c in $CHECKS; do
  out=$(SYMGO_WORKERS=${SYMGO_WORKERS:-8} ./check $c quick -repo "$WT" -evidence /tmp/sc_ev -replay /tmp/sc_replay_$ID 2>&1); rc=$?
  echo "  check $c rc=$rc $(echo "$out" | grep -c '^VIOLATION') violation lines"
  echo "$out" | grep "violation:" | sort -u | cut -c1-200 | head -4
  [ $rc -eq 2 ] && echo "$out" | grep "^INCONCLUSIVE" | sort -u | cut -c1-240 | head -3
done
