#!/usr/bin/env python3
"""Regenerates /verif/MANIFEST.json from the table below + harness/<id>/check.json.
A property is claimed only if its id is in CLAIMED (i.e. its quick check ran clean on the unchanged tree)."""
import json, os, sys

ROOT = os.path.join(os.path.dirname(os.path.abspath(__file__)), '..')

NA = {
 "C09": "Pebble WAL/batch atomicity under crash; no WuKongIM integer/byte function decides any clause; a crash model of Pebble is outside SMT reach",
 "C11": "streaming export/import through Pebble iterators and io.Reader chains; whole-stream checksums over unbounded input",
 "C12": "etcd-raft + goroutine pipelines + network schedules + Pebble; nothing encodable decides a clause",
 "C14": "differential behaviour of a Pebble-backed store against etcd MemoryStorage over histories and crash points",
 "C28": "ordering across goroutines, mailboxes and an ants pool; the SSA executor has no goroutine scheduler",
 "C31": "concurrent shard workers with port latencies; no goroutine scheduler in the executor",
 "C37": "the property is the concurrency itself (ants pools, timers, close races)",
 "C38": "zstd, encoding/json canonical decoding and SHA-256 over streamed objects",
 "C39": "exactly-once argument runs through metadb.WriteBatch commits, durable applied-delta rows and async forwarding (Pebble)",
 "C41": "stop/drain races between goroutines and deadlines",
}

# id -> (category, text, level_note, technique)
CLAIMED = {}

def claim(i, cat, text, note, tech="bounded symbolic execution of the real go/ssa + SMT (z3) per path; sat models replayed natively"):
    CLAIMED[i] = (cat, text, note, tech)

TB = "Trusted: go/ssa lowering, symgo's instruction semantics (validated per run by native self-test of sampled path models), z3 5.1 verdicts, the stubs/assumptions listed in evidence."

claim("C26", "model_checking",
      "Decides, for all 2^192 header byte values and every maxBodyBytes, that DecodeHeader accepts exactly well-formed headers, that header encode/decode are mutually inverse and that bodyLenToInt cannot yield a negative or over-limit length. The RPC-correlation clause (PendingTable under goroutines) is not claimed.",
      "Slice: frame headers only; correlation across timeouts/cancellation needs real goroutines. " + TB)
claim("C21", "model_checking",
      "Decides that routing.HashSlotForKey, hashslot.HashSlotForKey and workload.physicalHashSlotForKey agree, stay below count and depend only on (key,count), for every key up to the length bound (all byte values) and all 65536 counts; crc32 executed from the library's portable code.",
      "Keys longer than the bound are outside the claim; Node.HashSlotForKey delegates to routing.HashSlotForKey (its count selection is not encoded). " + TB)
claim("C30", "model_checking",
      "Decides sequential monotonicity/uniqueness and the restore-floor rule for arbitrary clock values, and a thread-modular (rely/guarantee) obligation: under arbitrary monotone interference on the atomic floor every write/CAS by Next/SetFloor strictly increases it and the returned id is the installed value.",
      "Concurrency is covered thread-modularly (interference on the atomic cell), not by interleaving real goroutines; interference counterexamples are reported with a schedule file, not a native replay. snowflake.Generate is an arbitrary positive value. " + TB)
claim("C05", "model_checking",
      "Decides that the byte stream hashed by digestProposalEntry is an injective encoding of every bound field (equal digests <=> equal authority, index, predecessor, command and message fields), that VerifyEntry accepts exactly the sealed content, and that the pkg/channel adapter forwards every semantic field; SHA-256 abstract and collision-free.",
      "SHA-256 itself is abstract (injective, never zero). Strings/payload up to the length bound. " + TB)
claim("C22", "model_checking",
      "Decides encode/decode round trip, exact consumed length, encodedFrameSize equality and trailing-byte independence for every frame type x protocol version 0..LatestVersion with all scalar fields and flags symbolic and strings/payload up to the bound, plus the 32767 / PayloadMaxSize / 127-128-16383-16384 boundaries.",
      "Equality is on wire-carried fields per version (DESIGN section 3); strings longer than the bound only at the named boundaries. " + TB)
claim("C23", "model_checking",
      "Decides, for arbitrary input bytes up to the bound and every split point of a two-frame stream, that Adapter.Decode/DecodeFrame/decodeLength never panic or read out of range, never report progress on an incomplete frame, and return exactly the wholly contained frames.",
      "Inputs longer than the bound and the encrypted path are outside the claim. " + TB)

def main():
    props = [json.loads(l) for l in open(os.path.join(ROOT, 'properties.jsonl'))]
    checks, na = [], []
    pending = "harness not yet registered (see DESIGN.md section 5); not claimed until its quick check runs clean"
    for p in props:
        i = p['id']
        hj = os.path.join(ROOT, 'harness', i, 'check.json')
        if i in CLAIMED and os.path.exists(hj):
            cat, text, note, tech = CLAIMED[i]
            checks.append({
                "property_id": i,
                "quick_cmd": "./check %s quick" % i,
                "thorough_cmd": "./check %s thorough" % i,
                "evidence_file": "/verif/evidence/%s.json" % i,
                "replay_cmd_template": "sh {path}/run.sh",
                "engine": "symgo",
                "level_claimed": {"category": cat, "text": text, "design_ref": "DESIGN.md section 5 / " + i},
                "level_note": note,
                "technique": tech,
            })
        else:
            na.append({"property_id": i, "reason": NA.get(i, pending)})
    m = {
        "version": 1,
        "setup_cmd": "./setup.sh",
        "hooks": {"guard": "verif", "enable": "no source hooks: harnesses, the zzsym package and dependency shims are injected with go/packages overlays, -modfile replaces and go test -overlay",
                  "baseline_off_cmd": "cd /repo && go test -vet=off -count=1 -timeout 25m ./...", "source_commits": [], "add_only": True},
        "engines": [{"name": "symgo", "path": "/verif/engine", "serves_properties": sorted(c["property_id"] for c in checks),
                     "kind_free_text": "symbolic executor for Go SSA (go/ssa via x/tools v0.50.0) emitting SMT-LIB2 bit-vector queries to z3; native replay of models with go test -overlay"}],
        "checks": checks,
        "not_applicable": na,
        "notes": "exit 2 + INCONCLUSIVE lines = the check could not decide within its bounds (never reported as success). See DESIGN.md.",
    }
    json.dump(m, open(os.path.join(ROOT, 'MANIFEST.json'), 'w'), indent=1)
    print("claimed:", len(checks), "not claimed:", len(na))

if __name__ == '__main__':
    main()
