#!/usr/bin/env python3
"""Regenerates /verif/MANIFEST.json from the table below + harness/<id>/check.json.
A property is claimed only if its id is in CLAIMED (i.e. its quick check ran clean on the unchanged tree)."""
import json, os, sys

ROOT = os.path.join(os.path.dirname(os.path.abspath(__file__)), '..')

NA = {
 "C12": "etcd-raft + goroutine pipelines + network schedules + Pebble; nothing encodable decides a clause",
 "C28": "ordering across goroutines, mailboxes and an ants pool; the SSA executor has no goroutine scheduler",
 "C31": "concurrent shard workers with port latencies; no goroutine scheduler in the executor",
 "C37": "the property is the concurrency itself (ants pools, timers, close races)",
 "C41": "stop/drain races between goroutines and deadlines",
}

# id -> (category, text, level_note, technique)
CLAIMED = {}

def claim(i, cat, text, note, tech="bounded symbolic execution of the real go/ssa + SMT (z3) per path; sat models replayed natively"):
    CLAIMED[i] = (cat, text, note, tech)

TB = "Trusted: go/ssa lowering, symgo's instruction semantics (validated per run by native self-test of sampled path models), z3 5.1 verdicts, the stubs/assumptions listed in evidence."

claim("C26", "model_checking",
      "Decides, for all 2^192 header byte values and every maxBodyBytes, that DecodeHeader accepts exactly well-formed headers, that header encode/decode are mutually inverse and that bodyLenToInt cannot yield a negative or over-limit length. Sequential slice of the correlation clause: on the real PendingTable (1 or 16 shards, three request ids with arbitrary upper 60 bits, sharing a shard or not) every sequence of 3 (thorough 4) Complete / Delete (timeout, cancel) / Store / FailAll (connection loss) operations leaves each call's channel with exactly its own response, the terminal error, or nothing - never another id's response, never two.",
      "The concurrent part of the correlation clause (select race in Conn.Call, reader goroutine, timers) is NOT covered: the executor has no scheduler (seeded change C26 lives there and is not caught). " + TB)
claim("C21", "model_checking",
      "Decides that routing.HashSlotForKey, hashslot.HashSlotForKey and workload.physicalHashSlotForKey agree, stay below count and depend only on (key,count), for every key up to the length bound (all byte values) and all 65536 counts; crc32 executed from the library's portable code.",
      "Keys longer than the bound are outside the claim; Node.HashSlotForKey delegates to routing.HashSlotForKey (its count selection is not encoded). " + TB)
claim("C30", "model_checking",
      "Decides sequential monotonicity/uniqueness and the restore-floor rule for arbitrary clock values, and a thread-modular (rely/guarantee) obligation: under arbitrary monotone interference on the atomic floor every write/CAS by Next/SetFloor strictly increases it and the returned id is the installed value.",
      "Concurrency is covered thread-modularly (interference on the atomic cell), not by interleaving real goroutines; interference counterexamples are reported with a schedule file, not a native replay. snowflake.Generate is an arbitrary positive value. " + TB)
claim("C05", "model_checking",
      "Decides that the byte stream hashed by digestProposalEntry is an injective encoding of every bound field (equal digests <=> equal authority, index, predecessor, command and message fields), that VerifyEntry accepts exactly the sealed content, and that the pkg/channel adapter forwards every semantic field; SHA-256 abstract and collision-free.",
      "SHA-256 itself is abstract (injective, never zero). Strings/payload up to the length bound. " + TB)
claim("C22", "model_checking",
      "Decides encode/decode round trip, exact consumed length, encodedFrameSize equality and trailing-byte independence for every frame type x protocol version 0..LatestVersion with all scalar fields and flags symbolic and strings/payload up to the bound, plus the 32767 / PayloadMaxSize / 127-128-16383-16384 boundaries.",
      "Equality is on wire-carried fields per version (DESIGN section 3); strings longer than the bound only at the named boundaries. " + TB)
claim("C23", "model_checking",
      "Decides, for arbitrary input bytes up to the bound and every split point of a two-frame stream, that Adapter.Decode/DecodeFrame/decodeLength never panic or read out of range, never report progress on an incomplete frame, and return exactly the wholly contained frames.",
      "Inputs longer than the bound and the encrypted path are outside the claim. " + TB)


claim("C01", "other",
      "Slice (obligation O2 of the decomposition in DESIGN 5/C01): decides, for a 3-voter cluster with arbitrary replica logs under the stated reachability invariant and every responder quorum, whether the recovery a new leader runs inside Install (recoverQuorumPrefix, and the one-round rule selectRecoveryPrefix) keeps an acknowledged entry. It does not: known finding C01-F1 (fewer than Q responders hold the acknowledged identity); outside that pattern the obligation is unsat. Further obligations: O3 - the real repairQuorumPrefix on the real memory store never rewrites or cuts below the local committed prefix, ends exactly on the selected prefix with the supporters' identities and content, and fails closed on 12 malformed selections / pages / store refusals; O4 - the real quorumLog.Install becomes ready only after probes, repair and a current-term barrier durable locally and on a follower, in that order, and any failure leaves admission closed; O5 - the failover planner only names a healthy ISR member whose proof covers the required prefix; O6 - every gate admits only majority write quorums. Composition into the history-level statement is a paper argument.",
      "Logs up to length 2 (3 thorough); probe dispatcher is a synchronous fake over the cluster summary; identities are an injective function of the variant prefix (stands for the hash chain). The durable round (C03), the barrier dispatch (C04), the Pebble-backed store and real transport are not encoded here. " + TB)
claim("C06", "model_checking",
      "One inductive step: from an arbitrary ChannelState satisfying the stated invariant, every machine transition (ApplyMeta, ProposeAppend(Batch), ApplyAppendStored, ApplyQuorumCommitted, ApplyFollowerAck, CancelAppendWaiter, AbortAppendBatchProposal) preserves the invariant, never lowers HW within a fence, answers quorum waiters only when HW covers them, answers each op at most once, ignores stale-fence results and rejects older/same-epoch-leader-switch metadata.",
      "Bounded sizes (<=3 ISR, <=2 pending waiters of 1-2 records, op ids/node ids concrete), all scalars 64-bit symbolic; follower ack offset <= LEO is the reactor's precondition (read at its three call sites). Histories follow by induction (paper). " + TB)
claim("C10", "model_checking",
      "Decides the retention gates (retentionTrimDecision/minISRMatchOffset, boundary monotonicity, worker trim gate) and, for arbitrary read requests and store states, that Service.readLocalCommitted / ReadCommittedBatch / forwarded reads / conversation heads / SyncMessages return only messages with retention < seq <= committed and never SyncOnce records.",
      "The Pebble-backed store adapter is replaced by a fake of the channelstore.ChannelStore port answering by the ReadCommitted contract; physical trimming inside Pebble and the worker-pool goroutine hop are outside. " + TB)
claim("C15", "model_checking",
      "Decides on fully symbolic rows that resolveMonotonicChannelRuntimeMeta and the batch upsert/create/retention-advance paths never regress (epoch pair lexicographic, same-pair leader/lease, retention, fence version), return the stored row unchanged on stale/conflict, and raise the route generation on every route change (checked against an independent change predicate).",
      "Replica/ISR lists up to length 2 (3 thorough); route generation saturation at 2^64-1 stated; batch entries run the staged op against a detached engine batch with the commit-state overlay pre-seeded. " + TB)
claim("C16", "model_checking",
      "Decides monotonicity of ReadSeq, DeletedToSeq, AckSeq, UpdatedAt, ActivatedAt (except Hide) for the pure resolvers and for the real batch commands (advance read, activate, hide, upsert, ensure, CMD ack/tombstone/upsert), including all 2-step (3 thorough) command histories on one commit state; older SourceVersion writes change nothing; tombstoned rows ignore personal-state commands.",
      "Incarnation boundaries (newer SourceVersion on a fenced row, tombstone revival) assert only the documented installs (DESIGN 3). Shard-level closures that read through Pebble and the directory pagination clause are not claimed. " + TB)
claim("C19", "other",
      "Slice: (first clause) Store.Save executed over a crash-model file system (volatile/durable content and directory entries; crash before any operation or inside a write; kill or power-loss recovery; error injection at every operation): afterwards the main path holds exactly the previous or exactly the new bytes, and Load opens only the main path. (checksum clause, coverage only) the real checksumView of two symbolic states is equal iff every persisted scalar field is equal, so an altered field cannot keep the value the checksum is computed over.",
      "os.* calls are modelled (no native replay possible for the Save entries); rename atomicity is the POSIX contract; the JSON text and the CRC itself (encoding/json) are not modelled. " + TB)
claim("C20", "model_checking",
      "Decides Lookup totality, encode/decode identity (incl. migrations and phases), decoder robustness on arbitrary bytes, version discipline of every mutator, and for rebalance/add/remove plans: distinct hash slots, From = current owner, To != From, and a balanced table after applying the plan, for every assignment of the stated sizes.",
      "H <= 6 hash slots (8 thorough), slot ids 1..3 (4), <=2 migrations; add/remove from balanced tables (DESIGN 3); decoder count field restricted to small values plus representatives. " + TB)
claim("C24", "other",
      "Slice: decides that every frame<->JSON-RPC message conversion (ToFrame/FromFrame, *Params.ToProto, FromProto*, setting/header flag mappings, request-id stamping, reply-token FIFO) carries every field without loss or swap, and IsJSONObjectPrefix on arbitrary bytes. Decode (real encoding/json, executed exactly) over a catalogue of 58 JSON documents: no panic, a message xor an error, a returned message well formed for its kind (a response carries exactly one of result / error), Encode + Decode of an accepted message reproduces its encoding.",
      "The 'arbitrary JSON' clause is claimed only for the enumerated catalogue of documents (the JSON text cannot be symbolic: encoding/json is run by the real library on concrete text); int->uint8 narrowings assumed to fit. " + TB)
claim("C25", "model_checking",
      "Decides CBC chaining + PKCS#7 + base64 round trip for every payload length 0..33 (49 thorough), rejection of malformed padding without out-of-range access, session key agreement, and that SendMsgKey/ValidateSendPacket accept the genuine key and reject any single-field tamper; AES/MD5/X25519 abstract.",
      "Primitives are algebraic contracts (permutation per key, injective hash, DH commutativity); a proven base64 Decode(Encode(x)) = x lemma is used as a rewrite. " + TB)
claim("C27", "model_checking",
      "Decides round trip, rejection of every strict prefix and panic-freedom / bounded allocation on arbitrary bytes for the net, propose, slot-FSM TLV, replication exchange and channels RPC codecs (message types listed in evidence).",
      "uvarint codecs: one full-range integer per scenario, others one byte; replication garbage uses restricted byte values; pkg/controller/command (encoding/json) excluded; messages carrying ch.Meta/time.Time not covered. " + TB)
claim("C29", "other",
      "Slice: decides for batches of up to 3-4 prepared sends and arbitrary appender answers that completions align one per position, logical duplicates share the owner's id/sequence with exactly one commit, same key with different payload is never coalesced, the coalescing guard never skips a coalescible pair, the live/failed partition preserves order, and ordered drain delivers in sequence. Known finding C29-F1 (two leading failed items).",
      "Commands are concrete members of 7 key classes (the fingerprint table index defeats the solver); cross-batch retries, concurrent writers and back-pressure are outside. " + TB)
claim("C32", "model_checking",
      "Decides against a reference model, for every history of up to 3 operations (4 thorough) over small key domains with symbolic clocks: PendingCount equals the outstanding deliveries, every result equals the model's, rollback of a failed re-delivery keeps the committed entry, session close and expiry remove exactly the model's set.",
      "Sequential histories only (each method is one shard critical section). " + TB)
claim("C33", "model_checking",
      "Decides for histories of up to 3 operations (4 thorough): operations under a non-installed authority are fenced without state change, an unregistered route never reappears at or below its unregister sequence (known finding C33-F1 for sequence 0), expiry removes exactly routes idle longer than the TTL, lookups are deterministically ordered.",
      "Sequential histories only; 2 shards, 1-2 hash slots, 3 identities. " + TB)
claim("C34", "model_checking",
      "Decides on unconstrained 64-bit rows that the unread count equals the saturating reference over the effective read point, that LastMessage respects the join/delete/retention floors, that ClearUnread yields 0 and SetUnread(N) at most N, and that the cursor passed to the store never lowers ReadSeq.",
      "Port fakes answer arbitrarily within their contracts. " + TB)
claim("C35", "model_checking",
      "Decides symmetry, decode-inverts-encode, normalisation identity, the membership gate, '@'-in-uid safety and command/agent channel reversibility for every uid of the stated lengths over all byte values.",
      "uids up to 3 bytes (4 thorough); CRC-32 modelled exactly as its GF(2)-affine closed form for C35 (validated against hash/crc32 on first use and by the native self-test). " + TB)
claim("C36", "model_checking",
      "Differential: for every combination of permission facts (one shared symbolic fact table behind both port sets) the per-send and the batched permission paths return the same reason and error-ness for group and well-formed person channels; disbanded channels never yield success or a membership reason; system senders skip only the non-terminal checks. Known finding C36-F1 (malformed person id with NormalizePersonChannel=false).",
      "Channel ids/uids are constants; permission cache off. " + TB)


claim("C03", "other",
      "Slice: decides through the real quorumLog.Commit (fake store/dispatchers backed by one fact table, synchronous completions) that a sealed range is LEO+1..LEO+n chained to the frontier, a success is backed by the local log plus a write quorum and advances the frontier, exact retries return the same receipt without I/O (retained, pending, evicted via LookupCommands, after restart), other content under a known id is ErrLogConflict, a pending command back-pressures others, and successive commands get adjacent disjoint ranges. Known finding C03-F1 (retryPending ignores a Conflict outcome).",
      "Histories of up to four Commits on one channel; MessageDB's exact-base store contract mirrored in the fake; SHA-256 abstract. " + TB)
claim("C04", "model_checking",
      "Decides that compareAuthorityID is the strict lexicographic order, that Install refuses older and conflicting authorities and closes admission before anything can fail on a newer one, that Commit is refused (no dispatch, no write) under a stale Expected, an active fence or before readiness, that appends admitted under a deposed authority never yield a receipt after a newer Install, and the reactor's append admission order.",
      "Sequential orders only (Install and Commit hold the channel mutex); hedged/deferred dispatcher variants not used; ValidateMeta clause is asserted by C06's ApplyMeta entry. " + TB)
claim("C07", "other",
      "Slice: (a) layout lemmas: order-(anti)isomorphism of the ordered integer encodings, prefix-freedom and least-upper-bound of PrefixEnd, row/index key decoders inverting their encoders, channel and table isolation of key spans over 19 key kinds, value round trips, values bound to their keys by the checksum, an appended record materialises as a valid row (C07-F1 repaired). (b) store level: the real MessageDB/ChannelLog on the in-memory engine against a reference sequential log, compared after every operation of every history of 2-3 (thorough 3-4) operations over {append 1-2, follower apply, TruncateFrom, TrimPrefixThrough, checkpoint, close+reopen} from the empty store and from a seeded log, with symbolic payload bytes on a fixed history, and with ListByClientMsgNo over logs mixing rows with and without a sender: LEO, point/forward/reverse reads, message-id, idempotency, sender and client-number indexes, checkpoint and retention state, isolation of another channel. Known finding C07-F2 (TruncateFrom after a prefix trim) isolated as its own entry.",
      "Pebble itself (durability, crashes, compaction) is replaced by the in-memory engine overlay (validated by the repository's suites); ids, senders, client numbers and positions are choices over small sets; the general entries assume no row-removing truncation after a prefix trim (C07-F2); the compat ChannelStore layer and concurrent leases are not claimed. CRC32C modelled exactly (GF(2)-affine map) in the layout entries and as an uninterpreted step function in the store entries. " + TB)
claim("C08", "other",
      "Slice: (a) idempotency filter soundness as one inductive step from an arbitrary filter state, exact in-batch duplicate detection, the pre-storage decisions of validateAppendRow. (b) store level on the in-memory engine: from a seeded log, every history of 2 (thorough 3) steps over {append in strict or server-allocated mode with any pair and a fresh / stored / other-channel id, follower apply, truncate, trim, checkpoint, reopen, lease reclamation}: a pair or id stored at another sequence (or the id in another channel) is refused with ErrConflict, a removed pair is accepted again, after reopen every held pair is refused in both modes; multi-record batches with keys of different lengths are refused iff a pair is held or repeated and everything they stored is refused afterwards.",
      "Filter layers of 1-2 words (4 thorough) for the step lemmas, maphash uninterpreted there; at store level the filter hash is instantiated twice (ordinary FNV: fresh keys skip the point read; constant: every validation takes the point read). Pebble replaced by the in-memory engine overlay; concurrent appenders not claimed. " + TB)
claim("C13", "other",
      "Slice: (a) every registered command decoder and the dispatcher on arbitrary bytes never panic and return a command or an error; (b) commands touching a hash slot the slot does not own are refused before apply, state untouched; (c) through the REAL slot state machine and meta DB on the in-memory engine: logs of 2-3 (thorough 3-4) commands applied one per batch versus every split into batches yield identical results and byte-identical stores - over group-channel commands, over the seven commands sharing a person channel's runtime row / directory generation / directory task, and over the JSON-framed channel-migration task commands; a restart between commands converges to the same store. Findings: C13-F1 (repaired), C13-F2 (known: pattern stated in the harness, anything outside it is a new violation).",
      "Tiny id spaces with small symbolic integers; snapshot equivalence, longer logs and the fenced-migration commands inside batches are not claimed; the engine shim has no durability; encoding/json as an identity codec with value-interned tokens; the migration entry ignores the slot's durable applied-index row (recovery bookkeeping). " + TB)
claim("C18", "other",
      "Slice: ApplyBatch replay guard, replay after restart, validateChanged, and batch-partition equivalence through the real ApplyBatch and all 14 mutation handlers: from a fixed valid base state with symbolic revision / applied index, a log of 2 (thorough 3) commands whose last position ranges over 32-35 command variants with symbolic fields gives identical per-command results and a field-by-field identical final state under every partition into batches; changed => revision+1; rejected / no-op commands leave the state (also the in-flight batch candidate) untouched; saved = published = returned and valid.",
      "Fixed base state; earlier log positions are commands the base state accepts; longer logs, other base states, Restore, failed Save inside the batch entries and the checksum value (4 unconstrained bytes) are not claimed. " + TB)
claim("C40", "other",
      "Slice: the message-event reducer on arbitrary lane rows: applied exactly when the lane is not terminal and the event id is not a replay; applied => sequence = cursor+1; terminal events finalise the lane and nothing later changes it; replayed ids report their recorded sequence; 3-event (4 thorough) histories keep cursor = number of applied events. Fail-closed finish (enumerated over 3 cache states x 10 concrete payload literals, not symbolic): the real Node.appendMessageEventFinishLocal over the real stream cache answers ErrMessageEventStreamCacheMiss without reaching the proposer exactly when there is no open cached lane and the payload has no usable snapshot; the gate and the snapshot merge agree on what a snapshot is.",
      "encoding/json on concrete payload literals is executed exactly; the Pebble glue of AppendMessageEvent, the finish coalescer, forwarding and arbitrary payload bytes are not claimed. " + TB)


claim("C17", "model_checking",
      "Every channel-migration WriteBatch command executed through the real meta DB code (on the in-memory engine) from an arbitrary valid (task, runtime meta) pre-state: a leader transfer commits / a learner is promoted only with a drain proof matching the current fence version, channel epoch, leader epoch and leader under the task's own fence; after a cutover Abort is refused; no command touches another task's fence; a mismatching guard writes nothing; accepted steps keep the metadata valid; a second active task is refused. Known finding C17-F1 (Advance/Claim move a post-cutover task back to an abortable phase).",
      "One step from an arbitrary valid state plus cutover+abort and cutover+one command+abort histories; runtime-meta integers 0..64, three replica/ISR shapes (one in quick); pkg/db/internal/engine and commit replaced by in-memory / synchronous shims validated by the repository's own suites; encoding/json (task row) as identity codec; row checksum as uninterpreted CRC; two commands in one batch not explored. " + TB)


claim("C39", "other",
      "Slice: through the real slot state machines and meta DB on the in-memory engine - target side: a delta replayed after a later delta (later batch, same batch, after restart) is applied exactly once; a write applied directly and as a delta give the same rows; a slot refuses ordinary writes for a hash slot it does not own. Source side: with 2 (thorough 3) writes accepted in the delta phase and any subset of live forwards delivered and acknowledged in any order, the durable outbox is always exactly the accepted writes not yet acknowledged; after the retry pass, fence and drain every accepted write has exactly one applied-delta record on the target, the outbox is empty and later writes are fenced.",
      "Sequential schedules only: the asynchronous forwarder, retry timers, controller phase changes and the ownership switch are not encoded; 4 write kinds over a tiny id space; engine/commit shims; CRC uninterpreted. " + TB)

claim("C02", "other",
      "Slice: step obligations on the real MemoryChannelStore from an arbitrary store satisfying the proved build invariant - exact AppendLeader (any base, predecessor, command id, Committed), malformed appends, ReplaceRecoverySuffix (Expected perturbed in 8 fields, any KeepThrough / Committed), checkpoint: the store equals the abstract log after the step, HW <= LEO and both monotone, identities chain from zero, Durable / AlreadyDurable / Conflict exactly as specified, refused steps change nothing; the agreement lemma (equal digest at i => equal identity and content at every j <= i) over two independently built logs; the replication store adapter's result normalisation and probe-chain validation against reference predicates; follower repair never announces a committed watermark above the leader's (real repairFromFrontier + ExchangeServer over the memory store).",
      "Logs of up to 2 (thorough 3) proposals of 1-2 records; one leader driving two different stores in one run, the goroutine scheduling of runtime.go, Pebble and crashes between recovery pages are not encoded - agreement across replicas is the lemma plus a paper induction. " + TB)

claim("C11", "other",
      "Slice: the real exporters, stream writers and importers of pkg/db/meta and pkg/db/message on the in-memory engine, stores compared byte for byte. Metadata: export of hash-slot sets (bulk and streaming writer produce identical bytes) restored by four importers into a fresh store gives exactly the rows of the exported hash slots and a byte-identical re-export; a restore over stale / partially written targets, retried, converges and never touches rows outside the imported hash slots; malformed or mismatched payloads with a valid checksum, truncation at every point, appended bytes and a single changed byte (exact CRC-32 via its GF(2)-affine form) are refused with the target untouched. Messages: a backup cut at the checkpointed HW restores every committed row with its id / idempotency / sender indexes, checkpoint and retention state, nothing above HW, re-import is a no-op and the re-export identical; corruption and malformed streams are refused. Findings C11-F1 and C11-F2 (both repaired).",
      "Pebble snapshots / iterators are replaced by the in-memory engine (no durability; crash-retry is modelled by the partial states a crashed import can leave); the io.Pipe + goroutine wrappers, zstd / archive / manifest layers, pkg/db/transfer and node-restore orchestration are not run; small stores with 6-bit symbolic fields; all-position byte corruption only for a 58-byte export; for the bulk message importer only checksum-detected damage is claimed. " + TB)

claim("C09", "other",
      "Slice, under Pebble's contract taken as axioms (A1 a batch commit is atomic; A2 commits become durable in commit order; A3 a synced commit that returned nil is durable together with everything before it, un-synced commits may be lost as a suffix at a power loss): every message-store mutation (Append, follower ApplyFetch with and without checkpoint, TruncateFrom, TrimPrefixThrough, StoreCheckpoint(Monotonic); the compat ChannelStore paths incl. retention adoption, paged trims and dispatch cursors; exact proposal appends, ReplaceRecoverySuffix, DiscardForRestore) is run on the in-memory engine with a crash injected at EVERY commit boundary and a restart keeping any number of un-synced commits: the recovered store (rows, all secondary indexes, proposal identities, checkpoint, retention state, LEO = last stored row or retained floor, HW <= LEO) equals the reference after some prefix of the issued operations, the in-flight operation all or nothing, every operation that reported success on a durable path included; 2-operation (thorough 3) histories likewise.",
      "Pebble itself (WAL, torn writes) is the axiom, not the subject; group commit of several requests into one physical batch, concurrency, the meta DB, epoch history, snapshot install and multi-channel batch APIs are not covered; the two deliberately un-synced paths (StoreCommittedDispatchCursor, deleteLatestMessageIndexes) are excluded from the durability obligation as documented by the code; DiscardForRestore is multi-commit by design - asserted: untouched, empty, or half-discarded with LoadDurableFrontier failing closed and a repeated discard completing; C07-F2 pattern assumed away as in C07. " + TB)

claim("C14", "other",
      "Slice: pkg/raftlog executed from source with the Pebble MODULE replaced by an in-memory shim (atomic batches, range deletes, bounded iterators, commit fault injection). For every Raft-valid history of 3 operations over {Save(hard state + entries incl. an overwrite of a conflicting suffix), Save with a snapshot / compaction, MarkApplied, MarkConfigApplied} the durable store answers InitialState, Entries(lo,hi), Term(i), FirstIndex, LastIndex and Snapshot exactly as the package's reference in-memory storage - after every operation, after a kill + reopen at any commit boundary (state before or after the operation, never a mix: every flush is exactly one Pebble commit), and after Close + Open; a failing commit returns the error and leaves the state unchanged; two scopes sharing one batch are each all-or-nothing; it never returns entries below the compaction point nor a term for an index it does not hold.",
      "Real Pebble (WAL, LSM, fsync, power loss inside a commit) is the axiom, not the subject; raftlog.Open, the write queue (submitWrite / runWriteWorker batching, timers) and snapshot chunk files are bypassed: the DB struct is built directly, the real flushWriteRequests is called with the requests Save / MarkApplied build, and snapshots are observed through their Pebble manifest; indexes enumerated in windows at 1, 254 (65534 thorough), terms 1..127 symbolic, one payload byte symbolic, applied indexes any uint64; the reference is pkg/raftlog/memory.go (etcd's MemoryStorage cannot be loaded from source). " + TB)

claim("C38", "other",
      "Slice: the real pkg/backup archive code (chunks, slot manifests, message-chunk index, repository markers, ReadStoredObject, LoadStoredSlot(Reference)) and the real PublishArchive / VerifyPublishedArchive of internal/runtime/backup over an in-memory ArchiveStore, with Zstandard replaced by an identity frame and SHA-256 abstract (injective) on symbolic streams. A published archive (chunks of a few symbolic bytes; a full 256-slot archive in the publish entries) verifies and reproduces its manifests; after ONE tampering step - rewrite / truncate / extend / drop / swap an object, a wrong reported size, one digest character at a symbolic position, a canonical re-encoding with one value or order changed, a manifest resealed with a recomputed COMPLETE marker, single bit flips of manifest and marker texts - verification and loading fail, never succeed, never panic; ReadStoredObject reads at most limit+1 bytes. Manifest decoders accept exactly the canonical text out of catalogues of 36-41 literal texts each (re-ordered / duplicate / unknown keys, trailing data, oversized counts, wrong version) - an enumeration over literals, not a symbolic claim over all bytes.",
      "Zstandard itself, arbitrary bytes as manifest input beyond the catalogue and bit flips, symbolic integers inside manifests, more than one change per archive, real-size limits (64 MiB, 200k chunks), the file / S3 store adapters, retention / HOLD, restore, exportSlot / FullStreamWriter (temp files), concurrency and cancellation are not covered; the adversary entries over the full archive use concrete content with symbolic tampering. encoding/json runs exactly (real library on a reflect mirror, engine/intr_C38.go). " + TB)

def main():
    props = [json.loads(l) for l in open(os.path.join(ROOT, 'properties.jsonl'))]
    checks, na = [], []
    pending = "harness not yet registered (see DESIGN.md section 5); not claimed until its quick check runs clean"
    for p in props:
        i = p['id']
        hj = os.path.join(ROOT, 'harness', i, 'check.json')
        if i in CLAIMED and os.path.exists(hj):
            cat, text, note, tech = CLAIMED[i]
            checks.append({
                "property_id": i,
                "quick_cmd": "./check %s quick" % i,
                "thorough_cmd": "./check %s thorough" % i,
                "evidence_file": "/verif/evidence/%s.json" % i,
                "replay_cmd_template": "sh {path}/run.sh",
                "engine": "symgo",
                "level_claimed": {"category": cat, "text": text, "design_ref": "DESIGN.md section 5 / " + i},
                "level_note": note,
                "technique": tech,
            })
        else:
            na.append({"property_id": i, "reason": NA.get(i, pending)})
    m = {
        "version": 1,
        "setup_cmd": "./setup.sh",
        "hooks": {"guard": "verif", "enable": "no source hooks: harnesses, the zzsym package and dependency shims are injected with go/packages overlays, -modfile replaces and go test -overlay",
                  "baseline_off_cmd": "cd /repo && go test -vet=off -count=1 -timeout 25m ./...", "source_commits": [], "add_only": True},
        "engines": [{"name": "symgo", "path": "/verif/engine", "serves_properties": sorted(c["property_id"] for c in checks),
                     "kind_free_text": "symbolic executor for Go SSA (go/ssa via x/tools v0.50.0) emitting SMT-LIB2 bit-vector queries to z3; native replay of models with go test -overlay"}],
        "checks": checks,
        "not_applicable": na,
        "notes": "exit 2 + INCONCLUSIVE lines = the check could not decide within its bounds (never reported as success). Thorough tier only: a PARTIAL line means an entry reached its time budget (30 min per entry, 2 h per check; SYMGO_THOROUGH_TOTAL_S) - everything explored held, the stated thorough bound was not completed, exit code unaffected. KNOWN-FINDING lines name entries of /verif/known_findings.json with status known. See DESIGN.md.",
    }
    json.dump(m, open(os.path.join(ROOT, 'MANIFEST.json'), 'w'), indent=1)
    print("claimed:", len(checks), "not claimed:", len(na))

if __name__ == '__main__':
    main()
