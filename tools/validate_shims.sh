#!/bin/sh
# Runs the repository's own meta/message/fsm test suites natively on the in-memory engine and the
# synchronous commit coordinator shims (Serval-style validation of the storage-seam stubs).
# Expected failures: tests about Pebble physical metrics and coordinator grouping/observers/cancellation.
set -u
OV=$(mktemp)
python3 - "$OV" <<'PY'
import json, sys, glob, os
ov = {"Replace": {}}
for f in glob.glob('/verif/harness/_memengine/*.go'):
    ov["Replace"]["/repo/pkg/db/internal/engine/" + os.path.basename(f)] = f
for f in glob.glob('/verif/harness/_synccommit/*.go'):
    ov["Replace"]["/repo/pkg/db/internal/commit/" + os.path.basename(f)] = f
json.dump(ov, open(sys.argv[1], 'w'))
PY
export PATH=/root/go/pkg/mod/golang.org/toolchain@v0.0.1-go1.25.11.linux-amd64/bin:$PATH GOTOOLCHAIN=local GOFLAGS=-mod=mod GOPROXY=off GOSUMDB=off
cd /repo
for p in ./pkg/db/meta/ ./pkg/db/message/ ./pkg/slot/fsm/; do
  out=$(go test -tags integration -vet=off -count=1 -overlay "$OV" -v $p 2>&1)
  echo "$p: $(echo "$out" | grep -c '^--- PASS') passed, $(echo "$out" | grep -c '^--- FAIL') failed"
  echo "$out" | grep '^--- FAIL' | sed 's/^/    /'
done
rm -f "$OV"
